"""C05 - temperature and logarithmic conversions follow their formulas and invert.

E2 bounded-exhaustive enumeration on the real library.  Every case is a small tuple (sub, units, value); it is
executed through Quantity(x,u).value(v) / .to(v) / a+b / a-b and compared with closed formulas written from the
property statement (nothing is read from the library's conversion table; only the list of prefixes that K / Np / B
admit is read from the published unit table, their numerical values are the SI ones written below).

Sub-checks
  temp          x[u] -> v for all ordered pairs of {K, Cel, degF, degR, every prefixed K}, incl. identity pairs
  temp-rt       u -> v -> u by two in-place to() calls returns x
  log-lin       level unit <-> its linear counterpart, both directions, prefixes on both sides
  log-lin-rt    the same, there and back
  log-frac      documented fraction form  dBm/Hz, dBmW/Hz, dBW/Hz <-> W/Hz
  log-log       pairs of level units of the same physical quantity (dBW<->dBm<->dBmW, dBV<->dBuV), identity of every
                level unit, change of prefix inside one level unit (B<->dB, Np<->cNp<->dNp)
  log-direct    B <-> Np directly, compared with the composition through the amplitude ratio and the power ratio
  log-direct-rt B -> Np -> B and Np -> B -> Np
  level-sum / level-diff   a+b, a-b (a>b) in every bel/decibel-type unit, each evaluated twice on the same two
                objects: both evaluations must give the power sum and a, b must still report their levels
  level-seq     a+b, a-b, b+a, a+b on one pair of objects (a>b), every result against the formula
  level-array   a+b and a-b element-wise for array-valued levels (all ordered value pairs packed into two arrays, given
                as ndarray and as list) in every bel/decibel-type unit, evaluated twice
  <sub>-unc     every scalar forward case of temp, log-lin, log-frac, log-log, log-direct once more with an absolute
                (0.25) and once with a relative (5 %) uncertainty attached to the quantity: same oracle, same tolerance
                (the formulas of the statement do not depend on an uncertainty being present)
  <sub>-tgt     the same cases with the target unit handed over as an object: value(BaseUnits(v)), to(BaseUnits(v)),
                to(Quantity(1, v))
  <sub>-attr    the same cases with the source built the documented way, x * Unit().<u>, on a Unit() object whose bare
                attribute <u> has first been converted in place to the target (spellings that are identifiers)
  log-frac2(-rt)  documented fraction pairs with linear spellings whose parts carry factors (W/cm2, mW/cm2, kW/km2 <-> dBSIL;
                W/kHz, mW/MHz, kW/Hz <-> dBm/Hz, dBmW/Hz, dBW/Hz), both directions and there-and-back
  log-refused   every ordered pair of level spellings the documentation does not list (dBm -> dBSWL, dBA -> dBuA ...): it is
                not demanded that the library refuses or accepts them, but when value(v)/to(v) raises, the quantity must
                report the same value and units afterwards and its documented conversion must still follow the formula
  level-aug     a += b and a -= b for every level unit (scalars over all value pairs, arrays as ndarray and list)
  temp-array / log-lin-array   the same conversions element-wise on an array, asked twice

Not demanded (left out on purpose)
  * level-unit pairs that the documentation does not list (dBuA<->dBA, dBW<->dBSWL, dB<->dBm ...);
  * compound expressions other than the documented X/Hz fraction form;
  * adding nepers; adding levels given in different units or prefixes; a-b with a<=b (log of a non-positive number);
  * kelvin / rankine magnitudes below zero (outside the physically meaningful range);
  * the two-letter prefix `da` (daK): its spelling is mis-parsed by the unit parser, which is property C03's
    mechanism - C05 would only re-report it;
  * bit-exact identity: "converting a unit to itself is the identity" is checked to 1e-12 relative, because the
    library legitimately computes x*0.1/0.1 for a deci-prefixed unit.
"""
import math
from fractions import Fraction as F

from ..common import Shard, outcome, HarnessError
from ..common import failure as _failure
from .. import isolation

PROPERTY = "C05"
LEVEL = "exploration"
RULE = ("case = (sub-check, source unit spelling, target unit spelling, magnitude); the case list is the complete "
        "product described in the module docstring, de-duplicated as a set; non-trivial = every distinct case "
        "(identity pairs are demanded by the statement and counted; nothing is executed twice)")
ASSUMPTIONS = [
    "oracle formulas (affine temperature maps through kelvin as exact rationals; k*log10(x/ref) with the reference "
    "levels 1 mW, 1 W, 1 V, 1 uV, 1 A, 1 uA, 1 Ohm, 20 uPa, 1e-12 W/m2, 1e-12 W; Np = ln(AR) = ln(PR)/2) are "
    "written from the statement and the SI prefix values, not read from the library",
    "agreement is numerical: relative 1e-9 (absolute 1e-9 on levels and on temperatures scaled by the 500 K offset "
    "scale), identity 1e-12",
    "the unit parser maps the spellings used here to the intended table rows (property C03)",
]

NSHARDS = 32
REL = 1e-9
REL_ID = 1e-12

SI = {'Y': 24, 'Z': 21, 'E': 18, 'P': 15, 'T': 12, 'G': 9, 'M': 6, 'k': 3, 'h': 2, 'da': 1,
      'd': -1, 'c': -2, 'm': -3, 'u': -6, 'n': -9, 'p': -12, 'f': -15, 'a': -18, 'z': -21, 'y': -24, '': 0}

# level unit -> (dB factor k, linear unit, reference level in that linear unit)
LEVELS = {
    'Bm':   (10, 'W', 1e-3), 'BmW': (10, 'W', 1e-3), 'BW': (10, 'W', 1.0),
    'BSIL': (10, 'W/m2', 1e-12), 'BSWL': (10, 'W', 1e-12),
    'BV':   (20, 'V', 1.0), 'BuV': (20, 'V', 1e-6), 'BA': (20, 'A', 1.0), 'BuA': (20, 'A', 1e-6),
    'BOhm': (20, 'Ohm', 1.0), 'BSPL': (20, 'Pa', 20e-6),
}
RATIOS = {'PR': 10, 'AR': 20}           # B <-> ratio: k*log10(ratio) decibel ; Np = ln(AR) = ln(PR)/2
LOGLOG = [('BW', 'Bm'), ('BW', 'BmW'), ('Bm', 'BmW'), ('BV', 'BuV')]     # documented level<->level pairs
LIN_PREFIXES = ['', 'm', 'k', 'u', 'M']      # fixed core, enumerated by every run
NWINDOWS = 5                                 # the other admissible prefixes of W, V, A, Ohm, Pa: 5 windows of 3;
                                             # quick enumerates window VERIF_SEED % 5 completely, thorough all of them
T_VALUES = [-40, 0, 0.001, 100, 273.15, 1e4]
LEVEL_VALUES = [-30, 0, 3, 20, 94, 120]
LIN_VALUES = [1e-12, 0.02, 1, 50, 1e3]
SUM_VALUES = [0, 1, 2, 83, 87]
# further magnitudes enumerated by the thorough tier only
T_MORE = [37, 451.5, 5778]
LEVEL_MORE = [-120, -3, 1, 10, 60]
LIN_MORE = [1e-6, 7.3, 1e6]
SUM_MORE = [10, 30]
UNC_SUBS = ('temp', 'log-lin', 'log-frac', 'log-log', 'log-direct')
UNC_KINDS = ('abse', 'rele')
# linear fraction spellings whose non-leading / leading units carry a factor: spelling -> (base linear unit, SI factor)
FRAC2 = {
    'BSIL': [('W/cm2', 'W/m2', 1e4), ('mW/cm2', 'W/m2', 10.0), ('kW/km2', 'W/m2', 1e-3)],
    'Bm/Hz': [('W/kHz', 'W', 1e-3), ('mW/MHz', 'W', 1e-9), ('kW/Hz', 'W', 1e3)],
    'BmW/Hz': [('W/kHz', 'W', 1e-3), ('mW/MHz', 'W', 1e-9)],
    'BW/Hz': [('W/kHz', 'W', 1e-3), ('mW/MHz', 'W', 1e-9)],
}
REFUSED_VALUE = 3
TGT_KINDS = ('value-baseunits', 'to-baseunits', 'to-quantity')   # target unit handed over as an object
VARIANTS = {'-unc': UNC_KINDS, '-tgt': TGT_KINDS, '-attr': ('unit-attr',)}
UNC_ABSE = 0.25          # absolute uncertainty attached in the *-unc cases
UNC_RELE = 5.0           # relative uncertainty (percent)

# conversion walks: one quantity converted in place along every path of WALK_DEPTH steps (no unit twice in a row)
# through a set of mutually convertible spellings; after every step the value is compared with the formulas applied
# step by step to the *written* start value (reference trace), and the reported unit with the library's own spelling
WALK_DEPTH = dict(quick=3, thorough=4)
T_WALK_UNITS = ['K', 'mK', 'kK', 'Cel', 'degF', 'degR']
T_WALK_VALUES = [0.001, 100, 273.15]
LOG_WALK_GROUPS = [
    (['dBm', 'dBW', 'dBmW', 'BW', 'W', 'mW', 'kW'], {'level': [-30, 3, 20], 'linear': [0.02, 50]}),
    (['dBV', 'dBuV', 'BV', 'V', 'mV', 'uV'], {'level': [-30, 3, 20], 'linear': [0.02, 50]}),
    (['dB', 'B', 'Np', 'cNp', 'PR'], {'level': [-3, 3, 20], 'linear': [0.02, 50]}),
    (['dB', 'dNp', 'Np', 'AR'], {'level': [-3, 3], 'linear': [0.5, 50]}),
]

_CASES = {}
_PREF = None
_LINP = None


def init_worker():
    global _PREF
    isolation.tables_snapshot()
    from scinumtools.units import settings as st
    allp = [p for p in st.UNIT_PREFIXES.keys()]
    unknown = [p for p in allp if p not in SI]
    if unknown:
        raise HarnessError("prefix table contains prefixes the oracle does not know: %r" % unknown)

    def adm(sym):
        p = st.UNIT_STANDARD[sym].prefixes
        if p is True:
            return list(allp)
        return list(p) if isinstance(p, (list, tuple)) else []
    _PREF = dict(K=[p for p in adm('K') if p != 'da'])          # `da`: see "not demanded"
    for s in ['Np', 'B'] + list(LEVELS):
        _PREF[s] = adm(s)
        if s != 'Np' and _PREF[s] != ['d']:
            raise HarnessError("unexpected prefixes for %s: %r" % (s, _PREF[s]))
    if sorted(_PREF['Np']) != ['c', 'd'] or len(_PREF['K']) != 19:
        raise HarnessError("unexpected prefixes: Np %r K %r" % (_PREF['Np'], _PREF['K']))
    for s in ('Cel', 'degF', 'degR', 'AR', 'PR'):
        if adm(s):
            raise HarnessError("%s admits prefixes %r" % (s, adm(s)))
    global _LINP
    _LINP = [p for p in allp if p not in LIN_PREFIXES and p != 'da']
    for s in ('W', 'V', 'A', 'Ohm', 'Pa'):
        if sorted(adm(s)) != sorted(allp):
            raise HarnessError("%s does not admit every prefix: %r" % (s, adm(s)))
    if len(_LINP) != 3 * NWINDOWS:
        raise HarnessError("prefix windows do not tile the prefix list: %r" % (_LINP,))


def lin_prefixes(tier, seed):
    if tier == "thorough":
        return LIN_PREFIXES + _LINP
    w = seed % NWINDOWS
    return LIN_PREFIXES + _LINP[3 * w:3 * w + 3]


def _stable(x):
    """NaN != NaN would make a reported failure look non-reproducible: non-finite floats are recorded as text"""
    if isinstance(x, (list, tuple)):
        return [_stable(y) for y in x]
    try:
        import numpy as np
        if isinstance(x, np.generic):
            x = x.item()
    except Exception:
        pass
    if isinstance(x, float) and (x != x or x in (float("inf"), float("-inf"))):
        return repr(x)
    return x


def failure(sub, case, expected, observed, tags=(), behaviour=""):
    return _failure(sub, case, _stable(expected), _stable(observed), tags, behaviour)


# ------------------------------------------------------------------------------------------- oracle
def _pf(p):
    return F(10) ** SI[p]


def t_split(u):
    """temperature spelling -> (prefix, base)"""
    for b in ('Cel', 'degF', 'degR'):
        if u == b:
            return '', b
    assert u.endswith('K')
    return u[:-1], 'K'


def t_to_kelvin(x, u):
    p, b = t_split(u)
    x = F(x)
    if b == 'K':
        return x * _pf(p)
    if b == 'Cel':
        return x + F('273.15')
    if b == 'degF':
        return (x + F('459.67')) * F(5, 9)
    return x * F(5, 9)


def t_from_kelvin(k, u):
    p, b = t_split(u)
    if b == 'K':
        return k / _pf(p)
    if b == 'Cel':
        return k - F('273.15')
    if b == 'degF':
        return k * F(9, 5) - F('459.67')
    return k * F(9, 5)


def t_scale(u):
    """size of the 500 K offset scale expressed in unit u (absolute tolerance unit)"""
    return float(abs(t_from_kelvin(F(500), u) - t_from_kelvin(F(0), u)))


def l_split(u):
    """level/linear spelling -> (prefix, base); longest base wins, as in the unit table"""
    bases = sorted(list(LEVELS) + ['B', 'Np', 'PR', 'AR', 'W/m2', 'W', 'V', 'A', 'Ohm', 'Pa'], key=len, reverse=True)
    for b in bases:
        if u.endswith(b) and u[:-len(b)] in SI:
            if b == 'W/m2' or not u.endswith('W/m2'):
                return u[:-len(b)], b
    raise HarnessError("cannot split " + u)


def level_to_linear(x, lu, vu):
    """x in level unit lu -> value in linear unit vu (float)"""
    lp, lb = l_split(lu)
    vp, vb = l_split(vu)
    lev = x * 10.0 ** SI[lp]                  # in the unprefixed unit (B-type or Np)
    if lb == 'Np':
        si = math.exp(lev) if vb == 'AR' else math.exp(2 * lev)
    elif lb == 'B':
        si = math.pow(10.0, 10 * lev / RATIOS[vb])
    else:
        k, lin, ref = LEVELS[lb]
        assert lin == vb
        si = ref * math.pow(10.0, 10 * lev / k)
    return si / 10.0 ** SI[vp]


def linear_to_level(x, vu, lu):
    lp, lb = l_split(lu)
    vp, vb = l_split(vu)
    si = x * 10.0 ** SI[vp]
    if lb == 'Np':
        lev = math.log(si) if vb == 'AR' else 0.5 * math.log(si)
    elif lb == 'B':
        lev = RATIOS[vb] * math.log10(si) / 10
    else:
        k, lin, ref = LEVELS[lb]
        assert lin == vb
        lev = k * math.log10(si / ref) / 10
    return lev / 10.0 ** SI[lp]


def level_to_level(x, u, v):
    """documented pairs of level units of one physical quantity: through the linear counterpart"""
    up, ub = l_split(u)
    vp, vb = l_split(v)
    lev = x * 10.0 ** SI[up]
    if ub == vb:
        out = lev
    elif {ub, vb} == {'B', 'Np'}:
        # Np = ln(AR), dB = 20 log10(AR)  =>  1 Np = 2/ln(10) B
        out = lev * 2 / math.log(10) if ub == 'Np' else lev * math.log(10) / 2
    else:
        ku, lu_, ru = LEVELS[ub]
        kv, lv_, rv = LEVELS[vb]
        assert ku == kv and lu_ == lv_
        out = lev + ku * math.log10(ru / rv) / 10
    return out / 10.0 ** SI[vp]


# ------------------------------------------------------------------------------------------- enumeration
def cases(tier, seed):
    key = (tier, seed % NWINDOWS)
    if key in _CASES:
        return _CASES[key]
    linp = lin_prefixes(tier, seed)
    more = tier == "thorough"
    T_VALUES_, LEVEL_VALUES_ = T_VALUES + (T_MORE if more else []), LEVEL_VALUES + (LEVEL_MORE if more else [])
    LIN_VALUES_, SUM_VALUES_ = LIN_VALUES + (LIN_MORE if more else []), SUM_VALUES + (SUM_MORE if more else [])
    out = []
    seen = set()

    def add(*c):
        if c not in seen:
            seen.add(c)
            out.append(c)
            # the formulas do not depend on whether the quantity carries an uncertainty: every scalar forward
            # conversion is asked again with an absolute and with a relative uncertainty attached
            if c[0] in UNC_SUBS:
                for kind in UNC_KINDS:
                    add(c[0] + '-unc', c[1], c[2], c[3], kind)
                # ... with the target unit given as a BaseUnits object (value() and to()) or as Quantity(1, v) (to())
                for kind in TGT_KINDS:
                    add(c[0] + '-tgt', c[1], c[2], c[3], kind)
                # ... and with the source built the documented way  x * Unit().<u>  after the bare attribute of the same
                # Unit() object has been converted in place (only spellings that are Python identifiers)
                if c[1].isidentifier():
                    add(c[0] + '-attr', c[1], c[2], c[3], 'unit-attr')
    # temperatures
    tunits = ['K', 'Cel', 'degF', 'degR'] + [p + 'K' for p in _PREF['K']]
    for u in tunits:
        for v in tunits:
            for x in T_VALUES_:
                if x < 0 and t_split(u)[1] in ('K', 'degR'):
                    continue
                add('temp', u, v, x)
                if u != v:
                    add('temp-rt', u, v, x)
            # the same conversion element-wise on an array, asked twice (the answer must not depend on an earlier query)
            add('temp-array', u, v, tuple(x for x in T_VALUES_ if not (x < 0 and t_split(u)[1] in ('K', 'degR'))))
    # level <-> linear
    def lspell(b):
        return [b] + [p + b for p in _PREF[b]]
    pairs = []
    for lb, (k, lin, ref) in LEVELS.items():
        lins = [p + lin for p in linp]
        pairs += [(lu, vu) for lu in lspell(lb) for vu in lins]
    for lb in ('B', 'Np'):
        pairs += [(lu, vu) for lu in lspell(lb) for vu in ('PR', 'AR')]
    for lu, vu in pairs:
        add('log-lin-array', lu, vu, tuple(LEVEL_VALUES_))
        add('log-lin-array', vu, lu, tuple(LIN_VALUES_))
        for x in LEVEL_VALUES_:
            add('log-lin', lu, vu, x)
            add('log-lin-rt', lu, vu, x)
        for x in LIN_VALUES_:
            add('log-lin', vu, lu, x)
            add('log-lin-rt', vu, lu, x)
    for lb in ('Bm', 'BmW', 'BW'):
        for lu in lspell(lb):
            for x in LEVEL_VALUES_:
                add('log-frac', lu + '/Hz', 'W/Hz', x)
            for x in LIN_VALUES_:
                add('log-frac', 'W/Hz', lu + '/Hz', x)
    # linear fraction forms with prefixed numerators / denominators (both directions, and there and back)
    for lb, lins in FRAC2.items():
        base = lb.split('/')[0]
        for lu in [lb, 'd' + lb]:
            for vu, _, _ in lins:
                for x in LEVEL_VALUES_:
                    add('log-frac2', lu, vu, x)
                    add('log-frac2-rt', lu, vu, x)
                for x in LIN_VALUES_:
                    add('log-frac2', vu, lu, x)
                    add('log-frac2-rt', vu, lu, x)
    # pairs of level units the documentation does not list: whatever the library does with them, a refusal must leave
    # the quantity as it was
    allspell = [sp for b in ['B', 'Np'] + list(LEVELS) for sp in lspell(b)]
    for u in allspell:
        for v in allspell:
            bu, bv = l_split(u)[1], l_split(v)[1]
            if bu == bv or {bu, bv} == {'B', 'Np'} or (bu, bv) in LOGLOG or (bv, bu) in LOGLOG:
                continue
            add('log-refused', u, v, REFUSED_VALUE)
    # level <-> level
    for b in ['B', 'Np'] + list(LEVELS):
        for u in lspell(b):
            for v in lspell(b):
                for x in LEVEL_VALUES_:
                    add('log-log', u, v, x)
    for a, b in LOGLOG:
        for u in lspell(a):
            for v in lspell(b):
                for x in LEVEL_VALUES_:
                    add('log-log', u, v, x)
                    add('log-log', v, u, x)
    for u in lspell('B'):
        for v in lspell('Np'):
            for x in LEVEL_VALUES_:
                for s, t in ((u, v), (v, u)):
                    add('log-direct', s, t, x)
                    add('log-direct-rt', s, t, x)
    # level arithmetic (every sum/difference is evaluated twice on the same two objects; for x>y also the
    # sequence a+b, a-b, b+a, a+b on one pair of objects)
    for b in ['B'] + list(LEVELS):
        for u in lspell(b):
            for x in SUM_VALUES_:
                for y in SUM_VALUES_:
                    add('level-sum', u, x, y)
                    if x > y:
                        add('level-diff', u, x, y)
                        add('level-seq', u, x, y)
            # the same sums / differences element-wise on array-valued levels: all ordered pairs of the value set at
            # once (so the arrays mix x>y, x<y and x==y positions), given as ndarray and as list, evaluated twice
            sx = tuple(x for x in SUM_VALUES_ for y in SUM_VALUES_)
            sy = tuple(y for x in SUM_VALUES_ for y in SUM_VALUES_)
            dx = tuple(x for x in SUM_VALUES_ for y in SUM_VALUES_ if x > y)
            dy = tuple(y for x in SUM_VALUES_ for y in SUM_VALUES_ if x > y)
            for kind in ('ndarray', 'list'):
                add('level-array', u, '+', kind, sx, sy)
                add('level-array', u, '-', kind, dx, dy)
                add('level-aug', u, '+=', kind, sx, sy)
                add('level-aug', u, '-=', kind, dx, dy)
            # augmented assignment a += b, a -= b (scalars; the array forms are above)
            for x in SUM_VALUES_:
                for y in SUM_VALUES_:
                    add('level-aug', u, '+=', 'scalar', (x,), (y,))
                    if x > y:
                        add('level-aug', u, '-=', 'scalar', (x,), (y,))
    depth = WALK_DEPTH[tier]

    def paths(nodes, start, n):
        fr = [(start,)]
        for _ in range(n):
            fr = [pth + (v,) for pth in fr for v in nodes if v != pth[-1]]
        return [pth[1:] for pth in fr]
    for u in T_WALK_UNITS:
        if u not in tunits:
            raise HarnessError("walk unit %s is not an admissible temperature spelling" % u)
        for pth in paths(T_WALK_UNITS, u, depth):
            for x in T_WALK_VALUES + ([-40] if u in ('Cel', 'degF') else []):
                add('temp-walk', u, pth, x)
    for nodes, vals in LOG_WALK_GROUPS:
        for u in nodes:
            kind = 'level' if _is_level(u) else 'linear'
            for pth in paths(nodes, u, depth):
                for x in vals[kind]:
                    add('log-walk', u, pth, x)
    _CASES[key] = out
    return out


def _is_level(u):
    b = l_split(u)[1]
    return b in LEVELS or b in ('B', 'Np')


def _walk_step_ref(x, u, v):
    """one step of the reference trace for a level / linear walk"""
    lu, lv = _is_level(u), _is_level(v)
    if lu and lv:
        return level_to_level(x, u, v)
    if lu:
        return level_to_linear(x, u, v)
    if lv:
        return linear_to_level(x, u, v)
    (pu, bu), (pv, bv) = l_split(u), l_split(v)
    assert bu == bv
    return x * 10.0 ** SI[pu] / 10.0 ** SI[pv]


def _walk(x, u, pth):
    from scinumtools.units import Quantity
    q = Quantity(x, u)
    out = []
    probe0 = q.value(u)                       # value-in-other-unit queries interleaved with the in-place conversions:
    for v in pth:                             # the start unit is asked for before the walk and after every step
        q.to(v)
        out.append((q.value(), q.units(), Quantity(1, v).units(), q.value(u)))
    return probe0, out


# ------------------------------------------------------------------------------------------- execution
def _close(got, exp, rel, absol):
    try:
        got = float(got)
    except Exception:
        return False
    if math.isnan(got) or math.isinf(got):
        return False
    return abs(got - exp) <= max(rel * abs(exp), absol)


def _relclass(got, exp, scale=0.0):
    try:
        d = abs(float(got) - exp) / max(abs(exp), scale, 1e-300)
    except Exception:
        return "not-a-number"
    if d != d or d in (float('inf'),):
        return "nan-or-inf"
    if d == 0:
        return "0"
    return "1e%d" % math.ceil(math.log10(d))


def _quantity(x, u, unc=None):
    from scinumtools.units import Quantity
    if unc == 'abse':
        return Quantity(x, u, abse=UNC_ABSE)
    if unc == 'rele':
        return Quantity(x, u, rele=UNC_RELE)
    return Quantity(x, u)


def _target(v, var):
    from scinumtools.units import Quantity
    from scinumtools.units.base_units import BaseUnits
    if var in ('value-baseunits', 'to-baseunits'):
        return BaseUnits(v)
    if var == 'to-quantity':
        return Quantity(1, v)
    return v


def _from_unit_attribute(x, u, first_target):
    """documented construction x * Unit().<u>, on a Unit() object whose bare attribute <u> has just been converted in
    place to first_target"""
    from scinumtools.units import Unit
    U = Unit()
    getattr(U, u).to(first_target)
    return x * getattr(U, u)


def _value(x, u, v, var=None):
    if var == 'unit-attr':
        return _from_unit_attribute(x, u, v).value(v)
    q = _quantity(x, u, var)
    if var in ('to-baseunits', 'to-quantity'):
        return q.to(_target(v, var)).value()
    return q.value(_target(v, var))


def _array_twice(xs, u, v):
    import numpy as np
    from scinumtools.units import Quantity
    q = Quantity(np.array(xs, dtype=float), u)
    a = np.array(q.value(v), dtype=float).copy()
    b = np.array(q.value(v), dtype=float).copy()
    return a.tolist(), b.tolist(), np.array(q.value(), dtype=float).tolist()


def _there_and_back(x, u, v):
    from scinumtools.units import Quantity
    q = Quantity(x, u)
    spelled = q.units()                    # the library's own canonical spelling of u (e.g. W/m2 -> W*m-2)
    q.to(v)
    mid = q.value()
    q.to(u)
    return (mid, q.value(), u if q.units() == spelled else q.units())


def _via(x, u, mid, v, var=None):
    q = _from_unit_attribute(x, u, mid) if var == 'unit-attr' else _quantity(x, u, var)
    q.to(_target(mid, var))
    q.to(_target(v, var))
    return q.value()


def _refused(x, u, v, lin):
    """try value(v) and to(v) on one quantity; report what happened and what the quantity says afterwards"""
    from scinumtools.units import Quantity
    q = Quantity(x, u)
    spelled = q.units()
    raised = []
    for how in ('value', 'to'):
        try:
            q.value(v) if how == 'value' else q.to(v)
            raised.append(False)
        except Exception:
            raised.append(True)
    return (raised, q.value(), q.units() == spelled, q.units(), q.value(lin))


def _aug(op, u, xs, ys, du, kind):
    """a += b / a -= b; returns what a reports afterwards (read in decibels) and what b reports"""
    import numpy as np
    from scinumtools.units import Quantity
    if kind == 'scalar':
        a, b = Quantity(float(xs[0]), u), Quantity(float(ys[0]), u)
    else:
        mk = (lambda v: np.array(v, dtype=float)) if kind == 'ndarray' else (lambda v: [float(t) for t in v])
        a, b = Quantity(mk(xs), u), Quantity(mk(ys), u)
    if op == '+=':
        a += b
    else:
        a -= b
    return (np.atleast_1d(np.array(a.value(du), dtype=float)).tolist(), np.atleast_1d(b.value()).tolist())


def _arith(ops, u, x, y, du):
    """evaluate the operations of `ops` one after the other on the SAME two objects a, b; returns the results read in
    decibels and what a and b report afterwards"""
    from scinumtools.units import Quantity
    a, b = Quantity(x, u), Quantity(y, u)
    res = []
    for op in ops:
        r = {'a+b': lambda: a + b, 'a-b': lambda: a - b, 'b+a': lambda: b + a}[op]()
        res.append(r.value(du))
    return (res, a.value(), b.value())


def _arith_array(op, u, xs, ys, du, kind):
    """a (+|-) b for array-valued levels, evaluated twice on the same objects"""
    import numpy as np
    from scinumtools.units import Quantity
    mk = (lambda v: np.array(v, dtype=float)) if kind == 'ndarray' else (lambda v: [float(t) for t in v])
    a, b = Quantity(mk(xs), u), Quantity(mk(ys), u)
    res = []
    for _ in range(2):
        r = a + b if op == '+' else a - b
        res.append(np.atleast_1d(np.array(r.value(du), dtype=float)).tolist())
    return (res, np.atleast_1d(a.value()).tolist(), np.atleast_1d(b.value()).tolist())


def _tags(sub, u, v):
    t = []
    if sub.startswith('temp'):
        (pu, bu), (pv, bv) = t_split(u), t_split(v)
    else:
        (pu, bu), (pv, bv) = l_split(u.replace('/Hz', '')), l_split(v.replace('/Hz', ''))
    t += ["src=" + bu, "dst=" + bv]
    if u == v:
        t.append("identity")
    elif bu == bv:
        t.append("same-base")
    if pu or pv:
        t.append("prefixed")
    return t


def check_case(c, _unc=None):
    """Execute one case; return a failure record or None."""
    sub = c[0]
    rec = None
    for suffix in VARIANTS:
        if sub.endswith(suffix):
            # same case with an uncertainty attached / the target given as an object / the source built from a Unit()
            # attribute: identical oracle, identical tolerance
            var = c[4]
            rec = check_case((sub[:-len(suffix)],) + tuple(c[1:4]), var)
            if rec is not None:
                rec["sub"] = sub
                rec["case"] = list(c)
                rec["tags"] = sorted(set(rec["tags"]) | {("uncertainty=" if suffix == '-unc' else "variant=") + var})
            return rec
    unc = _unc                                   # variant of the case (None for the plain one)
    if sub in ('temp-walk', 'log-walk'):
        _, u, pth, x = c
        pth = tuple(pth)
        o = outcome(_walk, x, u, pth)
        if sub == 'temp-walk':
            kel = t_to_kelvin(x, u)
            exps = [float(t_from_kelvin(kel, v)) for v in pth]
            tols = [(REL, REL * t_scale(v)) for v in pth]
        else:
            exps, cur, prev = [], float(x), u
            for v in pth:
                cur = _walk_step_ref(cur, prev, v)
                exps.append(cur)
                prev = v
            tols = [(REL, 1e-9 / 10.0 ** SI[l_split(v)[0]] if _is_level(v) else 0.0) for v in pth]
        tsub = 'temp' if sub == 'temp-walk' else 'log'
        if o[0] == 'err':
            return failure(sub, [sub, u, list(pth), x], exps, list(o), _tags(tsub, u, pth[-1]) + ['walk'],
                           "raises:" + o[1] + ":" + _short(o[2]))
        probe0, steps = o[1]
        ptol = (REL, REL * t_scale(u)) if sub == 'temp-walk' else \
            (REL, 1e-9 / 10.0 ** SI[l_split(u)[0]] if _is_level(u) else 0.0)
        if not _close(probe0, float(x), *ptol):
            return failure(sub, [sub, u, list(pth), x], float(x), probe0, _tags(tsub, u, u) + ['walk', 'probe'],
                           "probe-in-start-unit:wrong-before-walk")
        for i, ((got, units, spelled, probe), exp, tol) in enumerate(zip(steps, exps, tols)):
            if not _close(probe, float(x), *ptol):
                return failure(sub, [sub, u, list(pth), x], float(x), probe,
                               _tags(tsub, pth[i], u) + ['walk', 'probe', 'step=%d' % i],
                               "probe-in-start-unit:wrong-after-step")
            if units != spelled:
                return failure(sub, [sub, u, list(pth), x], [exp, spelled], [got, units],
                               _tags(tsub, ([u] + list(pth))[i], pth[i]) + ['walk', 'step=%d' % i], "wrong-units-after-step")
            if not _close(got, exp, *tol):
                return failure(sub, [sub, u, list(pth), x], exps, [g[0] for g in steps],
                               _tags(tsub, ([u] + list(pth))[i], pth[i]) + ['walk', 'step=%d' % i],
                               "wrong-value:rel~" + _relclass(got, exp, t_scale(pth[i]) if tsub == 'temp' else 0.0))
        return None
    if sub == 'temp':
        _, u, v, x = c
        exp = float(t_from_kelvin(t_to_kelvin(x, u), v))
        o = outcome(_value, x, u, v, unc)
        tol = (REL_ID, REL_ID * t_scale(v)) if u == v else (REL, REL * t_scale(v))
        if o[0] == 'err':
            rec = failure(sub, list(c), exp, list(o), _tags(sub, u, v), "raises:" + o[1] + ":" + _short(o[2]))
        elif not _close(o[1], exp, *tol):
            rec = failure(sub, list(c), exp, o[1], _tags(sub, u, v), "wrong-value:rel~" + _relclass(o[1], exp, t_scale(v)))
    elif sub in ('temp-array', 'log-lin-array'):
        _, u, v, xs = c
        xs = list(xs)
        if sub == 'temp-array':
            exp = [float(t_from_kelvin(t_to_kelvin(x, u), v)) for x in xs]
            tols = [(REL, REL * t_scale(v))] * len(xs)
        else:
            uu, vv = u, v
            to_level = l_split(vv)[1] in LEVELS or l_split(vv)[1] in ('B', 'Np')
            exp = [linear_to_level(x, uu, vv) if to_level else level_to_linear(x, uu, vv) for x in xs]
            pv = 10.0 ** SI[l_split(vv)[0]]
            tols = [(REL, 1e-9 / pv if to_level else 0.0)] * len(xs)
        o = outcome(_array_twice, xs, u, v)
        if o[0] == 'err':
            rec = failure(sub, list(c), exp, list(o), _tags(sub, u, v) + ['array'], "raises:" + o[1] + ":" + _short(o[2]))
        else:
            a, b, after = o[1]
            if len(a) != len(xs) or not all(_close(g, e, *t) for g, e, t in zip(a, exp, tols)):
                rec = failure(sub, list(c), exp, a, _tags(sub, u, v) + ['array'], "wrong-value:array")
            elif b != a:
                rec = failure(sub, list(c), a, b, _tags(sub, u, v) + ['array'], "second-query-differs")
            elif after != [float(x) for x in xs]:
                rec = failure(sub, list(c), xs, after, _tags(sub, u, v) + ['array'], "source-array-changed-by-query")
    elif sub == 'temp-rt':
        _, u, v, x = c
        o = outcome(_there_and_back, x, u, v)
        exp = float(x)
        if o[0] == 'err':
            rec = failure(sub, list(c), exp, list(o), _tags(sub, u, v), "raises:" + o[1] + ":" + _short(o[2]))
        elif o[1][2] != u or not _close(o[1][1], exp, REL, REL * t_scale(u)):
            rec = failure(sub, list(c), [exp, u], [o[1][1], o[1][2]], _tags(sub, u, v),
                          "round-trip-differs:rel~" + _relclass(o[1][1], exp, t_scale(u)))
    elif sub in ('log-lin', 'log-frac', 'log-lin-rt'):
        _, u, v, x = c
        uu, vv = u.replace('/Hz', ''), v.replace('/Hz', '')
        to_level = l_split(vv)[1] in LEVELS or l_split(vv)[1] in ('B', 'Np')
        if sub == 'log-lin-rt':
            o = outcome(_there_and_back, x, u, v)
            exp = float(x)
            absol = 0.0 if to_level else 1e-9          # the value that comes back is a level iff the source is one
            if o[0] == 'err':
                rec = failure(sub, list(c), exp, list(o), _tags(sub, u, v), "raises:" + o[1] + ":" + _short(o[2]))
            elif o[1][2] != u or not _close(o[1][1], exp, REL, absol):
                rec = failure(sub, list(c), [exp, u], [o[1][1], o[1][2]], _tags(sub, u, v),
                              "round-trip-differs:rel~" + _relclass(o[1][1], exp))
        else:
            exp = linear_to_level(x, uu, vv) if to_level else level_to_linear(x, uu, vv)
            o = outcome(_value, x, u, v, unc)
            pv = 10.0 ** SI[l_split(vv)[0]]
            absol = 1e-9 / pv if to_level else 0.0     # 1e-9 bel-or-neper-sized absolute slack on levels
            if o[0] == 'err':
                rec = failure(sub, list(c), exp, list(o), _tags(sub, u, v), "raises:" + o[1] + ":" + _short(o[2]))
            elif not _close(o[1], exp, REL, absol):
                rec = failure(sub, list(c), exp, o[1], _tags(sub, u, v), "wrong-value:rel~" + _relclass(o[1], exp))
    elif sub == 'log-log':
        _, u, v, x = c
        exp = level_to_level(x, u, v)
        o = outcome(_value, x, u, v, unc)
        rel = REL_ID if u == v else REL
        absol = 1e-9 / 10.0 ** SI[l_split(v)[0]]
        if u == v:
            absol = 0.0
        if o[0] == 'err':
            rec = failure(sub, list(c), exp, list(o), _tags(sub, u, v), "raises:" + o[1] + ":" + _short(o[2]))
        elif not _close(o[1], exp, rel, absol):
            rec = failure(sub, list(c), exp, o[1], _tags(sub, u, v), "wrong-value:rel~" + _relclass(o[1], exp))
    elif sub == 'log-direct':
        _, u, v, x = c
        exp = level_to_level(x, u, v)
        absol = 1e-9 / 10.0 ** SI[l_split(v)[0]]
        o = outcome(_value, x, u, v, unc)
        if o[0] == 'err':
            rec = failure(sub, list(c), exp, list(o), _tags(sub, u, v), "raises:" + o[1] + ":" + _short(o[2]))
        elif not _close(o[1], exp, REL, absol):
            rec = failure(sub, list(c), exp, o[1], _tags(sub, u, v), "wrong-value:rel~" + _relclass(o[1], exp))
        else:
            # the same conversion through the amplitude ratio and through the power ratio must agree with it
            for mid in ('AR', 'PR'):
                o2 = outcome(_via, x, u, mid, v, unc)
                if o2[0] == 'err':
                    rec = failure(sub, list(c), exp, list(o2), _tags(sub, u, v) + ["via=" + mid],
                                  "raises:" + o2[1] + ":" + _short(o2[2]))
                elif not _close(o2[1], o[1], REL, absol):
                    rec = failure(sub, list(c), o[1], o2[1], _tags(sub, u, v) + ["via=" + mid],
                                  "direct-vs-composed-differs:rel~" + _relclass(o2[1], o[1]))
                if rec:
                    break
    elif sub == 'log-direct-rt':
        _, u, v, x = c
        o = outcome(_there_and_back, x, u, v)
        exp = float(x)
        if o[0] == 'err':
            rec = failure(sub, list(c), exp, list(o), _tags(sub, u, v), "raises:" + o[1] + ":" + _short(o[2]))
        elif o[1][2] != u or not _close(o[1][1], exp, REL, 1e-9):
            rec = failure(sub, list(c), [exp, u], [o[1][1], o[1][2]], _tags(sub, u, v),
                          "round-trip-differs:rel~" + _relclass(o[1][1], exp))
    elif sub in ('log-frac2', 'log-frac2-rt'):
        _, u, v, x = c
        table = {(lb if pref == '' else 'd' + lb, vu): (blin, f) for lb, lins in FRAC2.items() for vu, blin, f in lins
                 for pref in ('', 'd')}
        to_level = (v, u) in table
        lu, vu = (v, u) if to_level else (u, v)
        blin, f = table[(lu, vu)]
        lu0 = lu.replace('/Hz', '')
        tags = ["src=" + u, "dst=" + v, "fraction-with-factor"]
        if sub == 'log-frac2-rt':
            o = outcome(_there_and_back, x, u, v)
            exp = float(x)
            if o[0] == 'err':
                rec = failure(sub, list(c), exp, list(o), tags, "raises:" + o[1] + ":" + _short(o[2]))
            elif o[1][2] != u or not _close(o[1][1], exp, REL, 0.0 if to_level else 1e-9):
                rec = failure(sub, list(c), [exp, u], [o[1][1], o[1][2]], tags,
                              "round-trip-differs:rel~" + _relclass(o[1][1], exp))
        else:
            exp = linear_to_level(x * f, blin, lu0) if to_level else level_to_linear(x, lu0, blin) / f
            o = outcome(_value, x, u, v)
            absol = 1e-9 / 10.0 ** SI[l_split(lu0)[0]] if to_level else 0.0
            if o[0] == 'err':
                rec = failure(sub, list(c), exp, list(o), tags, "raises:" + o[1] + ":" + _short(o[2]))
            elif not _close(o[1], exp, REL, absol):
                rec = failure(sub, list(c), exp, o[1], tags, "wrong-value:rel~" + _relclass(o[1], exp))
    elif sub == 'log-refused':
        _, u, v, x = c
        bu = l_split(u)[1]
        lin = 'AR' if bu in ('B', 'Np') else LEVELS[bu][1]
        exp = level_to_linear(x, u, lin)
        o = outcome(_refused, x, u, v, lin)
        tags = ["src=" + bu, "dst=" + l_split(v)[1], "undocumented-pair"]
        if o[0] == 'err':
            rec = failure(sub, list(c), exp, list(o), tags, "raises-afterwards:" + o[1])
        else:
            raised, val, same_units, units_now, linval = o[1]
            if any(raised):
                # not demanded: that the pair is refused (or accepted).  Demanded: a refusal leaves the quantity alone
                if not same_units or not _close(val, float(x), REL_ID, 0.0):
                    rec = failure(sub, list(c), [float(x), u], [val, units_now], tags + ["refused"],
                                  "quantity-changed-by-refused-conversion")
                elif not _close(linval, exp, REL, 0.0):
                    rec = failure(sub, list(c), exp, linval, tags + ["refused"],
                                  "later-conversion-wrong:rel~" + _relclass(linval, exp))
    elif sub == 'level-aug':
        _, u, op, kind, xs, ys = c
        xs, ys = [float(t) for t in xs], [float(t) for t in ys]
        p, b = l_split(u)
        du = 'd' + b
        s = 10.0 * 10.0 ** SI[p]
        sign = 1 if op == '+=' else -1
        exp = [10 * math.log10(10.0 ** (x * s / 10) + sign * 10.0 ** (y * s / 10)) for x, y in zip(xs, ys)]
        o = outcome(_aug, op, u, xs, ys, du, kind)
        tags = ["unit=" + b, "given-as=" + kind, "op=" + op] + (["prefixed"] if p else [])
        case = [c[0], u, op, kind, list(c[4]), list(c[5])]
        if o[0] == 'err':
            rec = failure(sub, case, exp, list(o), tags, "raises:" + o[1] + ":" + _short(o[2]))
        else:
            r1, bval = o[1]
            if len(r1) != len(exp):
                rec = failure(sub, case, exp, r1, tags, "wrong-shape:%d-instead-of-%d" % (len(r1), len(exp)))
            elif not all(_close(g, e, REL, 1e-9) for g, e in zip(r1, exp)):
                rec = failure(sub, case, exp, r1, tags, "wrong-value:augmented-assignment")
            elif bval != ys:
                rec = failure(sub, case, ys, bval, tags, "operand-level-changed")
    elif sub == 'level-array':
        _, u, op, kind, xs, ys = c
        xs, ys = [float(t) for t in xs], [float(t) for t in ys]
        p, b = l_split(u)
        du = 'd' + b
        s = 10.0 * 10.0 ** SI[p]
        sign = 1 if op == '+' else -1
        exp = [10 * math.log10(10.0 ** (x * s / 10) + sign * 10.0 ** (y * s / 10)) for x, y in zip(xs, ys)]
        o = outcome(_arith_array, op, u, xs, ys, du, kind)
        tags = ["unit=" + b, "array", "given-as=" + kind, "op=" + op] + (["prefixed"] if p else [])
        case = [c[0], u, op, kind, list(c[4]), list(c[5])]
        if o[0] == 'err':
            rec = failure(sub, case, exp, list(o), tags, "raises:" + o[1] + ":" + _short(o[2]))
        else:
            (r1, r2), aval, bval = o[1]
            if len(r1) != len(exp):
                rec = failure(sub, case, exp, r1, tags, "wrong-shape:%d-instead-of-%d" % (len(r1), len(exp)))
            elif not all(_close(g, e, REL, 1e-9) for g, e in zip(r1, exp)):
                rec = failure(sub, case, exp, r1, tags, "wrong-value:array")
            elif r2 != r1:
                rec = failure(sub, case, r1, r2, tags + ["repeated-on-same-objects"], "later-evaluation-differs:a%sb" % op)
            elif aval != xs or bval != ys:
                rec = failure(sub, case, [xs, ys], [aval, bval], tags + ["repeated-on-same-objects"],
                              "operand-level-changed")
    elif sub in ('level-sum', 'level-diff', 'level-seq'):
        _, u, x, y = c
        p, b = l_split(u)
        du = 'd' + b                                   # the result is read in decibels, as the statement puts it
        s = 10.0 * 10.0 ** SI[p]                       # decibels per unit u

        def power(sign):
            return 10 * math.log10(10.0 ** (x * s / 10) + sign * 10.0 ** (y * s / 10))
        ops = {'level-sum': ['a+b', 'a+b'], 'level-diff': ['a-b', 'a-b'],
               'level-seq': ['a+b', 'a-b', 'b+a', 'a+b']}[sub]
        exp = [power(-1 if op == 'a-b' else 1) for op in ops]
        o = outcome(_arith, ops, u, x, y, du)
        tags = ["unit=" + b] + (["prefixed"] if p else [])
        if o[0] == 'err':
            rec = failure(sub, list(c), exp, list(o), tags, "raises:" + o[1] + ":" + _short(o[2]))
        else:
            res, aval, bval = o[1]
            if not _close(res[0], exp[0], REL, 1e-9):
                rec = failure(sub, list(c), exp[0], res[0], tags, "wrong-value:rel~" + _relclass(res[0], exp[0]))
            else:
                for i in range(1, len(ops)):
                    if not _close(res[i], exp[i], REL, 1e-9):
                        rec = failure(sub, list(c), dict(op=ops[i], position=i + 1, value=exp[i]),
                                      dict(op=ops[i], position=i + 1, value=res[i]), tags + ["repeated-on-same-objects"],
                                      "later-evaluation-differs:" + ops[i])
                        break
            if rec is None and not (_close(aval, float(x), REL_ID, 0.0) and _close(bval, float(y), REL_ID, 0.0)):
                rec = failure(sub, list(c), [float(x), float(y)], [aval, bval], tags + ["repeated-on-same-objects"],
                              "operand-level-changed")
    else:
        raise HarnessError("unknown sub-check %r" % (sub,))
    return rec


def _short(msg):
    m = msg.lower()
    if "not implemented" in m:
        return "not-implemented"
    if "unsupported conversion" in m:
        return "unsupported-conversion"
    return "other"


def plan(tier, seed):
    return [(i, NSHARDS, tier, seed) for i in range(NSHARDS)]


def run_shard(desc):
    k, n, tier, seed = desc
    sh = Shard(PROPERTY)
    allc = cases(tier, seed)
    for c in allc[k::n]:
        rec = check_case(c)
        sh.evaluations += 1
        sh.nontrivial += 1
        sh.count(c[0] + (":fail" if rec else ":ok"))
        if rec:
            sh.fail(rec)
            leak = isolation.tables_restore()
            if leak:
                sh.add_extra("table_leaks", 1)
        if c[0] in ('temp-walk', 'log-walk'):
            sh.transitions += len(c[2])
        if c[0] in ('temp', 'log-lin', 'log-direct', 'level-diff') and hash(c) % 997 == 0:
            sh.sample(list(c), limit=2)
    leak = isolation.tables_restore()
    if leak:
        sh.add_extra("table_leaks", 1)
    if k == 0:
        sh.add_extra("cases_total", len(allc))
        sh.add_extra("temperature_units", 4 + len(_PREF['K']))
    return sh


def replay(rec):
    isolation.tables_restore()
    c = rec["case"]
    if c[0] in ('temp-walk', 'log-walk'):
        c = [c[0], c[1], tuple(c[2]), c[3]]
    return check_case(tuple(c))


def finish(total, tier, seed):
    h = total.hist
    subs = ['temp', 'temp-rt', 'log-lin', 'log-lin-rt', 'log-frac', 'log-log', 'log-direct', 'log-direct-rt',
            'level-sum', 'level-diff', 'level-seq', 'level-array', 'level-aug', 'log-frac2', 'log-frac2-rt', 'log-refused', 'temp-array', 'log-lin-array', 'temp-walk', 'log-walk'] + [x + suf for x in UNC_SUBS for suf in VARIANTS if not (x == 'log-frac' and suf == '-attr')]
    per = {s: h.get(s + ":ok", 0) + h.get(s + ":fail", 0) for s in subs}
    empty = [s for s, n in per.items() if n == 0]
    if empty:
        raise HarnessError("sub-checks without cases: %r" % empty)
    if total.evaluations != total.extra.get("cases_total"):
        raise HarnessError("shards did not cover the case list exactly once: %r vs %r"
                           % (total.evaluations, total.extra.get("cases_total")))
    return dict(cases_per_subcheck=per, tolerance=dict(rel=REL, identity_rel=REL_ID),
                bounds=dict(temperature_values=T_VALUES + (T_MORE if tier == "thorough" else []),
                            level_values=LEVEL_VALUES + (LEVEL_MORE if tier == "thorough" else []),
                            linear_values=LIN_VALUES + (LIN_MORE if tier == "thorough" else []),
                            sum_values=SUM_VALUES + (SUM_MORE if tier == "thorough" else []), linear_prefixes=lin_prefixes(tier, seed),
                            kelvin_prefixes=len(_PREF['K']),
                            walks=dict(depth=WALK_DEPTH[tier], temperature_units=T_WALK_UNITS,
                                       temperature_values=T_WALK_VALUES,
                                       level_groups=[g for g, _ in LOG_WALK_GROUPS])),
                window=("all %d prefix windows" % NWINDOWS) if tier == "thorough" else
                       "linear-side prefix window %d of %d (plus the fixed core); everything else is enumerated "
                       "completely by every run" % (seed % NWINDOWS, NWINDOWS), caps_hit=[])


MANIFEST = dict(
    text="Complete enumeration on the real library of: all ordered pairs (identity included) of K, Cel, degF, degR and "
         "19 prefixed kelvins x 5-6 magnitudes (thorough 8-9), forward against the exact affine formulas and there-and-"
         "back; every documented level<->linear pair (Np, B, dBm, dBmW, dBW, dBV, dBuV, dBA, dBuA, dBOhm, dBSPL, dBSIL, "
         "dBSWL) with every admissible level prefix and linear prefixes {none,m,k,u,M} plus one seed-selected window of 3 "
         "further prefixes (thorough: all 19) x 6 levels / 5 linear magnitudes (thorough 11 / 8) against k*log10(x/ref) "
         "and ln, both directions and there-and-back; the documented dBm/Hz fraction form; identity and prefix change of "
         "every level unit; the documented level<->level pairs; B<->Np directly against the composition through AR and "
         "PR; a+b and a-b (a>b) for every bel/decibel unit over {0,1,2,83,87}^2 (thorough 7 values) against the power "
         "sum, each evaluated twice on the same objects, plus the sequence a+b, a-b, b+a, a+b on one pair, and element-wise "
         "on array-valued levels (ndarray and list); every scalar "
         "forward conversion again with an absolute and a relative uncertainty attached, with the target given as a "
         "BaseUnits / Quantity object, and with the source built as x*Unit().<u> after an in-place conversion of the bare "
         "attribute; augmented assignments a+=b, a-=b; array conversions asked twice; fraction forms whose linear parts "
         "carry factors (W/cm2, mW/MHz ...); undocumented level pairs: a refused conversion must leave the quantity intact. "
         "Conversion walks: one quantity converted in place along every path of 3 (thorough 4) steps through K/mK/kK/"
         "Cel/degF/degR and through four groups of mutually convertible level/linear spellings (dBm..kW, dBV..uV, "
         "dB/B/Np/cNp/PR, dB/dNp/Np/AR), value and reported unit compared after every step with the formulas applied "
         "step by step to the written start value (9 371 walks quick). "
         "55 861 cases per quick run, every one executed.",
    note="Numerical agreement to 1e-9 relative (identity 1e-12), not bit-exact; magnitudes are a finite alphabet of "
         "representatives, other magnitudes rely on the formulas being value-independent; prefix `da`, undocumented "
         "level pairs and compound expressions beyond X/Hz are outside the alphabet; oracle formulas are hand-written "
         "from the statement.",
    technique="bounded-exhaustive enumeration of unit pairs x magnitudes against closed-form reference formulas",
)
