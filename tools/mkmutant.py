"""helper: build a mutant patch from (file, old, new) replacements against a pristine copy of /repo
usage (python): from mkmutant import mk; mk(name, [(file, old, new), ...], description, base='/repo')"""
import subprocess, os, shutil, tempfile

def mk(name, edits, desc, base='/repo', outdir='/verif/mutants'):
    work = tempfile.mkdtemp(dir='/dev/shm')
    try:
        texts = {}
        for f, old, new in edits:
            src = texts.get(f) or open(os.path.join(base, f)).read()
            if f not in texts:
                d = os.path.join(work, 'a', os.path.dirname(f)); os.makedirs(d, exist_ok=True)
                open(os.path.join(work, 'a', f), 'w').write(src)
            assert src.count(old) >= 1, (name, f, old[:80])
            texts[f] = src.replace(old, new, 1)
        for f, txt in texts.items():
            d = os.path.join(work, 'b', os.path.dirname(f)); os.makedirs(d, exist_ok=True)
            open(os.path.join(work, 'b', f), 'w').write(txt)
        r = subprocess.run(['diff', '-ruN', 'a', 'b'], cwd=work, capture_output=True, text=True).stdout
        open(f'{outdir}/{name}.patch', 'w').write(r)
        open(f'{outdir}/{name}.txt', 'w').write(desc + '\n')
    finally:
        shutil.rmtree(work, ignore_errors=True)
