"""KNOWN_FINDINGS.txt loader and matcher.  The file is never written at run time.

Line formats:
  finding: property=<id> id=<id>-F<n> match=<json> what=<free text>
  fixed: property=<id> <commit> <what failed>          (suppresses nothing)

match json: {"sub": <fnmatch pattern on the sub-check name>,
             "tags": [features of the input that must all be present],
             "behaviour": <regex that must fully match the defective-outcome class>}
A failure is attributed to a finding only if all three agree.
"""
import os
import re
import json
import fnmatch

from .common import VERIF

PATH = os.path.join(VERIF, "KNOWN_FINDINGS.txt")
_cache = None


def load():
    global _cache
    if _cache is not None:
        return _cache
    out = []
    if os.path.exists(PATH):
        for line in open(PATH):
            line = line.strip()
            if not line.startswith("finding:"):
                continue
            m = re.match(r"finding:\s+property=(\S+)\s+id=(\S+)\s+match=(\{.*?\})\s+what=(.*)$", line)
            if not m:
                raise ValueError("malformed finding line: " + line)
            out.append(dict(property=m.group(1), id=m.group(2), match=json.loads(m.group(3)),
                            what=m.group(4)))
    _cache = out
    return out


def attribute(prop, rec):
    """Return the id of the finding that explains this failure record, or None."""
    for f in load():
        if f["property"] != prop:
            continue
        m = f["match"]
        if not fnmatch.fnmatchcase(rec["sub"], m.get("sub", "*")):
            continue
        if not set(m.get("tags", [])) <= set(rec["tags"]):
            continue
        if any(t in rec["tags"] for t in m.get("not_tags", [])):
            continue
        if not re.fullmatch(m.get("behaviour", ".*"), rec["behaviour"], re.S):
            continue
        return f["id"]
    return None


def what(fid):
    for f in load():
        if f["id"] == fid:
            return f["what"]
    return ""
