"""C15 - a node takes effect exactly when all enclosing @case/@else/@end clauses are selected.

Two engines on the real `DIP.parse()`:

E2 (well-formed programs).  Every block-structured program (AST from `refmodels/dip_gen_b.py`) inside the bound is
    rendered to DIP text, parsed by the library and compared with the reference clause semantics that interprets
    the *AST* (never the text): exact `env.data()` (names and values) and exact `env.data(tags=["t"])`.
E1 (misplaced keywords).  Explicit-state search over flat line sequences from
    {node, @case true, @case false, @else, @end} x indent {0,1,2} up to depth D, *unpruned*: a sequence is executed
    iff every proper prefix was accepted by the library and called well-formed by the reference (a failing or
    undefined prefix has no successors).  The reference automaton (keyword indentation identifies the block)
    classifies each sequence as well-formed (the set of node lines in effect is compared), must-raise (misplaced
    @else/@end at a position that is itself in effect) or undefined (executed, not compared).  `states` counts the
    distinct (implementation state, reference state) pairs reached; it is reported, not used for pruning.
E3 (non-initial counter states).  Every full-alphabet program with a block and <= 4 lines (thorough <= 5) is run
    again behind each of 13 prefixes of closed blocks (nested, multi-clause, closed by @end and by indentation;
    `G.counter_prefix`) that consume k = 1..13 clause-keyword ids, so the program's first keyword gets every id
    2..14 and the library's document-wide counters (num_cases incl. @else/@end, num_branches) start from non-initial
    values and cross the 9/10 boundary inside the program's blocks; thorough adds k = 96..102 (ids 97..103, the
    99/100 boundary) for programs of <= 4 lines.  Expected result = the prefix's own nodes + the program's
    reference result.
Further families on the same generator and reference (all exhaustive within their bound):
  forms   every full-alphabet program with a block and <= 4 lines (thorough 5) behind `c int = 5`, its literal
          conditions rewritten as ("...") expressions: a true and a false instance of ==, !=, <, >, <=, >= and
          of && / || / ~ combinations ending in each of <=, >= (14 forms, G.COND_FORMS).
  chain   start from a non-initial *environment*: `base int = 7` is parsed to env1, then every pair (A, B) of static
          programs with a block (<= 3 lines each; thorough B <= 4) is parsed by two parsers DIP(env1) from the same
          env1.  Each result must be the document's reference result on top of env1 (a block left open at the end
          of A does not exist for B) and env1.data() must be unchanged.
  source  every static host document (<= 4 lines, thorough 5) containing `$source s = <file>` + `{s?*}` at any
          position (root, inside selected/unselected clauses, nested, in groups) x every remote document (<= 3
          lines, blocks included, at least one parameter): the remote file is a document of its own, so the import
          delivers exactly its reference result.  Files live in /dev/shm/dip-B-<pid>, removed after each case.
The two references are written independently (AST interpreter / indentation automaton); every E2 program is also
read by the automaton and a disagreement between the two is a harness error.

Not demanded (left out of the alphabets / not compared):
  * `@case` after `@else` of the same block ("@else is at the very end"; the statement does not say it must fail):
    whether it is legal and what it selects is not judged, effects of such sequences are not compared - but they are
    extended, and a second @else of that block must still raise;
  * a misplaced @else/@end *inside a clause that is not selected* (the statement does not say skipped text is
    validated) - executed, counted, never compared, never extended;
  * names produced by oddly indented flat sequences (E1 compares only *which* node lines took effect; naming is C13);
  * modifications of nodes that are not certainly defined, typed re-definitions, property lines after anything but
    the first definition of a node, reference-valued definitions in programs that modify the referenced node
    (subjects of C14/C17);
  * compact clause names (`group.@case`), tabs, indentation widths other than two blanks (C13).
"""
import os
import re
import json
import shutil
import hashlib
import itertools

import functools

from ..common import Shard, failure, outcome, HarnessError
from ..refmodels import dip_gen_b as G

PROPERTY = "C15"
LEVEL = "model_checking"
RULE = ("E2: one case = one distinct AST (distinct ASTs render to distinct texts; blocks directly followed by a "
        "block always carry @end so no text has two readings) x group-name order (only when >= 2 groups); "
        "non-trivial = the program has a block and at least one definition/modification/property inside or after "
        "it. E3: one case = (AST with a block, prefix offset k); same non-triviality rule. forms: (AST with a literal "
        "condition, operator form). chain: (A, B) pair of ASTs with blocks. source: (host AST with one $source+import "
        "item, remote AST), non-trivial if either has a block. E1: one case = one flat line sequence; executed iff every proper prefix was accepted by library and "
        "reference; non-trivial = contains a clause keyword and at least two lines")
ASSUMPTIONS = [
    "the reference interprets the generator's AST by the statement (first true @case, else @else; effect iff all "
    "enclosing clauses selected); expression conditions read node v1 whose reference value follows the same rule",
    "E1 is unpruned; the reported number of states is the number of distinct pairs (BranchingList.state with all "
    "fields of the open Branch/Case records, HierarchyList.parents, ids renumbered by first appearance; reference "
    "stack) - a statistic only",
    "the parser object is created as DIP(source=(name, line)) with that source registered by hand, exactly as the "
    "library does for nested files; this only avoids the call-stack inspection used for source names",
    "unit tables are not touched by these programs (integers without units); a cheap size test after every case "
    "and a full comparison after every shard restore them if that is ever wrong",
]

BD = 3                                      # block nesting
# E2 bounds: full alphabet (mods, properties, expression conditions) up to FULL_N lines, static alphabet
# (definitions, groups, literal conditions) for FULL_N < n <= STATIC_N lines
BOUNDS = dict(quick=dict(full=5, static=6, d=5, off=((4, tuple(range(1, 14))),)),
              thorough=dict(full=6, static=7, d=6, off=((5, tuple(range(1, 14))), (4, tuple(range(96, 103))))))
# off = ((max lines, offsets k), ...): every full-alphabet program with a block and <= max lines is also run behind
# a prefix of closed blocks that consumes k clause-keyword ids (G.counter_prefix), so that its first clause keyword
# gets every id 2..14 (thorough also 97..103; id 1 is the plain E2 run) - the library's document-wide counters
# (num_cases, num_branches) then start from non-initial values and cross the 9/10 and 99/100 digit boundaries
# inside the program's blocks
TARGET = dict(quick=3000, thorough=12000)   # programs per E2 shard (approximate)
# further families (max lines): forms = literal conditions rewritten with every comparison operator; chain = (first
# document, second document) both parsed from one already parsed environment; host/remote = `$source` + import
# inside clauses x remote documents with blocks
FAMILIES = dict(quick=dict(forms=4, chain_a=3, chain_b=3, host=4, remote=3),
                thorough=dict(forms=5, chain_a=3, chain_b=4, host=5, remote=3))


def _scratch():
    return "/dev/shm/dip-B-%d" % os.getpid()      # one directory per worker process


# ------------------------------------------------------------------------------------------ running the library
_DIP = None


def init_worker():
    global _DIP
    from scinumtools.dip import DIP
    from .. import isolation
    _DIP = DIP
    isolation.tables_snapshot()


def _tables_sizes():
    from scinumtools.units import settings as st
    return (len(st.UNIT_STANDARD._keys), len(st.UNIT_PREFIXES._keys), len(st.UNIT_TYPES))


_SIZES = None


def _cheap_isolation():
    global _SIZES
    from .. import isolation
    if _SIZES is None:
        _SIZES = _tables_sizes()
    elif _tables_sizes() != _SIZES:
        isolation.tables_restore()
        return 1
    return 0


def _parse(text):
    # Constructed the way the library constructs its own nested parsers (nodes/node_source.py: DIP(source=...)):
    # with an explicit source the constructor and add_string() skip inspect.stack(), which otherwise takes 80% of
    # the run time and grows with the depth of the caller's stack.  Only source bookkeeping differs.
    with _DIP(source=("verif", 1)) as p:
        p.env.sources.append(name="verif", path="/dev/shm", code=None)
        p.add_string(text)
        env = p.parse()
    return env


def _run_tree(text):
    def go():
        env = _parse(text)
        data = env.data()
        data = {k: (bool(v) if type(v).__name__ in ("bool", "bool_", "bool") else
                    int(v) if hasattr(v, "__int__") else repr(v)) for k, v in data.items()}
        return data, sorted(env.data(tags=["t"]))
    return outcome(go)


def _canon(s):
    ids = {}

    def ren(m):
        key = m.group(0)
        if key not in ids:
            ids[key] = "%s#%d" % (m.group(1), len(ids))
        return ids[key]
    return re.sub(r"(@|n)(\d+)", ren, s)


def _impl_state(env):
    br = env.branching
    stack = []
    for bid in br.state:
        b = br.branches[bid]
        fields = sorted((k, repr(v)) for k, v in vars(b).items() if k not in ("cases", "nodes"))
        cases = []
        for cid in b.cases:
            c = br.cases[cid]
            cases.append((str(getattr(c.value, "value", c.value)), c.case_type, c.path,
                          sorted((k, repr(v)) for k, v in vars(c).items()
                                 if k not in ("path", "value", "code", "expr", "branch_id", "branch_part",
                                              "case_id", "case_type"))))
        stack.append((bid, fields, cases))
    parents = [(p.indent, p.name) for p in env.hierarchy.parents]
    return _canon(repr((stack, parents, bool(br.cases))))


def _run_flat(seq):
    text = G.flat_text(seq)

    def go():
        env = _parse(text)
        eff = sorted(int(k.split(".")[-1][1:]) for k in env.data())
        return eff, _impl_state(env)
    return outcome(go)


# ------------------------------------------------------------------------------------------ E2
def _tup(x):
    return tuple(_tup(y) for y in x) if isinstance(x, (list, tuple)) else x


def _behaviour_tree(exp, got, effective_values=()):
    if got[0] == "err":
        return "raises:%s:%s" % (got[1], re.sub(r"[^A-Za-z ]", "", got[2].split(",")[0])[:40].strip())
    (edata, etags), (gdata, gtags) = exp, got[1]
    b = set()
    if set(edata) - set(gdata):
        b.add("effective-node-missing")
    if set(gdata) - set(edata):
        b.add("node-from-unselected-clause")
    for k in set(edata) & set(gdata):
        if edata[k] != gdata[k]:
            # values are unique per line: does the observed value come from a line the reference skips?
            b.add("modification-lost" if gdata[k] in effective_values else "modification-from-unselected-clause")
    if set(etags) - set(gtags):
        b.add("property-lost")
    if set(gtags) - set(etags):
        b.add("property-from-unselected-clause")
    return "+".join(sorted(x for x in b if x))


def _check_tree(prog, gorder, sh=None, root="int"):
    """returns (walk, failure-record or None); raises G.Invalid when the AST is outside the alphabet"""
    w = G.Walk(prog, gorder, root)
    if not w.cross_check():
        raise HarnessError("the two reference readings (AST interpreter / indentation automaton) disagree on %r" % (prog,))
    text = G.text_of(w.lines)
    got = _run_tree(text)
    exp = (w.data, sorted(w.tagged))
    if sh is not None:
        sh.count("tree:" + ("ok" if got[0] == "ok" else "err:" + got[1]))
    if got[0] == "ok" and (got[1][0], got[1][1]) == exp:
        return w, None
    tags = sorted(G.shape_features(prog) | w.feat)
    rec = failure("tree", dict(kind="tree", prog=prog, gorder=gorder, root=root, text=text),
                  dict(data=exp[0], tagged=exp[1]),
                  dict(data=got[1][0], tagged=got[1][1]) if got[0] == "ok" else list(got),
                  tags=tags, behaviour=_behaviour_tree(exp, got, w.effective_values))
    return w, rec


def _check_offset(prog, k, sh=None):
    """the program behind counter_prefix(k); expected = the prefix's own nodes + the program's reference result"""
    w = G.Walk(prog, "asc")
    if not G.prefix_cross_check(k, w):
        raise HarnessError("indentation automaton disagrees on prefix %d + %r" % (k, prog))
    plines, _, pdata, _ = G.counter_prefix(k)
    text = G.text_of(plines + tuple(w.lines))
    got = _run_tree(text)
    exp = (dict(pdata, **w.data), sorted(w.tagged))
    if sh is not None:
        sh.count("offset:" + ("ok" if got[0] == "ok" else "err:" + got[1]))
    if got[0] == "ok" and (got[1][0], got[1][1]) == exp:
        return w, None
    tags = sorted(G.shape_features(prog) | w.feat | {"counter-offset", "first-clause-id=%d" % (k + 1)})
    rec = failure("tree-offset", dict(kind="offset", prog=prog, k=k, text=text),
                  dict(data=exp[0], tagged=exp[1]),
                  dict(data=got[1][0], tagged=got[1][1]) if got[0] == "ok" else list(got),
                  tags=tags, behaviour=_behaviour_tree(exp, got, w.effective_values | set(pdata.values())))
    return w, rec


def _e3_shards(tier):
    shards = []
    for fam, (nmax, ks) in enumerate(BOUNDS[tier]["off"]):
        cost = 1 + max(ks) // 8                  # longer prefixes parse slower
        for n in range(1, nmax + 1):
            for header, size in G.headers(n, BD, G.FULL):
                if header[1] == "d" and n == 1:
                    continue                      # a single definition has no block
                J = max(1, -(-(size * len(ks) * cost) // (4 * TARGET[tier])))
                for j in range(J):
                    shards.append((size * len(ks) * cost // J, ("e3", n, fam, header, j, J)))
    shards.sort(key=lambda t: -t[0])
    return [d for _, d in shards]


def _run_e3(desc, sh, tier_off):
    _, n, fam, header, j, J = desc
    ks = tier_off[fam][1]
    for prog in itertools.islice(G.programs_under(n, BD, G.FULL, header), j, None, J):
        try:
            w = G.Walk(prog)
        except G.Invalid:
            continue
        if not w.nblocks:
            continue                              # without a clause keyword the counters are never read
        for k in ks:
            w, rec = _check_offset(prog, k, sh)
            _cheap_isolation()
            sh.evaluations += 1
            if w.probe_in_or_after_block:
                sh.nontrivial += 1
            if rec:
                sh.fail(rec)
            sh.add_to_set("first_clause_ids", k + 1)
            sh.add_extra("e3_offset_runs", 1)
        if n == 4 and w.nblocks >= 2 and len(sh.samples) < 1:
            sh.sample(dict(text=G.text_of(G.counter_prefix(ks[-1])[0] + tuple(w.lines)), offset=ks[-1]))


# ------------------------------------------------------------------------------------------ condition forms
def _check_form(prog, form, sh=None):
    """the program behind `c int = 5`, its literal conditions written with the operators of COND_FORMS[form]"""
    w = G.Walk(prog, "asc", cform=form)
    if "comparison-condition" not in w.feat:
        raise G.Invalid("no literal condition")
    if not w.cross_check():
        raise HarnessError("reference readings disagree on %r" % (prog,))
    text = G.text_of((G.COND_NODE[0],) + tuple(w.lines))
    got = _run_tree(text)
    exp = (dict(G.COND_NODE[1], **w.data), sorted(w.tagged))
    if sh is not None:
        sh.count("form:" + ("ok" if got[0] == "ok" else "err:" + got[1]))
    if got[0] == "ok" and (got[1][0], got[1][1]) == exp:
        return w, None
    tags = sorted(G.shape_features(prog) | w.feat | {"condition-form=" + form})
    rec = failure("tree-form", dict(kind="form", prog=prog, form=form, text=text),
                  dict(data=exp[0], tagged=exp[1]),
                  dict(data=got[1][0], tagged=got[1][1]) if got[0] == "ok" else list(got),
                  tags=tags, behaviour=_behaviour_tree(exp, got, w.effective_values | {5}))
    return w, rec


def _run_forms(desc, sh):
    _, n, header, j, J = desc
    for prog in itertools.islice(G.programs_under(n, BD, G.FULL, header), j, None, J):
        try:
            w = G.Walk(prog)
        except G.Invalid:
            continue
        if not w.nblocks:
            continue
        for form in G.COND_FORMS:
            try:
                w, rec = _check_form(prog, form, sh)
            except G.Invalid:
                break
            _cheap_isolation()
            sh.evaluations += 1
            if w.probe_in_or_after_block:
                sh.nontrivial += 1
            if rec:
                sh.fail(rec)
            sh.add_extra("form_runs_" + form, 1)


# ------------------------------------------------------------------------------------------ chained parses
BASE = ("base int = 7", {"base": 7})


def _parse_on(env, text, name):
    # documented reuse of a parsed environment: DIP(env); an explicit parser name keeps the source names unique
    with _DIP(env, name=name, source=("verif", 1)) as p:
        p.add_string(text)
        return p.parse()


def _plain(data):
    return {k: (bool(v) if type(v).__name__ in ("bool", "bool_") else int(v) if hasattr(v, "__int__") else repr(v))
            for k, v in data.items()}


def _check_chain(pa, pb, sh=None):
    """P1 -> env1; DIP(env1) parses A; DIP(env1) parses B.  Both results are the reference result of the document
    on top of env1 (documents are independent: a block left open at the end of A does not exist for B), and env1
    itself is unchanged."""
    wa, wb = G.Walk(pa), G.Walk(pb)
    ta, tb = G.text_of(wa.lines), G.text_of(wb.lines)

    def go():
        env1 = _parse(BASE[0])
        ra = _plain(_parse_on(env1, ta, "pa").data())
        rb = _plain(_parse_on(env1, tb, "pb").data())
        return ra, rb, _plain(env1.data())
    got = outcome(go)
    exp = (dict(BASE[1], **wa.data), dict(BASE[1], **wb.data), dict(BASE[1]))
    if sh is not None:
        sh.count("chain:" + ("ok" if got[0] == "ok" else "err:" + got[1]))
    if got[0] == "ok" and tuple(got[1]) == exp:
        return None
    if got[0] == "err":
        beh = _behaviour_tree(None, got)
    else:
        beh = "+".join(sorted({"first-document:" + _behaviour_tree((exp[0], []), ("ok", (got[1][0], [])), wa.effective_values)
                               if got[1][0] != exp[0] else "",
                               "second-document:" + _behaviour_tree((exp[1], []), ("ok", (got[1][1], [])), wb.effective_values)
                               if got[1][1] != exp[1] else "",
                               "base-environment-changed" if got[1][2] != exp[2] else ""} - {""}))
    tags = {"chained-parse"}
    if G._last_line_block_chain(pa):
        tags.add("first-document-ends-in-open-block")
    if pb and pb[0][0] == "b":
        tags.add("second-document-starts-with-block")
    return failure("chain", dict(kind="chain", a=pa, b=pb, text_a=ta, text_b=tb),
                   dict(first=exp[0], second=exp[1], base=exp[2]),
                   dict(first=got[1][0], second=got[1][1], base=got[1][2]) if got[0] == "ok" else list(got),
                   tags=sorted(tags), behaviour=beh)


@functools.lru_cache(maxsize=None)
def _block_programs(nmax, A):
    out = []
    for n in range(1, nmax + 1):
        for prog in G.programs(n, BD, A):
            if G.Walk(prog).nblocks:
                out.append(prog)
    return tuple(out)


def _run_chain(desc, sh):
    _, tier, j, J = desc
    f = FAMILIES[tier]
    firsts = _block_programs(f["chain_a"], G.STATIC)
    seconds = _block_programs(f["chain_b"], G.STATIC)
    for i, pa in enumerate(firsts):
        if i % J != j:
            continue
        for pb in seconds:
            rec = _check_chain(pa, pb, sh)
            _cheap_isolation()
            sh.evaluations += 1
            sh.nontrivial += 1
            if rec:
                sh.fail(rec)
            sh.add_extra("chain_pairs", 1)
            if G._last_line_block_chain(pa) and pb[0][0] == "b":
                sh.add_extra("chain_pairs_open_block_then_block", 1)


# ------------------------------------------------------------------------------------------ remote sources
def _count_sources(seq):
    return sum(1 if it[0] == "s" else _count_sources(it[1]) if it[0] == "g" else
               sum(_count_sources(b) for _, b in it[1]) if it[0] == "b" else 0 for it in seq)


@functools.lru_cache(maxsize=None)
def _hosts(nmax):
    return tuple(p for n in range(1, nmax + 1) for p in G.programs(n, BD, G.HOST) if _count_sources(p) == 1)


@functools.lru_cache(maxsize=None)
def _remotes(nmax):
    out = []
    for n in range(1, nmax + 1):
        for p in G.programs(n, BD, G.REMOTE):
            w = G.Walk(p, px="r")
            if w.data:                     # an import that selects nothing is a subject of C17
                out.append(p)
    return tuple(out)


def _check_source(host, remote, sh=None):
    """host document with `$source s = <file>` + `{s?*}` at some position, remote file = another small document"""
    wr = G.Walk(remote, px="r")
    path = os.path.join(_scratch(), "r.dip")
    wh = G.Walk(host, remote=wr, srcfile=path)
    if not wh.cross_check():
        raise HarnessError("reference readings disagree on host %r" % (host,))
    text = G.text_of(wh.lines)
    os.makedirs(_scratch(), exist_ok=True)
    with open(path, "w") as f:
        f.write(G.text_of(wr.lines) + "\n")
    try:
        got = _run_tree(text)
    finally:
        os.remove(path)
    exp = (wh.data, [])
    if sh is not None:
        sh.count("source:" + ("ok" if got[0] == "ok" else "err:" + got[1]))
    if got[0] == "ok" and (got[1][0], got[1][1]) == exp:
        return wh, wr, None
    tags = G.shape_features(host) | wh.feat | {"remote:" + t for t in G.shape_features(remote)}
    if remote[0][0] == "b":
        tags.add("remote-starts-with-block")
    if wh.source_in_effect:
        tags.add("source-in-selected-clause" if wh.nblocks else "source-at-root")
    rec = failure("source", dict(kind="source", host=host, remote=remote, text=text, remote_text=G.text_of(wr.lines)),
                  dict(data=exp[0], tagged=exp[1]),
                  dict(data=got[1][0], tagged=got[1][1]) if got[0] == "ok" else list(got),
                  tags=sorted(tags), behaviour=_behaviour_tree(exp, got, wh.effective_values))
    return wh, wr, rec


def _run_source(desc, sh):
    _, tier, j, J = desc
    f = FAMILIES[tier]
    try:
        for i, host in enumerate(_hosts(f["host"])):
            if i % J != j:
                continue
            for remote in _remotes(f["remote"]):
                wh, wr, rec = _check_source(host, remote, sh)
                _cheap_isolation()
                sh.evaluations += 1
                if wh.nblocks or wr.nblocks:
                    sh.nontrivial += 1
                if rec:
                    sh.fail(rec)
                sh.add_extra("source_pairs", 1)
                if wh.source_in_effect and wh.nblocks and remote[0][0] == "b":
                    sh.add_extra("source_pairs_in_clause_remote_starts_with_block", 1)
    finally:
        shutil.rmtree(_scratch(), ignore_errors=True)


def _family_shards(tier):
    f = FAMILIES[tier]
    shards = []
    for n in range(1, f["forms"] + 1):
        for header, size in G.headers(n, BD, G.FULL):
            J = max(1, -(-(size * len(G.COND_FORMS)) // (6 * TARGET[tier])))
            for j in range(J):
                shards.append(("forms", n, header, j, J))
    J = 48 if tier == "quick" else 160
    shards += [("chain", tier, j, J) for j in range(J)]
    shards += [("source", tier, j, J) for j in range(J)]
    return shards


def _e2_shards(tier):
    b = BOUNDS[tier]
    shards = []
    for n in range(1, b["static"] + 1):
        A = G.FULL if n <= b["full"] else G.STATIC
        for header, size in G.headers(n, BD, A):
            J = max(1, -(-size // TARGET[tier]))
            for j in range(J):
                shards.append((size // J, ("e2", n, A, header, j, J)))
    # the small programs first (their failures are the minimal counterexamples and must not fall victim to the cap
    # on stored failure records), then the expensive shards in decreasing size for load balance
    shards.sort(key=lambda t: (0, t[1][1], 0) if t[1][1] <= 4 else (1, 0, -t[0]))
    return [d for _, d in shards]


def _run_e2(desc, sh):
    _, n, A, header, j, J = desc
    it = G.programs_under(n, BD, A, header)
    leaks = 0
    for prog in itertools.islice(it, j, None, J):
        try:
            w = G.Walk(prog)          # validity first (cheap), the check re-walks per group order
        except G.Invalid:
            sh.count("tree:outside-alphabet(not executed)")
            continue
        for gorder in (("asc", "desc") if w.ngroups >= 2 else ("asc",)):
            w, rec = _check_tree(prog, gorder, sh)
            leaks += _cheap_isolation()
            sh.evaluations += 1
            if w.nblocks and w.probe_in_or_after_block:
                sh.nontrivial += 1
            if rec:
                sh.fail(rec)
            if w.nblocks >= 2 and w.skipped_lines and len(w.lines) == n and len(sh.samples) < 1 and n >= 5:
                sh.sample(dict(text=G.text_of(w.lines), expected=w.data))
            sh.add_extra("e2_programs_%d_lines" % n, 1)
            for feat in ("unit-directive", "property-line-after-block"):
                if feat in w.feat:
                    sh.add_extra("e2_programs_with_" + feat, 1)
        # the same program with the condition written as a bare reference to a bool node (@case {?v1})
        if "expression-condition" in w.feat:
            for root in ("boolT", "boolF"):
                try:
                    w2, rec = _check_tree(prog, "asc", sh, root)
                except G.Invalid:
                    continue
                leaks += _cheap_isolation()
                sh.evaluations += 1
                if w2.probe_in_or_after_block:
                    sh.nontrivial += 1
                if rec:
                    sh.fail(rec)
                sh.add_extra("e2_programs_with_bare-reference-condition", 1)
            sh.add_extra("e2_lines_skipped_by_reference", w.skipped_lines)
            sh.add_extra("e2_lines_effective_by_reference", w.effective_lines)
    if leaks:
        sh.add_extra("unit_table_leaks_restored", leaks)


# ------------------------------------------------------------------------------------------ E1
def _check_flat(seq, sh=None):
    """execute one flat sequence; returns (terminal, state key, failure-record or None)"""
    verdict, info, rstate = G.flat_reference(seq)
    got = _run_flat(seq)
    if sh is not None:
        sh.count("flat:ref=%s impl=%s" % (verdict, "ok" if got[0] == "ok" else "err"))
        if verdict == "must-raise":
            sh.count("flat:must-raise:" + info)
    rec = None
    case = dict(kind="flat", seq=[list(x) for x in seq], text=G.flat_text(seq))
    if verdict == "ok":
        exp = sorted(info)
        if got[0] == "err":
            rec = failure("flat", case, dict(effective_lines=exp), list(got), tags=["well-formed"],
                          behaviour="raises:%s:%s" % (got[1], re.sub(r"[^A-Za-z ]", "", got[2].split(",")[0])[:40].strip()))
        elif got[1][0] != exp:
            b = []
            if set(exp) - set(got[1][0]):
                b.append("effective-node-missing")
            if set(got[1][0]) - set(exp):
                b.append("node-from-unselected-clause")
            rec = failure("flat", case, dict(effective_lines=exp), dict(effective_lines=got[1][0]),
                          tags=["well-formed"], behaviour="+".join(b))
    elif verdict == "must-raise":
        if got[0] == "ok":
            rec = failure("flat", case, "parse() raises (%s)" % info, dict(effective_lines=got[1][0]),
                          tags=["misplaced-keyword", info], behaviour="misplaced-keyword-accepted")
    terminal = verdict not in ("ok", "unjudged") or got[0] != "ok"
    if got[0] == "ok":
        key = (got[1][1], (verdict, rstate) if not terminal else verdict)
    else:
        key = ("error", got[1], verdict)
    return terminal, key, rec


def _nontrivial_flat(seq):
    return len(seq) >= 2 and any(k != "n" for k, _ in seq)


def _account_flat(sh, seq, key, rec):
    sh.evaluations += 1
    sh.transitions += 1
    sh.traces += 1
    sh.max_depth = max(sh.max_depth, len(seq))
    sh.add_to_set("states", hashlib.blake2b(repr(key).encode(), digest_size=8).hexdigest())
    if _nontrivial_flat(seq):
        sh.nontrivial += 1
    if rec:
        sh.fail(rec)


def _dfs(prefix, depth, sh):
    terminal, key, rec = _check_flat(prefix, sh)
    _account_flat(sh, prefix, key, rec)
    _cheap_isolation()
    if len(prefix) == 4 and len(sh.samples) < 1 and not terminal and sum(k != "n" for k, _ in prefix) >= 3:
        sh.sample(dict(flat=G.flat_text(prefix)))
    if terminal or len(prefix) >= depth:
        return
    for a in G.FLAT_ALPHABET:
        _dfs(prefix + (a,), depth, sh)


def _run_e1_unpruned(desc, sh):
    _, first, second, depth = desc
    if second is None:                      # the depth-1 sequences
        for a in G.FLAT_ALPHABET:
            terminal, key, rec = _check_flat((a,), sh)
            _account_flat(sh, (a,), key, rec)
        return
    terminal, _, _ = _check_flat((first,))  # not counted here (counted by the depth-1 shard)
    if terminal or depth < 2:
        return
    _dfs((first, second), depth, sh)


# ------------------------------------------------------------------------------------------ module API
def plan(tier, seed):
    b = BOUNDS[tier]
    shards = _e2_shards(tier)
    e3 = [d + (tier,) for d in _e3_shards(tier)]
    # keep the small E2 programs first (minimal counterexamples), then interleave by cost
    small = [d for d in shards if d[1] <= 4]
    shards = small + e3 + _family_shards(tier) + [d for d in shards if d[1] > 4]
    shards.append(("e1u", None, None, b["d"]))
    for a in G.FLAT_ALPHABET:
        for c in G.FLAT_ALPHABET:
            shards.append(("e1u", a, c, b["d"]))
    return shards


def run_shard(desc):
    sh = Shard(PROPERTY)
    if desc[0] == "e2":
        _run_e2(desc, sh)
    elif desc[0] == "e3":
        _run_e3(desc[:-1], sh, BOUNDS[desc[-1]]["off"])
    elif desc[0] == "forms":
        _run_forms(desc, sh)
    elif desc[0] == "chain":
        _run_chain(desc, sh)
    elif desc[0] == "source":
        _run_source(desc, sh)
    else:
        _run_e1_unpruned(desc, sh)
    from .. import isolation
    d = isolation.tables_restore()
    if d:
        sh.add_extra("unit_table_leaks_restored", 1)
    return sh


def replay(rec):
    c = rec["case"]
    if c["kind"] == "tree":
        _, bad = _check_tree(_tup(c["prog"]), c["gorder"], root=c.get("root", "int"))
    elif c["kind"] == "offset":
        _, bad = _check_offset(_tup(c["prog"]), c["k"])
    elif c["kind"] == "form":
        _, bad = _check_form(_tup(c["prog"]), c["form"])
    elif c["kind"] == "chain":
        bad = _check_chain(_tup(c["a"]), _tup(c["b"]))
    elif c["kind"] == "source":
        try:
            _, _, bad = _check_source(_tup(c["host"]), _tup(c["remote"]))
        finally:
            shutil.rmtree(_scratch(), ignore_errors=True)
    else:
        _, _, bad = _check_flat(tuple((k, i) for k, i in c["seq"]))
    _cheap_isolation()
    return bad


def finish(total, tier, seed):
    b = BOUNDS[tier]
    h = total.hist
    total.states = len(total.sets.get("states", ()))
    need = ["flat:ref=ok impl=ok", "flat:ref=must-raise impl=err", "tree:ok",
            "flat:must-raise:second-else-after-case", "flat:must-raise:else-after-else",
            "flat:must-raise:else-without-open-block-at-level", "flat:must-raise:end-without-open-block-at-level"]
    missing = [k for k in need if not h.get(k)]
    if missing:
        raise HarnessError("vacuous run, outcome classes never seen: %s" % missing)
    for key in ["form_runs_" + f for f in G.COND_FORMS] + ["chain_pairs_open_block_then_block",
                                                             "source_pairs_in_clause_remote_starts_with_block"]:
        if not total.extra.get(key):
            raise HarnessError("vacuous run: family counter %s is zero" % key)
    for key in ("form:ok", "chain:ok", "source:ok"):
        if not h.get(key):
            raise HarnessError("vacuous run: outcome class %s never seen" % key)
    for feat in ("unit-directive", "property-line-after-block", "bare-reference-condition"):
        if not total.extra.get("e2_programs_with_" + feat):
            raise HarnessError("vacuous run: no program with feature %s" % feat)
    if not total.extra.get("e2_lines_skipped_by_reference") or not total.extra.get("e2_lines_effective_by_reference"):
        raise HarnessError("vacuous run: the reference never skipped / never accepted a line")
    want = {k + 1 for _, ks in b["off"] for k in ks}
    seen_ids = set(total.sets.get("first_clause_ids", ()))
    if seen_ids != want or not h.get("offset:ok"):
        raise HarnessError("counter-offset family incomplete: first clause ids %s missing" % sorted(want - seen_ids))
    return dict(states=total.states, first_clause_ids_covered=sorted({1} | seen_ids),
                offset_family=[dict(max_lines=n, offsets=list(ks)) for n, ks in b["off"]],
                bounds=dict(e2_full_alphabet_max_lines=b["full"], e2_static_alphabet_max_lines=b["static"],
                            block_nesting=BD, clauses_per_block=G.MAXCL, conditions_full=list(G.FULL[0]),
                            e1_alphabet=len(G.FLAT_ALPHABET), e1_depth=b["d"]),
                deviation_bound_completed="n/a: no fault dimension, every sequence up to the depth bound is executed",
                caps_hit=[], window="none (every tier enumerates its whole bound)")


MANIFEST = dict(
    text="Bounded-exhaustive check of clause selection on the real DIP.parse(). E2: every well-formed block-structured "
         "program (definitions, reference-valued definitions, modifications, property lines - also as the first line "
         "after a block nested among a node's properties -, $unit directives followed by a node using the unit, groups in both name "
         "orders, @case/@else/@end blocks nested up to 3 deep with up to 3 clauses, closed by @end or by indentation "
         "incl. several levels at once, empty clauses, every truth assignment incl. conditions that depend on earlier "
         "clauses, written as literals, as (\"...\") expressions and as bare references `@case {?b}` to a bool node) with <= 5 lines in the full alphabet and 6 lines in the static alphabet (thorough: 6 and 7) is "
         "compared (exact env.data() and tag query) with a reference interpreting the generator's AST. E3: every such "
         "program with a block and <= 4 lines (thorough 5) is re-run behind 13 prefixes of closed blocks that advance "
         "the parser's document-wide clause/block counters, so its first clause keyword gets every id 1..14 (thorough "
         "also 97..103 for <= 4 lines). E1: every flat "
         "sequence over {node,@case true,@case false,@else,@end} x indent {0,1,2} up to depth 5 (thorough 6), unpruned, "
         "is executed and compared with a reference automaton: well-formed -> same lines in effect, misplaced "
         "@else/@end (no open block at that indentation, second @else of a block - also after an intervening @case -, after "
         "@end) -> parse() must raise.",
    note="Trusted: generator, AST interpreter and indentation automaton in mc/refmodels/dip_gen_b.py (they never parse "
         "DIP text and are cross-checked against each other on every program). Not covered: @case after @else, "
         "misplaced keywords inside unselected clauses, compact clause names (group.@case), programs beyond the "
         "line/nesting/depth bounds (small-scope hypothesis).",
    families="forms: literal conditions rewritten with ==, !=, <, >, <=, >=, &&, ||, ~ (true and false instance each); "
             "chain: two parsers DIP(env) from one parsed environment, every pair of small block programs; "
             "source: $source + import inside clauses x remote documents that themselves contain blocks",
    technique="bounded exhaustive program enumeration vs reference interpreter + explicit-state search on the real parser",
)
