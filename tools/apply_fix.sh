#!/bin/bash
# usage: tools/apply_fix.sh <patch> <property> "<subject starting with fix:>" "<what failed (one line)>"
# applies to /repo, runs the baseline suite, commits, appends the 'fixed:' line to KNOWN_FINDINGS.txt
set -e
patch=$(readlink -f "$1"); prop=$2; subject=$3; what=$4
cd /repo
test -z "$(git status --porcelain)" || { echo "repo not clean"; exit 2; }
git apply --check "$patch" 2>/dev/null && git apply "$patch" || patch -p1 < "$patch"
res=$(/verif/tools/baseline.sh /repo | tail -1)
echo "$res"
echo "$res" | grep -q "218 passed" || { res=$(/verif/tools/baseline.sh /repo | tail -1); echo "$res"; }
echo "$res" | grep -q "218 passed" || { echo "BASELINE FAILS - reverting"; git checkout -- .; exit 1; }
find . -name '*.orig' -delete
git add -u; git add -A src
git commit -qm "$subject

$what" 
h=$(git log -1 --format=%h)
echo "fixed: property=$prop $h $what" >> /verif/KNOWN_FINDINGS.txt
echo "committed $h"
