"""C10 - a molecular formula is decomposed into exactly its atoms.

E2 bounded grammar enumeration on the real Substance class.  Four disjoint strata:

  species    every species of the isotope table (118 elements x {unspecified, every tabulated isotope} x charge
             suffix {none,+,-,+2,-3,+0,-0} and, where |q| <= Z, the two-digit charges {+10,-10,-12,+26,-Z}; nucleons, D, T)
             alone and inside a two-species formula, both isotope modes;
  pair       every ordered pair of the 11-species structure alphabet x counts {none,2,3,12} x separator
             {juxtaposed, blank, ' + '} (explicit ' * n' counts where both neighbours are explicit);
  structure  formula ASTs (sequence / count / group, nesting <= 3) unfolded completely over all shapes up to a
             size bound with up to 2 "decorations" (a count, a non-default separator, an explicit ' * n', a
             substituted species) on the plain formula;
  algebra    a + b, a * n, (a + b) * n, a * n + b on substances built from a list of formulas.
  history    E1 exploration of operation histories on LIVE substances: start objects (CO2 from string and from
             dictionary, Ca(OH)2, the single-species formulas O and (N)) x every sequence of 1..2 (thorough 3)
             operations from {add(existing species, n), add(new species, n), + substance sharing a species,
             + disjoint substance, + Element object (existing / new species), * k, s += substance, s *= k,
             identity-like operands: + Substance() (empty), Substance() + s, s += Substance(), * 1, and the live object
             as the RIGHT operand: Substance('CO') + s}, unpruned,
             with table reads restricted to one component (both `quantity` flags) between the steps; after the last step the
             object is compared with the reference counts dict, the operands of every non-mutating step are re-read
             (they must still hold their own counts), the bystander formulas H2O, Ca(OH)2, O, (N), NaCl are
             constructed afresh and compared with their expansions (state must not cross objects), and the final
             object is re-read.  Module / class level containers of the materials modules are restored after every
             case (and counted in the evidence when something had to be restored).  In every stratum the totals the object
             itself holds (composite_mass / proportion_norm = "Total mass" / "Total number" of print()) must equal
             the count-weighted sums as well, not only the 'sum' row of the table.

Oracle: the AST is expanded to a multiset of species by refmodels/materials_ref.py; per-species data come
straight from PT_DATA (N = A - Z, e = Z + q, m = m_iso + q m_e, abundance-weighted mean / arg-max abundance).

Not demanded (left out of the alphabet, the statement/documentation is silent):
  * explicit operators without surrounding blanks; a blank between an item and its count; blanks just inside
    parentheses; a number on the left of '*';
  * an explicit ' * n' next to an implicit (juxtaposed / blank) addition - the documentation does not say how the
    two notations bind when mixed, so ' * n' is generated only between ' + ' separators or sequence boundaries;
  * an unspecified isotope of an element without tabulated abundances (34 elements: mean and arg-max undefined);
  * charges that would leave a negative electron number; a charge suffix on D / T;
  * the 'isotope' column of a natural-mean species (the statement fixes N, e and the mass, not a mass number);
  * two spellings of the same species inside one formula (the library keys components by spelling);
  * order of the components; operands of different isotope mode in a + b.
"""
import itertools

from ..common import Shard, failure, outcome, HarnessError
from ..refmodels import materials_ref as R

PROPERTY = "C10"
LEVEL = "exploration"
RULE = ("a case is one (formula string, isotope mode) or one (algebraic expression over formulas, mode); strata are "
        "disjoint by construction (single species / flat two-species / everything else / algebra) and strings are "
        "de-duplicated inside each stratum; non-trivial = species stratum: every distinct species spelling; pair and "
        "structure strata: formula with >= 2 species occurrences or a group or a count; algebra: every expression; "
        "history: every (start object, mode, operation sequence), all distinct, none pruned; the operation alphabet "
        "includes the identity-like operands (empty Substance() on either side of '+', '+= Substance()', '* 1') and "
        "the live object as right operand of '+'; every operand of a non-mutating step (left and right) is re-read "
        "after the whole history")
ASSUMPTIONS = [
    "PT_DATA and the unit-table rows Da, [m_e], [m_p], [m_n] are read as published data (the oracle does not "
    "re-derive isotope masses)",
    "the reference expansion (recursive sum over the generating AST) and the renderer are correct; they share no "
    "code or regular expression with the library",
    "masses agree to rel 1e-10, Z/N/e totals to rel 1e-12, counts exactly",
]

ALPHABET = ["H", "O", "C", "Ca", "Cl", "Na", "D", "[e]", "O{17}", "Fe{56+3}", "O{-2}"]
BASE = ["H", "O", "C", "Ca", "Cl", "Na"]                 # default species of leaf i
SUBS = ["D", "[e]", "O{17}", "Fe{56+3}", "O{-2}", "H", "O"]   # substitution alphabet (H/O give repeated species)
COUNTS = [2, 3, 12]
QSUFFIX = [None, "+", "-", "+2", "-3", "+0", "-0"]      # an explicitly written zero charge in both signs included
# charge numbers of two digits (only where |q| <= Z, i.e. between the bare nucleus and a doubled shell); "-Z" is the
# fully stripped ion of every element with Z >= 10 (Fe{56-26}, U{238-92})
QSUFFIX2 = ["+10", "-10", "-12", "+26", "-Z"]
SEPS = ["", " ", " + "]
SEPNAME = {"": "j", " ": "b", " + ": "p"}

# bounds (leaves, groups, depth) of the shape sets and decoration levels
CORE = dict(shape=(4, 2, 2), deco=1)            # executed by quick and thorough, every seed
CORE2 = dict(shape=(2, 2, 2), deco=2)           # executed by quick and thorough, every seed (every adjacency class)
WIDE = dict(shape=(5, 3, 3), deco=1)            # thorough: all;  quick: window seed % NWIN
DEEP = dict(shape=(4, 2, 2), deco=2)            # thorough: all;  quick: window seed % NWIN
NATURAL_TOO = dict(shape=(3, 2, 2), deco=1)     # also executed with natural=True
NWIN = 32
NSHARD_C = 96

ALG_FORMULAS = ["H2O", "NaCl", "Ca(OH)2", "CO2", "C2H5OH", "Fe{56+3}2O{-2}3", "D2O{17}", "NaHCO3", "[e]", "O2"]
ALG_N = [2, 3, 0.5]

# operation histories on live substances (E1): every sequence of 1..HDEPTH operations on every start object
HIST_STARTS = {          # id -> (constructor argument, counts written by hand)
    "CO2:str": ("CO2", {"C": 1, "O": 2}),
    "CO2:dict": ({"C": 1, "O": 2}, {"C": 1, "O": 2}),
    "Ca(OH)2:str": ("Ca(OH)2", {"Ca": 1, "O": 2, "H": 2}),
    "O:str": ("O", {"O": 1}),               # single-species formulas: the solver returns its atom unprocessed
    "(N):str": ("(N)", {"N": 1}),
}
BYSTANDERS = {           # fresh substances constructed after every history: formula -> counts written by hand
    "H2O": {"H": 2, "O": 1}, "Ca(OH)2": {"Ca": 1, "O": 2, "H": 2}, "O": {"O": 1}, "(N)": {"N": 1},
    "NaCl": {"Na": 1, "Cl": 1},
}
HIST_OTHERS = {          # right operands of '+': formula -> counts in component order
    "CO": [["C", 1], ["O", 1]], "OH2": [["O", 1], ["H", 2]], "N2": [["N", 2]],
    "": [],                  # the empty substance Substance() (identity of '+': the accumulator idiom)
}
HIST_OPS = [["add", "O", 2], ["add", "C", 1], ["add", "N", 1],
            ["plus", "CO"], ["plus", "OH2"], ["plus", "N2"], ["mul", 2], ["mul", 0.5],
            ["pluscomp", "O", 2], ["pluscomp", "N", 1],      # + Element('O', proportion=2), + Element('N')
            ["iadd", "CO"], ["imul", 2],                     # augmented assignment  s += Substance('CO'),  s *= 2
            # identity-like operands: the result must be a substance of its own with the same counts (operating on it
            # afterwards must not reach the operands), and the live object as the RIGHT operand of '+'
            ["plus", ""], ["rplus", ""], ["rplus", "CO"], ["iadd", ""], ["mul", 1]]
HDEPTH = dict(quick=2, thorough=3)


# ------------------------------------------------------------------------------------------ species stratum
def _species_cases():
    """[(species string, natural)] - complete over the isotope table"""
    PT, me, nuc = R.tables()
    out = []
    for sym, (Z, iso) in PT.items():
        suffixes = list(QSUFFIX)
        for q in QSUFFIX2:
            q = ("-%d" % Z) if q == "-Z" else q
            if Z >= 10 and abs(R.QTEXT[q]) <= Z and q not in suffixes:
                suffixes.append(q)
        for q in suffixes:
            for nat in (True, False):
                sp = R.species_string(sym, None, q)
                if R.species_defined(sp, nat):
                    out.append((sp, nat))
            for A in iso:
                sp = R.species_string(sym, int(A), q)
                if R.species_defined(sp, True):
                    out.append((sp, True))
                    if q is None:
                        out.append((sp, False))     # explicit isotope: the mode must not matter
    for sp in ("[p]", "[n]", "[e]", "D", "T"):
        out.append((sp, True))
        out.append((sp, False))
    return out


def _species_asts(sp):
    """the species alone, counted, and inside two-species formulas (left and right neighbour)"""
    sym = R.split_species(sp)[0]
    yield "alone", R.group([R.leaf(sp)])
    yield "counted", R.group([R.leaf(sp, 3)])
    # the neighbour never is another spelling of the species under test
    yield "left", R.group([R.leaf(sp), R.leaf("C" if sym == "O" else "O", 2)])
    yield "right", R.group([R.leaf("C" if sym in ("H", "D", "T") else "H", 2), R.leaf(sp)])


# ------------------------------------------------------------------------------------------ pair stratum
def _pair_cases(first, sep):
    for second in ALPHABET:
        copts = [(1, 0)] + [(c, 0) for c in COUNTS]
        if sep == " + ":
            copts += [(c, 1) for c in COUNTS]
        for (c1, s1), (c2, s2) in itertools.product(copts, repeat=2):
            yield R.group([R.leaf(first, c1, s1), R.leaf(second, c2, s2)], [sep])


# ------------------------------------------------------------------------------------------ structure stratum
def _seqs(nl, ng, d):
    """all non-empty item sequences with <= nl leaves, <= ng groups, nesting depth <= d: (skeleton, leaves, groups)"""
    def items(nl, ng, d):
        if nl >= 1:
            yield ("L", 1, 0)
            if ng >= 1 and d >= 1:
                for body, l, g in _seqs(nl, ng - 1, d - 1):
                    yield (body, l, g + 1)
    for it, l, g in items(nl, ng, d):
        yield ([it], l, g)
        for rest, l2, g2 in _seqs(nl - l, ng - g, d):
            yield ([it] + rest, l + l2, g + g2)


_SHAPES = {}


def shapes(bound):
    if bound not in _SHAPES:
        sk = [(l + g, l, repr(s), s) for s, l, g in _seqs(*bound)]
        sk.sort(key=lambda t: t[:3])            # simplest first
        _SHAPES[bound] = [s for _, _, _, s in sk]
    return _SHAPES[bound]


def _plain(skel):
    """plain AST of a skeleton: leaf i = BASE[i], no counts, juxtaposed; plus the lists of positions"""
    leaves, nodes, adjs = [], [], []

    def build(seq, top):
        items = []
        for it in seq:
            if it == "L":
                node = R.leaf(BASE[len(leaves)])
                leaves.append(node)
            else:
                node = build(it, False)
            nodes.append(node)
            items.append(node)
        g = R.group(items)
        for i in range(len(items) - 1):
            adjs.append((g, i))
        return g
    root = build(skel, True)
    return root, leaves, nodes, adjs


def _neighbours(root):
    """for every countable node: the (group, index) separators on its two sides"""
    out = {}

    def walk(g):
        items = g[1]
        for i, it in enumerate(items):
            nb = []
            if i > 0:
                nb.append((g, i - 1))
            if i < len(items) - 1:
                nb.append((g, i))
            out[id(it)] = nb
            if it[0] == "g":
                walk(it)
    walk(root)
    return out


def _options(skel):
    """list of decorations of a skeleton; a decoration is a tuple describing one edit of the plain AST"""
    root, leaves, nodes, adjs = _plain(skel)
    opts = []
    for a in range(len(adjs)):
        for sep in (" ", " + "):
            opts.append(("sep", a, sep))
    for n in range(len(nodes)):
        for c in COUNTS:
            opts.append(("cnt", n, c))
        for c in COUNTS:
            opts.append(("xcnt", n, c))
    for l in range(len(leaves)):
        for sp in SUBS:
            if sp != BASE[l]:
                opts.append(("sub", l, sp))
    return opts


def _apply(skel, decos):
    """AST of the skeleton with the decorations applied, or None if they conflict"""
    root, leaves, nodes, adjs = _plain(skel)
    nb = _neighbours(root)
    forced = set()
    touched = set()
    for d in decos:
        if d[0] in ("cnt", "xcnt"):
            if ("n", d[1]) in touched:
                return None
            touched.add(("n", d[1]))
            node = nodes[d[1]]
            node[-2] = d[2]
            if d[0] == "xcnt":
                node[-1] = 1
                for g, i in nb[id(node)]:
                    g[2][i] = " + "
                    forced.add((id(g), i))
        elif d[0] == "sub":
            if ("l", d[1]) in touched:
                return None
            touched.add(("l", d[1]))
            leaves[d[1]][1] = d[2]
    for d in decos:
        if d[0] == "sep":
            g, i = adjs[d[1]]
            if (id(g), i) in forced or ("a", d[1]) in touched:
                return None
            touched.add(("a", d[1]))
            g[2][i] = d[2]
    # two spellings of one species in the same formula are not demanded: none can arise here, every species of
    # BASE + SUBS is a different physical species (checked in init_worker)
    return root


def _structure_cases(skel, maxdeco):
    """(level, ast) for all decoration sets of size <= maxdeco, simplest first"""
    opts = _options(skel)
    yield 0, _apply(skel, ())
    if maxdeco >= 1:
        for o in opts:
            yield 1, _apply(skel, (o,))
    if maxdeco >= 2:
        for o1, o2 in itertools.combinations(opts, 2):
            ast = _apply(skel, (o1, o2))
            if ast is not None:
                yield 2, ast


def _flat_small(ast):
    """belongs to the species / pair strata"""
    return R.groups(ast) == 0 and (R.leaves(ast) == 2 or (R.leaves(ast) == 1 and ast[1][0][2] == 1))


def _within(skel_lg, bound):
    return skel_lg[0] <= bound[0] and skel_lg[1] <= bound[1] and skel_lg[2] <= bound[2]


def _skel_size(skel):
    def walk(seq, d):
        l = g = 0
        md = d
        for it in seq:
            if it == "L":
                l += 1
            else:
                a, b, c = walk(it, d + 1)
                l += a
                g += b + 1
                md = max(md, c)
        return l, g, md
    return walk(skel, 0)


# ------------------------------------------------------------------------------------------ tags
def _kind(node):
    if node[0] == "s":
        return "cs" if node[2] != 1 else "s"
    return "cg" if node[3] != 1 else "g"


def tags_of(ast, natural):
    tags = {"natural" if natural else "abundant", "depth=%d" % R.depth(ast), "leaves=%d" % R.leaves(ast)}

    def walk(g):
        for i, it in enumerate(g[1]):
            if i:
                tags.add("adj:%s-%s-%s" % (_kind(g[1][i - 1]), SEPNAME[g[2][i - 1]], it[0]))
            if it[-2] != 1 and it[-1] == 1:
                tags.add("explicit-mul")
            if it[0] == "g":
                walk(it)
            elif "{" in it[1] or "[" in it[1]:
                tags.add("suffix-species")
    walk(ast)
    exp = R.expand(ast)
    if len(exp) >= 3:
        tags.add("species>=3")
    if len(exp) < R.leaves(ast):
        tags.add("repeated-species")
    return sorted(tags)


# ------------------------------------------------------------------------------------------ oracle
def _row(pt, key):
    try:
        return pt[key]
    except Exception:
        return None


def _compare_substance(sub, case, s, counts, natural, tags):
    """compare an existing Substance with the expected multiset; returns a failure record or None"""
    got = {}
    for k, c in s.components.items():
        got[k] = c.proportion
    if set(got) != set(counts) or any(got[k] != counts[k] for k in counts):
        return failure(sub, case, {k: float(v) for k, v in counts.items()}, {k: float(v) for k, v in got.items()},
                       tags, "counts-differ")
    if not counts:
        return None     # an empty substance (operand of a history) has no tables: nothing more is demanded of it
    o = outcome(s.data_components, quantity=False)
    if o[0] == "err":
        return failure(sub, case, "data_components()", list(o), tags, "raises:" + o[1] + ":data_components")
    dc = o[1]
    o = outcome(s.data_composite, quantity=False)
    if o[0] == "err":
        return failure(sub, case, "data_composite()", list(o), tags, "raises:" + o[1] + ":data_composite")
    cp = o[1]
    for sp, c in counts.items():
        d = R.species_data(sp, natural)
        r = _row(dc, sp)
        if r is None:
            return failure(sub, case, "row " + sp, "missing", tags, "row-missing:data_components")
        obs = dict(element=r.element, isotope=r.isotope, ionisation=r.ionisation, mass=r.mass, count=r.count,
                   Z=r.Z, N=r.N, e=r.e)
        exp = dict(d, count=c)
        for f in ("element",):
            if obs[f] != exp[f]:
                return failure(sub, case, exp, obs, tags, "species-data-differ:" + f)
        for f, rel in (("ionisation", 0), ("count", 0), ("Z", 1e-12), ("N", 1e-12), ("e", 1e-12), ("mass", 1e-10)):
            if not R.close(obs[f], exp[f], rel):
                return failure(sub, case, _fl(exp), _fl(obs), tags, "species-data-differ:" + f)
        if exp["isotope"] is not None and not R.close(obs["isotope"], exp["isotope"], 0):
            return failure(sub, case, _fl(exp), _fl(obs), tags, "species-data-differ:isotope")
        r = _row(cp, sp)
        if r is None:
            return failure(sub, case, "row " + sp, "missing", tags, "row-missing:data_composite")
        for f, rel in (("Z", 1e-12), ("N", 1e-12), ("e", 1e-12), ("mass", 1e-10)):
            if not R.close(r[f], c * d[f], rel):
                return failure(sub, case, {f: c * d[f]}, {f: float(r[f])}, tags, "weighted-row-differ:" + f)
    tot = R.totals(counts, natural)
    r = _row(cp, "sum")
    if r is None:
        return failure(sub, case, "row sum", "missing", tags, "row-missing:sum")
    for f, rel in (("Z", 1e-12), ("N", 1e-12), ("e", 1e-12), ("mass", 1e-10)):
        if not R.close(r[f], tot[f], rel, abs_=1e-12):
            return failure(sub, case, tot, {k: float(r[k]) for k in tot}, tags, "totals-differ:" + f)
    # the totals the object itself holds and prints ("Total mass", "Total number" of Substance.print())
    o = outcome(lambda: (float(s.composite_mass.value("Da")), float(s.proportion_norm)))
    if o[0] == "err":
        return failure(sub, case, "composite_mass / proportion_norm", list(o), tags, "raises:" + o[1] + ":totals")
    if not R.close(o[1][0], tot["mass"], 1e-10):
        return failure(sub, case, tot["mass"], o[1][0], tags, "total-mass-attribute-differs")
    if not R.close(o[1][1], sum(counts.values()), 1e-12):
        return failure(sub, case, float(sum(counts.values())), o[1][1], tags, "total-number-attribute-differs")
    return None


def _fl(d):
    return {k: (float(v) if isinstance(v, (int, float)) or hasattr(v, "dtype") else v) for k, v in d.items()}


def check_formula(sub, ast, natural):
    from scinumtools.materials import Substance
    text = R.render(ast)
    case = dict(formula=text, natural=natural, ast=ast)
    tags = tags_of(ast, natural)
    o = outcome(Substance, text, natural=natural)
    if o[0] == "err":
        return failure(sub, case, "Substance constructed", list(o), tags, "raises:" + o[1]), "rejected"
    return _compare_substance(sub, case, o[1], R.expand(ast), natural, tags), "accepted"


def _alg_counts(formula_ast):
    return R.expand(formula_ast)


_ALG_AST = None


def _alg_asts():
    """ASTs of ALG_FORMULAS written by hand (the oracle never parses a string)"""
    global _ALG_AST
    if _ALG_AST is None:
        L, G = R.leaf, R.group
        _ALG_AST = {
            "H2O": G([L("H", 2), L("O")]),
            "NaCl": G([L("Na"), L("Cl")]),
            "Ca(OH)2": G([L("Ca"), G([L("O"), L("H")], count=2)]),
            "CO2": G([L("C"), L("O", 2)]),
            "C2H5OH": G([L("C", 2), L("H", 5), L("O"), L("H")]),
            "Fe{56+3}2O{-2}3": G([L("Fe{56+3}", 2), L("O{-2}", 3)]),
            "D2O{17}": G([L("D", 2), L("O{17}")]),
            "NaHCO3": G([L("Na"), L("H"), L("C"), L("O", 3)]),
            "[e]": G([L("[e]")]),
            "O2": G([L("O", 2)]),
        }
        for k, a in _ALG_AST.items():
            assert R.render(a) == k, (k, R.render(a))
    return _ALG_AST


def _alg_cases(a):
    for n in ALG_N:
        yield ("mul", a, None, n)
    for b in ALG_FORMULAS:
        yield ("add", a, b, None)
        for n in ALG_N[:2]:
            yield ("addmul", a, b, n)       # (a + b) * n
            yield ("muladd", a, b, n)       # a * n + b


def check_algebra(kind, a, b, n, natural):
    from scinumtools.materials import Substance
    asts = _alg_asts()
    case = dict(op=kind, a=a, b=b, n=n, natural=natural)
    ca = R.expand(asts[a])
    cb = R.expand(asts[b]) if b else {}
    keys = list(ca) + [k for k in cb if k not in ca]
    if kind == "mul":
        exp = {k: ca[k] * n for k in ca}
    elif kind == "add":
        exp = {k: ca.get(k, 0) + cb.get(k, 0) for k in keys}
    elif kind == "addmul":
        exp = {k: (ca.get(k, 0) + cb.get(k, 0)) * n for k in keys}
    else:
        exp = {k: ca.get(k, 0) * n + cb.get(k, 0) for k in keys}
    tags = ["op:" + kind, "natural" if natural else "abundant", "components(a)=%d" % len(ca)]
    if len(ca) >= 3:
        tags.append("components(a)>=3")
    if b and set(ca) & set(cb):
        tags.append("shared-species")

    def run():
        sa = Substance(a, natural=natural)
        if kind == "mul":
            return sa * n
        sb = Substance(b, natural=natural)
        if kind == "add":
            return sa + sb
        if kind == "addmul":
            return (sa + sb) * n
        return sa * n + sb
    o = outcome(run)
    if o[0] == "err":
        return failure("algebra", case, "result substance", list(o), tags, "raises:" + o[1])
    return _compare_substance("algebra", case, o[1], exp, natural, tags)


# ------------------------------------------------------------------------------------------ histories
def _hist_ops(history):
    """operations with the '+' operand spelled out as [key, amount] pairs for the reference model"""
    return [[o[0], HIST_OTHERS[o[1]]] if o[0] in ("plus", "rplus", "iadd") else o for o in history]


def _prefixed(bad, prefix, extra_tag):
    if bad is not None:
        bad["behaviour"] = prefix + ":" + bad["behaviour"]
        bad["tags"] = sorted(set(bad["tags"]) | {extra_tag})
    return bad


def check_history(start, natural, history):
    """apply the history to a live Substance; compare the final object with the reference counts; then re-read the
    operands of every non-mutating step, construct the bystander formulas afresh (state must not cross objects) and
    re-read the final object once more"""
    from scinumtools.materials import Substance, Element
    arg, counts0 = HIST_STARTS[start]
    case = dict(start=start, natural=natural, history=history)
    mops = _hist_ops(history)
    counts = R.model_run(counts0, mops)
    tags = R.history_tags(counts0, mops) + ["natural" if natural else "abundant", "input:" + start.split(":")[1]]
    formulas = [o[1] for o in history if o[0] in ("plus", "rplus", "iadd")]
    alive = []

    def reads(obj):
        # table reads with a component selection, both `quantity` flags, between the steps and before the final
        # full read-out (a read must never change what a later read returns)
        first = next(iter(obj.components))
        obj.data_composite(components=[first], quantity=False)
        obj.data_composite(components=[first], quantity=True)
        obj.data_components(quantity=True)

    def run():
        obj = Substance(dict(arg) if isinstance(arg, dict) else arg, natural=natural)
        it = iter(formulas)
        final = R.real_run(obj, mops, lambda pairs: (Substance(next(it), natural=natural) if pairs else
                                                     (next(it), Substance(natural=natural))[1]), False,
                           make_component=lambda k, a: Element(k, proportion=a, natural=natural),
                           counts=counts0, alive=alive, after_step=reads)
        reads(final)
        return final
    o = outcome(run)
    if o[0] == "err":
        return failure("history", case, "history executed", list(o), tags, "raises:" + o[1]), counts
    final = o[1]
    bad = _compare_substance("history", case, final, counts, natural, tags)
    if bad:
        return bad, counts
    for role, obj, c in alive:
        bad = _prefixed(_compare_substance("history", case, obj, c, natural, tags), role + "-changed", role)
        if bad:
            return bad, counts
    for formula, c in BYSTANDERS.items():
        o = outcome(Substance, formula, natural=natural)
        if o[0] == "err":
            return failure("history", case, "bystander %s constructed" % formula, list(o),
                           tags + ["bystander:" + formula], "bystander:raises:" + o[1]), counts
        bad = _prefixed(_compare_substance("history", case, o[1], c, natural, tags), "bystander",
                        "bystander:" + formula)
        if bad:
            return bad, counts
    bad = _prefixed(_compare_substance("history", case, final, counts, natural, tags), "after-bystanders",
                    "re-read")
    return bad, counts


# ------------------------------------------------------------------------------------------ plan / shards
def init_worker():
    from ..isolation import tables_snapshot
    import scinumtools.materials  # noqa: all sub-modules loaded before the module-state snapshot
    tables_snapshot()
    R.materials_state_snapshot()
    PT, me, nuc = R.tables()
    # abundances have no ties (the arg-max of the statement is unambiguous)
    for sym, (Z, iso) in PT.items():
        ab = [a for _, a in iso.values()]
        if sum(ab) > 0 and ab.count(max(ab)) != 1:
            raise HarnessError("abundance tie in " + sym)
    phys = set()
    for sp in set(BASE + SUBS + ALPHABET):
        d = R.species_data(sp, False)
        key = (d["element"], d["isotope"], d["ionisation"])
        if key in phys:
            raise HarnessError("alphabet holds two spellings of one species: " + sp)
        phys.add(key)


def plan(tier, seed):
    shards = []
    nsp = len(_species_cases())
    for k in range(0, nsp, 120):
        shards.append(("species", k, k + 120))
    for first in ALPHABET:
        for sep in SEPS:
            shards.append(("pair", first, sep))
    win = None if tier == "thorough" else seed % NWIN
    for k in range(NSHARD_C):
        shards.append(("structure", k, win))
    for a in ALG_FORMULAS:
        shards.append(("algebra", a))
    for start in HIST_STARTS:
        for nat in (False, True):
            for first in range(len(HIST_OPS)):
                shards.append(("history", start, nat, first, HDEPTH[tier]))
    return shards


_LEAKS = []


def _restore():
    """put process-wide state back after a case: unit tables and module / class level containers of the materials
    modules (a cache that crosses objects must not make the next case depend on this one)"""
    from ..isolation import tables_restore
    leaked = R.materials_state_restore()
    if leaked:
        _LEAKS.extend(leaked)
    return tables_restore()


def _in_window(text, win):
    return win is None or hash(text) % NWIN == win


def run_shard(desc):
    sh = Shard(PROPERTY)
    kind = desc[0]
    if kind == "species":
        cases = _species_cases()[desc[1]:desc[2]]
        for sp, nat in cases:
            sh.nontrivial += 1
            for where, ast in _species_asts(sp):
                bad, res = check_formula("species", ast, nat)
                sh.evaluations += 1
                sh.count("species:" + res)
                if bad:
                    bad["tags"] = sorted(set(bad["tags"]) | {"position:" + where})
                    sh.fail(bad)
                _restore()
            if len(sh.samples) < 1:
                sh.sample(dict(species=sp, natural=nat))
    elif kind == "pair":
        seen = set()
        for ast in _pair_cases(desc[1], desc[2]):
            text = R.render(ast)
            if text in seen:
                continue
            seen.add(text)
            bad, res = check_formula("pair", ast, False)
            sh.evaluations += 1
            sh.nontrivial += 1
            sh.count("pair:" + res)
            if bad:
                sh.fail(bad)
            if ast[1][0][2] == 1 and ast[1][1][2] == 1:
                bad, res = check_formula("pair", ast, True)
                sh.evaluations += 1
                sh.nontrivial += 1
                sh.count("pair:" + res)
                if bad:
                    sh.fail(bad)
            _restore()
        sh.sample(dict(pair=R.render(next(iter(_pair_cases(desc[1], desc[2]))))))
    elif kind == "structure":
        _, k, win = desc
        allshapes = shapes(WIDE["shape"])
        seen = set()
        for idx in range(k, len(allshapes), NSHARD_C):
            skel = allshapes[idx]
            size = _skel_size(skel)
            in_core = _within(size, CORE["shape"])
            in_core2 = _within(size, CORE2["shape"])
            in_deep = _within(size, DEEP["shape"])
            in_nat = _within(size, NATURAL_TOO["shape"])
            maxdeco = DEEP["deco"] if in_deep else WIDE["deco"]
            for level, ast in _structure_cases(skel, maxdeco):
                if _flat_small(ast):
                    continue
                text = R.render(ast)
                core = (in_core and level <= CORE["deco"]) or (in_core2 and level <= CORE2["deco"])
                if not core and not _in_window(text, win):
                    sh.count("structure:outside-window")
                    continue
                if text in seen:
                    raise HarnessError("structure enumeration produced a duplicate: " + text)
                seen.add(text)
                modes = [False] + ([True] if in_nat and level <= NATURAL_TOO["deco"] else [])
                for nat in modes:
                    bad, res = check_formula("structure", ast, nat)
                    sh.evaluations += 1
                    sh.nontrivial += 1
                    sh.count("structure:%s:deco=%d" % (res, level))
                    if bad:
                        sh.fail(bad)
                    _restore()
                for t in tags_of(ast, False):
                    if t.startswith("adj:"):
                        sh.add_to_set("adjacency", t)
                if level == 2 and len(sh.samples) < 1:
                    sh.sample(dict(formula=text))
                sh.add_to_set("nesting", R.depth(ast))
    elif kind == "algebra":
        for c in _alg_cases(desc[1]):
            for nat in (False, True):
                if nat and c[0] in ("addmul", "muladd") and c[3] != 2:
                    continue
                bad = check_algebra(*c, nat)
                sh.evaluations += 1
                sh.nontrivial += 1
                sh.count("algebra:" + c[0])
                if bad:
                    sh.fail(bad)
                _restore()
        sh.sample(dict(algebra="(%s + NaCl) * 2" % desc[1]))
    elif kind == "history":
        _, start, nat, first, depth = desc
        for h in R.histories(HIST_OPS, depth):
            if h[0] != HIST_OPS[first]:
                continue
            bad, counts = check_history(start, nat, h)
            sh.evaluations += 1
            sh.nontrivial += 1
            sh.transitions += len(h)
            sh.traces += 1
            sh.add_to_set("hstates", R.state_key(start.split(":")[0] + (":nat" if nat else ":abu"), counts))
            sh.add_to_set("hdepth", len(h))
            for t in R.history_tags(HIST_STARTS[start][1], _hist_ops(h)):
                if t.startswith("last:"):
                    sh.count("history:" + t)
            if bad:
                sh.fail(bad)
            _restore()
            if len(h) == 2 and len(sh.samples) < 1:
                sh.sample(dict(start=start, natural=nat, history=h))
    if _LEAKS:
        sh.count("module-state-restored", len(_LEAKS))
        sh.add_extra("module_state_leaks", sorted(set(_LEAKS))[:10])
        del _LEAKS[:]
    return sh


def replay(rec):
    c = rec["case"]
    try:
        if rec["sub"] == "algebra":
            return check_algebra(c["op"], c["a"], c["b"], c["n"], c["natural"])
        if rec["sub"] == "history":
            return check_history(c["start"], c["natural"], c["history"])[0]
        bad, _ = check_formula(rec["sub"], c["ast"], c["natural"])
        if bad is not None:
            extra = [t for t in rec.get("tags", []) if t.startswith("position:")]
            bad["tags"] = sorted(set(bad["tags"]) | set(extra))
        return bad
    finally:
        _restore()


def finish(total, tier, seed):
    h = total.hist
    adj = set(total.sets.get("adjacency", set()))
    kinds = ("s", "cs", "g", "cg")
    want = {"adj:%s-%s-%s" % (a, s, b) for a in kinds for s in "jbp" for b in "sg"}
    missing = sorted(want - adj)
    if missing:
        raise HarnessError("structure stratum did not produce every adjacency: %s" % missing[:6])
    for key in ("species:accepted", "pair:accepted", "algebra:mul", "algebra:add"):
        if not h.get(key):
            raise HarnessError("vacuous run: no case counted under " + key)
    if not any(k.startswith("structure:accepted:deco=2") for k in h):
        raise HarnessError("vacuous run: no 2-decoration structure was accepted")
    for key in ("add-existing", "add-new", "plus-shared", "plus-shared-last", "plus-disjoint", "mul",
                "pluscomp-existing", "pluscomp-new", "iadd", "imul", "plus-empty", "rplus-empty", "iadd-empty",
                "rplus-shared", "rplus-disjoint", "mul-identity"):
        if not h.get("history:last:" + key):
            raise HarnessError("vacuous run: no history ends with " + key)
    hstates = total.sets.get("hstates", set())
    total.states = len(hstates)
    total.max_depth = max(total.sets.get("hdepth", {0}))
    return dict(
        states=len(hstates), transitions=total.transitions, traces_validated_against_impl=total.traces,
        max_depth=total.max_depth, max_nesting=max(total.sets.get("nesting", {0})),
        module_state_restored=h.get("module-state-restored", 0),
        history_bounds=dict(starts=sorted(HIST_STARTS), operations=HIST_OPS, depth=HDEPTH[tier],
                            bystanders=sorted(BYSTANDERS),
                            isotope_modes=["natural", "abundant"], pruning="none (every history executed)"),
        bounds=dict(species="118 elements x {unspecified, each of 354 tabulated isotopes} x charge {none,+,-,+2,-3,+0,-0,"
                            "+10,-10,-12,+26,-Z (two-digit ones where |q|<=Z)} "
                            "+ [p] [n] [e] D T; each alone, counted and as left/right neighbour",
                    pair="11 x 11 species x counts {none,2,3,12} x separators {'',' ',' + '} (+ explicit ' * n')",
                    structure_core="shapes <= %s (leaves, groups, depth), <= %d decoration; shapes <= %s, <= %d "
                                   "decorations" % (CORE["shape"], CORE["deco"], CORE2["shape"], CORE2["deco"]),
                    structure_wide="shapes <= %s, <= %d decoration" % (WIDE["shape"], WIDE["deco"]),
                    structure_deep="shapes <= %s, <= %d decorations" % (DEEP["shape"], DEEP["deco"]),
                    algebra="%d formulas, n in %s, a*n, a+b, (a+b)*n, a*n+b" % (len(ALG_FORMULAS), ALG_N)),
        window=("all %d windows" % NWIN) if tier == "thorough" else
               "core + window %d of %d of the wide/deep structure space" % (seed % NWIN, NWIN),
        exhaustive=(tier == "thorough"),
        caps_hit=[] if tier == "thorough" else
        ["quick executes 1 of %d windows of the wide/deep structure space (the core is complete)" % NWIN],
        adjacency_classes=len(adj), shapes=len(shapes(WIDE["shape"])),
        skipped_outside_window=h.get("structure:outside-window", 0),
    )


MANIFEST = dict(
    text="Bounded-exhaustive enumeration of molecular formulas on the real Substance class against an expansion of the "
         "generating AST: every species of the isotope table (118 elements, 354 isotopes, 7 one-digit (incl. +0, -0) and 5 two-digit charge suffixes, nucleons, "
         "D, T; alone, counted, as left/right neighbour; both isotope modes), every ordered pair of an 11-species "
         "alphabet x counts x separators, every formula shape up to 5 species occurrences / 3 groups / nesting 3 with "
         "<= 1 decoration and up to 4 / 2 / 2 with <= 2 decorations (count, blank or explicit '+', explicit '* n', "
         "substituted or repeated species), a+b, a*n, (a+b)*n, a*n+b over 10 formulas, and every history of <= 2 "
         "(thorough 3) operations {add existing/new species, + sharing/disjoint substance, + Element, * k, +=, *=, "
         "+ empty Substance() on the right / on the left / by +=, * 1, substance + live object (live object as right "
         "operand); partial table "
         "reads between the steps} on 5 live "
         "start substances in both modes, compared with a counts dict after the last step (table rows, sum row and the "
         "object's own total mass / total number), with re-read of all left and right operands (a result must be a "
         "substance of its own: later in-place operations on it must not reach an operand, also when the other "
         "operand was empty or the factor 1) and 5 freshly constructed bystander "
         "formulas after every history. Counts compared exactly, "
         "Z/N/e totals to 1e-12, masses to 1e-10. Quick runs the core plus one seed-selected window of 32.",
    note="Trusted: PT_DATA and four unit-table rows as data, the 5-line reference expansion. Not covered: explicit "
         "operators without blanks, '* n' mixed with implicit addition, unspecified isotopes of the 34 elements "
         "without abundances, formulas beyond the stated size bound (small-scope hypothesis).",
    technique="bounded grammar unfolding, executed on the implementation, reference expansion of the derivation tree",
)
