"""C09 - temporary custom units never outlive their scope.

E1 explicit-state exploration with fault injection, executed on the real process-wide unit tables.

A *history* is a sequence of operations of a small scope machine; it is interpreted by a recursive interpreter
that uses real `with UnitEnvironment(...)` blocks, real exceptions and real DIP parses:

  ["open", S, "with"|"explicit"]   open a scope registering unit set S (with-block, or construct ... close())
  ["fail", F, k]                   try to open a set whose registration fails at a chosen step; the exception
                                   is caught after unwinding k enclosing scopes (k=0: caught immediately)
  ["end"]                          the innermost scope ends normally
  ["raise", k]                     the body raises; the exception unwinds k>=1 scopes before it is caught
  ["interrupt", k]                 the same with a BaseException that is not an Exception
  ["drop"]                         `del` of every variable that holds an environment object + gc.collect()
  ["dip", T, k]                    the body parses DIP text T (which defines units); a failing parse unwinds k scopes
  ["use"]                          quiet part only: the program parses unit expressions here - every spelling of every
                                   open scope must work, every custom spelling of an ended scope must raise
  (end of history)                 every scope that is still open is unwound by an exception

Invariant, evaluated on every transition: at every scope exit (normal, exceptional, failed construction) and after
every DIP parse the tables equal the snapshot taken when the scope / parse was entered; at depth 0 they equal the
pristine snapshot; inside a scope Quantity(1, <custom>) works for every open scope, afterwards it raises.

Failing registrations include registrations *interrupted* by a non-Exception BaseException (custom subclass,
KeyboardInterrupt, SystemExit) at step 1, 2, 3: while the units mapping is iterated, or while the k-th definition is
read (after its conversion class was inserted).  The harness catches the injected exception outside.

Object lifetimes are part of the scope programs: a with-block temporary is released right after __exit__; an explicit
environment is bound to one variable per nesting depth (`env = UnitEnvironment(..); ...; env.close()`), so the closed
object lives until the variable is re-bound (after the next environment has registered), until ["drop"], or until the
end of the history.  The cyclic collector is disabled and run at fixed points, caught exceptions lose their tracebacks:
every release happens deterministically by reference counting.

Parts:
  graph   state-pruned BFS of the whole state graph (state = canonical tables + stack of open scopes), nesting <= 3:
          every operation of the alphabet (all fault kinds, every unwinding distance) is applied in every state
          (quick: states of depth 3 only as three nested with-blocks, failing steps there unwind 0 or 3 scopes;
          thorough: both styles at every level, every unwinding distance)
  hist    un-pruned histories (non-initial states, re-used definition dicts), deviation-ordered by the number of
          failing steps (0, 1, 2): full alphabet to length LF, a core alphabet to length LC
  cycles  three consecutive open/close or failing cycles (repeated open/close of the same set)
  dip     the DIP route: every program over an alphabet of $unit definitions / nodes / expressions / conditions /
          options / modifications, including for every DIP call site that opens a unit scope a statement that fails
          inside that scope (a program that failed is a leaf), at depth 0, inside unrelated and clashing Python
          scopes, and continued in a second parse on the returned environment; after a failed parse the text without
          its failing line must parse again (twice) and leave the tables untouched; and, for each of the six call
          sites, a second parse whose first unit scope is interrupted by a BaseException during registration
  overlap explicit environments (2 and 3 symbol-disjoint sets) opened and closed in EVERY order, LIFO or not; intermediate
          states are not judged, but once every environment is closed the tables must equal the snapshot taken before
          the first one was opened
  redef   the same symbols registered in three successive scopes with two different definitions (plain, prefixed,
          Quantity-defined, with conversion class; every style / exit): inside each scope every spelling must MEAN its
          own definition (factor to base units, dimension vector, prefixed -> plain conversion)
  extra   one scope (every style / exit / context) of sets with special structure - two units sharing one NEW
          conversion class followed by a further unit; a unit whose prefixes / dimensions fields are the very list
          objects of built-in table rows - and bodies that mutate the definition dict they passed in (delete the first
          key, insert a key in front, replace a value)
  dipredef successive DIP texts defining [len] differently: expression / power / modification / logical results must
          follow the definition of their own text
  quiet   the POINTS at which unit expressions are parsed are part of the history: 2 or 3 back-to-back items (every
          unit set with 1 / 2 / 3 units in both styles, normal or exceptional exit; a DIP text) at depth 0 and as sibling
          scopes inside an outer scope, with every subset of the parse points {inside scope k, between item k and k+1}
          and one parse at the very end; between these points the harness reads the tables but never calls the unit
          parser (everywhere else it probes at every scope entry and after every exit, i.e. at every table size the
          history passes through - which would refresh a symbol index or cache keyed by the size of the table)

Process history: library state outside the three tables (module-level / class-level containers and mutable default
arguments of scinumtools.units and scinumtools.dip) is put back to its start-up content before and after every case, so
a verdict never depends on the cases a worker executed before; a failure record carries, besides the history, the index
from which the harness probed (check_from) / the quiet flag, and the replay parses unit expressions at the same points.
"""
import copy
import gc
import itertools

from ..common import Shard, failure, outcome, HarnessError
from .. import isolation as iso

PROPERTY = "C09"
LEVEL = "model_checking"
RULE = ("history = sequence of scope-machine operations (open set with/explicit, failing or interrupted registration "
        "with unwinding distance k, end, raise k, interrupt k, DIP parse) valid under the static stack model, nesting <= 3; graph part: every "
        "operation applied in every reachable state (state = canonical tables + stack of open scopes); hist part: all "
        "histories with <= 2 failing steps up to the length bound, ordered by number of failing steps; a history is "
        "counted once (ownership rule hist > core > graph > cycles); non-trivial = contains a failing step, or nesting "
        ">= 2, or opens the same set twice. DIP part: every line program (distinct lines, failed programs are leaves); "
        "non-trivial = defines >= 1 unit and has >= 2 lines. Quiet part: sequence of 2 / 3 items (unit set x style x exit, or "
        "DIP text) x context x subset of parse points; distinct by construction (every one contains a [use] operation or "
        "is executed without any probe); non-trivial = contains >= 1 parse point")
ASSUMPTIONS = [
    "the state read by the library between operations is UNIT_STANDARD/UNIT_PREFIXES/UNIT_TYPES (canonical form of "
    "mc/isolation.py, UNIT_TYPES compared by class identity) plus new_units/new_types of the open environments",
    "which registrations are *expected* to succeed comes from a static stack model (symbol sets disjoint from the "
    "pristine spelling set and from the enclosing scopes); nothing is demanded about which registrations must fail",
    "between the start and the end of a history a row object of the pristine tables is identified by its identity; "
    "its content is compared with a copy taken at start-up at the end of every history (an in-place edit of a "
    "pristine row that is reverted within the same history would be missed)",
    "non-LIFO closing of explicit environments: intermediate states are not judged, only the state after every "
    "environment has been closed (overlap part); if a close() raises, the end state is not judged either; closing "
    "twice and leaving an explicit environment open are not demanded and not generated",
    "meanings (factor, dimensions) of custom spellings are checked only in cases that themselves contain both "
    "definitions of the symbol (redef, dipredef); everywhere else each custom spelling has one meaning in the whole "
    "alphabet - otherwise a defective look-up cache would make verdicts depend on the process history (not replayable)",
    "CPython reference counting: an object is released when its last reference goes away",
    "library state outside the unit tables is looked for in module-level and class-level list/dict/set objects and "
    "mutable default arguments of the scinumtools.units / scinumtools.dip modules (restored between cases; listed in "
    "coverage.library_state_restored_between_cases); state kept elsewhere (closures, C extensions) would still make a "
    "verdict depend on the process history - the runner then aborts with a harness error instead of reporting",
    "quiet part: the only calls of the unit parser are the parse points of the history, the library's own calls "
    "(Quantity-defined units, DIP statements) and one probe of every custom spelling at the end of the history",
    "DIP: success is demanded only for programs whose every line has its units/nodes defined before use; numerical "
    "expressions that do not mention a custom unit and failing !condition lines carry no demand on the outcome; "
    "nothing is demanded about *which* statements fail, only that the tables are restored when one does",
]

NEST = 3
LF = dict(quick=3, thorough=4)      # un-pruned, full alphabet
LC = dict(quick=5, thorough=6)      # un-pruned, core alphabet
LDIP = dict(quick=3, thorough=4)    # DIP program length
MAXFAULT = 2

# ----------------------------------------------------------------------------------------------- alphabet: unit sets
_DIM = [3, 2, -1, 0, 0, 1, 0, 0]
_DIM2 = [0, 0, 1, 0, 0, 0, 0, 0]
_CLS = {}


def _classes():
    if not _CLS:
        from scinumtools.units.unit_types import UnitType

        class CustomTypeOne(UnitType):
            def _istype(self):
                return False

        class CustomTypeTwo(UnitType):
            def _istype(self):
                return False
        _CLS["CT1"], _CLS["CT2"] = CustomTypeOne, CustomTypeTwo
    return _CLS


def _d(**kw):
    r = dict(magnitude=3, dimensions=list(_DIM))
    r.update(kw)
    return r


INJECTED = "c09-injected"


class _Interrupt(BaseException):
    """a BaseException that is not an Exception (like KeyboardInterrupt / SystemExit / GeneratorExit)"""


EXC = dict(B=_Interrupt, K=KeyboardInterrupt, S=SystemExit)


def _injected(e):
    return isinstance(e, tuple(EXC.values())) and e.args == (INJECTED,)


class _IntUnits:
    """a units mapping whose items() is interrupted by a BaseException before the k-th definition is delivered"""

    def __init__(self, pairs, k, exc):
        self.pairs, self.k, self.exc = pairs, k, exc

    def keys(self):
        return [sym for sym, _ in self.pairs]

    def items(self):
        for i, (sym, unit) in enumerate(self.pairs, 1):
            if i == self.k:
                raise EXC[self.exc](INJECTED)
            yield sym, unit


class _IntDict(dict):
    """a unit definition whose 'magnitude' access is interrupted by a BaseException (the registration loop has
    already inserted the definition's conversion class at that point)"""
    exc = "B"

    def __getitem__(self, key):
        if key == "magnitude":
            raise EXC[self.exc](INJECTED)
        return dict.__getitem__(self, key)


def _intdict(d, exc):
    r = _IntDict(d)
    r.exc = exc
    return r


_ISYM = ["Xd", "Xe", "Xi"]


def _build(name):
    """fresh definition dict of a unit set (the library mutates these dicts)"""
    from scinumtools.units import Quantity
    c = _classes()
    if name in BAD_INT:
        mode, k, exc = name[0], int(name[1]), name[2]
        pairs = [(sym, _d()) for sym in _ISYM[:k]]
        if mode == "I":      # iteration interrupted before the k-th definition
            return _IntUnits(pairs, k, exc)
        pairs[k - 1] = (_ISYM[k - 1], _intdict(_d(definition=c["CT2"]), exc))
        return dict(pairs)   # value access of the k-th definition interrupted
    if name == "A":
        return {"Xa": _d()}
    if name == "AB":
        return {"Xa": _d(), "Xb": _d()}
    if name == "BC":
        return {"Xb": _d(prefixes=["k", "M"]), "Xc": _d(prefixes=True)}
    if name == "CA":
        return {"Xc": _d(), "Xa": _d()}
    if name == "Q":
        return {"Xq": Quantity(2, "cm/g2"), "Xr": _d(name="my unit")}
    if name == "T":
        return {"Xi": _d(definition=c["CT1"])}
    if name == "TU":
        return {"Xj": _d(definition=c["CT1"]), "Xv": _d(), "Xw": _d(definition=c["CT2"])}
    if name == "LM":
        # the same meaning as the DIP line "$unit mas = 3 g": outside the redef / dipredef parts every custom spelling
        # has ONE meaning in the whole alphabet, so that a (defective) look-up cache that survives a scope cannot make
        # the verdict of a case depend on the cases executed before it in the same process
        return {"[mas]": dict(magnitude=3.0, dimensions=[0, 1, 0, 0, 0, 0, 0, 0])}
    # ---- sets of the extra part
    if name == "SH":     # two units share one NEW conversion class and a further unit follows
        return {"Xj": _d(definition=c["CT1"]), "Xv": _d(definition=c["CT1"]), "Xw": _d()}
    if name == "PR":     # definition fields that are the very objects of built-in table rows
        from scinumtools.units.settings import UNIT_STANDARD
        return {"Xk": dict(magnitude=3, dimensions=UNIT_STANDARD["m"].dimensions,
                           prefixes=UNIT_STANDARD["pc"].prefixes)}
    # ---- the same symbols with OTHER definitions (used by the redef part only)
    if name == "A2":
        return {"Xa": _d(magnitude=7, dimensions=list(_DIM2))}
    if name == "BC2":
        return {"Xb": _d(magnitude=5, prefixes=["k", "M"]), "Xc": _d(magnitude=2, dimensions=list(_DIM2), prefixes=True)}
    if name == "Q2":
        return {"Xq": Quantity(3, "m/s"), "Xr": _d(magnitude=11, name="my unit")}
    if name == "T2":
        return {"Xi": _d(magnitude=4, dimensions=list(_DIM2), definition=c["CT1"])}
    # ---- registrations that fail (in every context)
    if name == "D1":
        return {"m": _d(), "Xd": _d()}
    if name == "D2":
        return {"Xd": _d(), "m": _d()}
    if name == "D3":
        return {"Xd": _d(), "Xe": _d(), "g": _d()}
    if name == "KM":
        return {"Xd": _d(), "km": _d()}
    if name == "PA":
        return {"a": _d(prefixes=["P"])}
    if name == "M1":
        return {"Xe": dict(dimensions=list(_DIM))}
    if name == "M2":
        return {"Xd": _d(), "Xe": dict(dimensions=list(_DIM))}
    if name == "MT":
        return {"Xe": dict(dimensions=list(_DIM), definition=c["CT2"])}
    if name == "ZZ":
        return {"Xd": _d(prefixes=["zz"])}
    if name == "TD":
        return {"Xi": _d(definition=c["CT1"]), "m": _d()}
    if name == "QD":
        return {"Xq": Quantity(2, "cm/g2"), "s": _d()}
    raise HarnessError("unknown unit set " + name)


GOOD = ["A", "AB", "BC", "CA", "Q", "T", "TU", "LM"]
BAD = ["D1", "D2", "D3", "KM", "PA", "M1", "M2", "MT", "ZZ", "TD", "QD"]
# registration interrupted by a non-Exception BaseException at step k = 1, 2, 3: I<k><e> while the mapping is iterated,
# V<k><e> while the k-th definition is read; <e> = B (custom BaseException), K (KeyboardInterrupt), S (SystemExit)
BAD_INT = [m + str(k) + e for m in "IV" for k in (1, 2, 3) for e in "BKS"]
INT_REPR = ["I2K", "V2S"]      # representatives used in the un-pruned hist part
SYMS = dict(A=["Xa"], AB=["Xa", "Xb"], BC=["Xb", "Xc"], CA=["Xc", "Xa"], Q=["Xq", "Xr"], T=["Xi"],
            TU=["Xj", "Xv", "Xw"], LM=["[mas]"],
            D1=["m", "Xd"], D2=["Xd", "m"], D3=["Xd", "Xe", "g"], KM=["Xd", "km"], PA=["a"], M1=["Xe"],
            M2=["Xd", "Xe"], MT=["Xe"], ZZ=["Xd"], TD=["Xi", "m"], QD=["Xq", "s"])
for _n in BAD_INT:
    SYMS[_n] = _ISYM[:int(_n[1]) - (1 if _n[0] == "I" else 0)]
SYMS.update(A2=SYMS["A"], BC2=SYMS["BC"], Q2=SYMS["Q"], T2=SYMS["T"], SH=["Xj", "Xv", "Xw"], PR=["Xk"])
XG = ("SH", "PR")
# spellings that must work inside the scope (symbols + admissible prefixed forms)
PROBE = dict(SYMS, BC=["Xb", "kXb", "MXb", "Xc", "mXc", "GXc"], BC2=["Xb", "kXb", "MXb", "Xc", "mXc", "GXc"],
             PR=["Xk", "kXk", "TXk"])
# redef part: families of sets that define the same symbols differently, and what each spelling must MEAN inside the
# scope: spelling -> (factor to base units, dimension vector); prefixed spellings carry the prefix factor
REDEF = dict(A=("A", "A2"), BC=("BC", "BC2"), Q=("Q", "Q2"), T=("T", "T2"))
MEANING = dict(
    A={"Xa": (3, _DIM)}, A2={"Xa": (7, _DIM2)},
    BC={"Xb": (3, _DIM), "kXb": (3e3, _DIM), "MXb": (3e6, _DIM), "Xc": (3, _DIM), "mXc": (3e-3, _DIM), "GXc": (3e9, _DIM)},
    BC2={"Xb": (5, _DIM), "kXb": (5e3, _DIM), "MXb": (5e6, _DIM), "Xc": (2, _DIM2), "mXc": (2e-3, _DIM2),
         "GXc": (2e9, _DIM2)},
    Q={"Xq": (0.02, [1, -2, 0, 0, 0, 0, 0, 0]), "Xr": (3, _DIM)},
    Q2={"Xq": (3.0, [1, 0, -1, 0, 0, 0, 0, 0]), "Xr": (11, _DIM)},
    T={"Xi": (3, _DIM)}, T2={"Xi": (4, _DIM2)},
)
REDEF_ALT = ("A2", "BC2", "Q2", "T2")
PREFIXED = {"kXb": ("Xb", 1e3), "MXb": ("Xb", 1e6), "mXc": ("Xc", 1e-3), "GXc": ("Xc", 1e9)}
# features of the input, used as tags
FAULT = dict(D1="dup-table-symbol-at-1", D2="dup-table-symbol-at-2", D3="dup-table-symbol-at-3",
             KM="clash-with-prefixed-symbol", PA="prefixed-custom-clashes-with-symbol", M1="malformed-at-1",
             M2="malformed-at-2", MT="malformed-at-1+conversion-class", ZZ="inadmissible-prefix",
             TD="dup-table-symbol-at-2+conversion-class", QD="dup-table-symbol-at-2+quantity")
# number of registrations / class insertions done by the loop before the failing step (static, for tags only)
BEFORE = dict(D1=0, D2=1, D3=2, KM=2, PA=1, M1=0, M2=1, MT=1, ZZ=1, TD=1, QD=1)
for _n in BAD_INT:
    FAULT[_n] = "%s-interrupted-at-%s:%s" % ("iteration" if _n[0] == "I" else "definition-access+conversion-class",
                                             _n[1], EXC[_n[2]].__name__)
    BEFORE[_n] = int(_n[1]) - (1 if _n[0] == "I" else 0)
CUSTOM = ["Xa", "Xb", "Xc", "Xd", "Xe", "Xq", "Xr", "Xi", "Xj", "Xv", "Xw", "[mas]", "[len]", "[vel]", "[bad]", "kXb", "MXb",
          "mXc", "GXc", "a", "Xk", "kXk", "TXk", "Xz"]

DIPTEXT = dict(
    DOK="$unit len = 2 cm\nw float = 3 [len]\n  !condition (\"{?} > 1 [len]\")\n",
    DMS="$unit len = 2 cm\n$unit mas = 3 g\nn int = 3 [mas]\n",
    DFL="$unit len = 2 cm\nw float = 3 [len]\nx float = 3 [foo]\n",
)
DIP_OPS = ["DOK", "DMS", "DFL"]

CORE_GOOD = ["A", "CA", "T"]
CORE_BAD = ["D2", "KM", "MT"]


# ----------------------------------------------------------------------------------------------- static stack model
def _open_syms(stack):
    s = set()
    for n in stack:
        s.update(SYMS[n])
    return s


def _predict_fail(stack, op):
    """static model: does this step fail?"""
    if op[0] == "fail":
        return True
    if op[0] == "open":
        return bool(set(SYMS[op[1]]) & _open_syms(stack))
    if op[0] == "dip":
        return op[1] == "DFL" or (op[1] == "DMS" and "[mas]" in _open_syms(stack))
    return op[0] in ("raise", "interrupt")


def _step(stack, op):
    """static successor stack (tuple of set names)"""
    k = op[0]
    if k == "open":
        return stack if _predict_fail(stack, op) else stack + (op[1],)
    if k == "end":
        return stack[:-1]
    if k in ("raise", "interrupt"):
        return stack[:len(stack) - op[1]]
    if k in ("fail", "dip"):
        return stack[:len(stack) - op[2]] if _predict_fail(stack, op) else stack
    if k in ("drop", "mutate", "use"):
        return stack
    raise HarnessError("bad op %r" % (op,))


def _enabled(stack, alpha):
    """operations of alphabet `alpha` that are valid in a state with this (static) stack"""
    d = len(stack)
    ops = []
    if d < NEST:
        for s in alpha["good"]:
            for st in alpha["styles"]:
                ops.append(("open", s, st))
    ks = sorted(set(range(d + 1)) if alpha["allk"] else {0, d})
    for f in alpha["bad"]:
        for k in ks:
            ops.append(("fail", f, k))
    if d > 0:
        ops.append(("end",))
        for k in (range(1, d + 1) if alpha["allk"] else sorted({1, d})):
            ops.append(("raise", k))
        if alpha.get("interrupt"):
            for k in range(1, d + 1):
                ops.append(("interrupt", k))
    if alpha.get("drop"):
        ops.append(("drop",))
    for t in alpha["dip"]:
        if t == "DFL":
            for k in ks:
                ops.append(("dip", t, k))
        elif t == "DMS" and "[mas]" in _open_syms(stack):
            for k in ks:
                ops.append(("dip", t, k))
        else:
            ops.append(("dip", t, 0))
    return ops


A_FULL = dict(good=GOOD, bad=BAD + INT_REPR, styles=["with", "explicit"], dip=DIP_OPS, allk=False, drop=True)
A_GRAPH = dict(A_FULL, bad=BAD + BAD_INT, allk=True, interrupt=True, drop=False)
A_CORE = dict(good=CORE_GOOD, bad=CORE_BAD, styles=["with"], dip=["DFL"], allk=False)


def _nfaults(hist):
    st, n = (), 0
    for op in hist:
        n += 1 if _predict_fail(st, op) else 0
        st = _step(st, op)
    return n


def _owner(hist, tier):
    """which part counts this history as a distinct case (parts overlap; each history is counted once)"""
    if any(op[0] == "use" for op in hist):
        return "quiet"
    if any(op[0] == "mutate" or (op[0] == "open" and op[1] in XG) for op in hist):
        return "extra"
    if any(op[0] == "open" and op[1] in REDEF_ALT for op in hist):
        return "redef"
    nf = _nfaults(hist)
    if nf <= MAXFAULT and len(hist) <= LF[tier] and _valid(hist, A_FULL):
        return "hist"
    if nf <= MAXFAULT and len(hist) <= LC[tier] and _valid(hist, A_CORE):
        return "core"
    if _graph_explores(hist, tier):
        return "graph"
    return "cycles"


def _valid(hist, alpha):
    st = ()
    for op in hist:
        if tuple(op) not in _enabled_cached(st, id(alpha), alpha):
            return False
        st = _step(st, op)
    return True


_EN = {}


def _enabled_cached(stack, aid, alpha):
    key = (stack, aid)
    if key not in _EN:
        _EN[key] = frozenset(_enabled(stack, alpha))
    return _EN[key]


def _nontrivial(hist):
    st, deep, opened = (), 0, []
    for op in hist:
        if _predict_fail(st, op):
            return True
        if op[0] == "open":
            opened.append(op[1])
        st = _step(st, op)
        deep = max(deep, len(st))
    return deep >= 2 or len(set(opened)) < len(opened)


# ----------------------------------------------------------------------------------------------- canonical table states
_CANON = {}      # fast fingerprint -> (canonical state of isolation.py, its hash)
_PRISTINE = None
_SPELL = None


def _hz(v):
    if isinstance(v, (list, tuple)):
        return tuple(_hz(x) for x in v)
    try:
        hash(v)
        return v
    except TypeError:
        return repr(v)


_PRIS_ROWS = {}      # id(row object) -> row object, for the rows of the pristine tables (kept alive here)
_PRIS_IDS = set()
_PRIS_COPY = {}      # id(row object) -> deep copy of its fields at start-up


def _rows(tbl):
    # a pristine row object is represented by its identity (its *content* is re-checked against a copy taken at
    # start-up at the end of every history, see _restore); any other row by its full content
    vals = list(tbl._data.values())
    ids = list(map(id, vals))
    other = set(ids) - _PRIS_IDS
    for x in other:
        i = ids.index(x)
        ids[i] = tuple((k, _hz(v)) for k, v in vals[i].__dict__.items())
    return tuple(ids)


def _fp():
    """fast fingerprint of the tables (equal fingerprints => equal canonical states, given unmodified pristine rows)"""
    us, up, ut = iso._tables()
    return (tuple(us._keys), tuple(us._data), _rows(us), tuple(up._keys), tuple(up._data), _rows(up), tuple(ut))


def _snap():
    fp = _fp()
    c = _CANON.get(fp)
    if c is None:
        s = iso.tables_state()
        c = _CANON[fp] = (s, hash(s))
    return fp


_DIFFS = {}


def _diff(entry_fp):
    """[] if the tables have the content they had when entry_fp was taken, else a readable difference"""
    now = _snap()
    if now == entry_fp:
        return []
    key = (entry_fp, now)
    if key in _DIFFS:
        return _DIFFS[key]
    a, b = _CANON[entry_fp][0], _CANON[now][0]
    out = []
    if a != b:
        out = iso.tables_diff(a)
    if entry_fp[6] != now[6] and not any(x.startswith("UNIT_TYPES") for x in out):
        out.append("UNIT_TYPES: %s -> %s (different class objects)" % ([t.__name__ for t in entry_fp[6]],
                                                                       [t.__name__ for t in now[6]]))
    _DIFFS[key] = out
    return out


def _behaviour(diff):
    """class of the defective outcome, from the table difference"""
    b = set()
    for line in diff:
        if line.startswith("UNIT_TYPES"):
            b.add("types-differ")
        elif "added=[]" not in line and "added=" in line:
            b.add("units-leaked")
            if "removed=[]" not in line:
                b.add("units-lost")
        elif "removed=" in line and "removed=[]" not in line:
            b.add("units-lost")
        else:
            b.add("rows-changed")
    return "+".join(sorted(b)) or "differs"


# ---- library state OUTSIDE the unit tables (module-level containers, class-level containers, mutable default arguments
# of scinumtools.units / scinumtools.dip): a defective look-up cache or symbol index kept there would make the verdict
# of a case depend on the cases executed before it in the same worker.  It is put back (in place) to its start-up
# content before and after every case, so that every case - and its replay in a fresh process - starts from the same
# library state; the history that exposes such a cache has to be part of ONE case (quiet part, redef part).
_HIDDEN = []         # [label, live object, pristine copy]


def _hidden_copy(obj):
    try:
        return copy.deepcopy(obj)
    except Exception:
        return type(obj)(obj)


def _hidden_snapshot():
    import sys
    import types
    import scinumtools.dip      # noqa: F401  (loaded now, so that its modules are part of the snapshot)
    del _HIDDEN[:]
    tables = iso._tables()
    seen = {id(t) for t in tables}

    def add(label, obj):
        if isinstance(obj, (list, dict, set)) and id(obj) not in seen:
            seen.add(id(obj))
            try:
                pristine = _hidden_copy(obj)
                if bool(obj != pristine):
                    return
            except Exception:
                return      # content that cannot be compared (arrays ...): not tracked
            _HIDDEN.append([label, obj, pristine])

    def add_function(label, fn):
        for i, d_ in enumerate(fn.__defaults__ or ()):
            add("%s:default%d" % (label, i), d_)
        for k_, d_ in (fn.__kwdefaults__ or {}).items():
            add("%s:kwdefault:%s" % (label, k_), d_)

    for mname in sorted(sys.modules):
        mod = sys.modules[mname]
        if mod is None or not (mname.startswith("scinumtools.units") or mname.startswith("scinumtools.dip")):
            continue
        if mname.startswith(("scinumtools.dip.docs", "scinumtools.dip.pygments")):
            continue        # documentation generators / syntax highlighting: not on any path a case executes
        for gname, val in sorted(vars(mod).items()):
            if gname.startswith("__"):
                continue
            label = "%s.%s" % (mname, gname)
            add(label, val)
            if isinstance(val, types.FunctionType) and val.__module__ == mname:
                add_function(label, val)
            elif isinstance(val, type) and val.__module__ == mname:
                for aname, aval in sorted(vars(val).items()):
                    if (aname.startswith("__") and aname != "__init__") or (aname.startswith("_") and aname.endswith("_")):
                        continue        # (_x_: bookkeeping of enum classes)
                    add("%s.%s" % (label, aname), aval)
                    fn = aval.__func__ if isinstance(aval, (staticmethod, classmethod)) else aval
                    if isinstance(fn, types.FunctionType):
                        add_function("%s.%s" % (label, aname), fn)


def _hidden_restore():
    """put the tracked library state back in place; returns the labels that had changed"""
    changed = []
    for label, obj, pristine in _HIDDEN:
        try:
            same = bool(obj == pristine)
        except Exception:
            same = False
        if not same:
            changed.append(label)
            if isinstance(obj, list):
                obj[:] = _hidden_copy(pristine)
            else:
                obj.clear()
                obj.update(_hidden_copy(pristine))
    return changed


def init_worker():
    global _PRISTINE, _SPELL
    # object releases must happen at the points the scope programs choose, not when the cyclic collector happens to
    # run: the collector is switched off and run at fixed points (between cases, and at ["drop"])
    gc.disable()
    _classes()
    iso.tables_snapshot()
    _hidden_snapshot()
    from scinumtools.units.settings import UNIT_STANDARD, UNIT_PREFIXES
    for tbl in (UNIT_STANDARD, UNIT_PREFIXES):
        for ps in tbl._data.values():
            _PRIS_ROWS[id(ps)] = ps
            _PRIS_IDS.add(id(ps))
            _PRIS_COPY[id(ps)] = copy.deepcopy(ps.__dict__)
    _PRISTINE = _snap()
    sp = set()
    for s, u in UNIT_STANDARD.items():
        sp.add(s)
        if u.prefixes is True:
            sp.update(p + s for p in UNIT_PREFIXES.keys())
        elif isinstance(u.prefixes, list):
            sp.update(p + s for p in u.prefixes)
    _SPELL = sp
    # the alphabet is validated against the published table *data* (not against library behaviour)
    for n in GOOD:
        for p in PROBE[n]:
            if p in sp:
                raise HarnessError("alphabet: custom spelling %s already means something" % p)
    for c in CUSTOM:
        if c in sp:
            raise HarnessError("alphabet: %s is a table spelling" % c)
        # the unit parser accepts any single junk character in front of a table symbol (a C03 matter): custom
        # spellings must not end in a table symbol, otherwise "raises outside the scope" could not be observed
        if any(c.endswith(k) for k in UNIT_STANDARD.keys()):
            raise HarnessError("alphabet: custom spelling %s ends in a table symbol" % c)
    if "km" not in sp or "km" in UNIT_STANDARD or "Pa" not in UNIT_STANDARD or "a" in sp or "zz" in UNIT_PREFIXES:
        raise HarnessError("alphabet: fault sets do not fit the unit tables any more")
    for m_ in ("m", "g", "s"):
        if m_ not in UNIT_STANDARD:
            raise HarnessError("alphabet: %s missing" % m_)
    pcp = UNIT_STANDARD["pc"].prefixes
    if not isinstance(pcp, list) or pcp == sorted(pcp, key=list(UNIT_PREFIXES.keys()).index) or "k" not in pcp \
            or "T" not in pcp:
        raise HarnessError("alphabet: the prefixes list of 'pc' no longer fits set PR")


def _restore():
    """restore the pristine tables; returns the canonical difference that had to be undone ([] if none)"""
    _hidden_restore()
    if _fp() == _PRISTINE and all(ps.__dict__ == _PRIS_COPY[i] for i, ps in _PRIS_ROWS.items()):
        return []
    return iso.tables_restore()


def _case_start():
    _hidden_restore()
    if _diff(_PRISTINE):
        raise HarnessError("tables not pristine at the start of a case: %s" % iso.tables_diff())


def _usable(sym):
    from scinumtools.units import Quantity
    return outcome(Quantity, 1, sym)[0] == "ok"


def _close(a, b):
    return abs(a - b) <= 1e-12 * max(abs(a), abs(b))


def _means(sym, want):
    """None if spelling `sym` currently means `want` = (factor to base units, dimension vector), else what it means"""
    from scinumtools.units import Quantity

    def resolve():
        q = Quantity(1, sym)
        return float(q.baseunits.magnitude), [float(x) for x in q.baseunits.dimensions.value()]
    o = outcome(resolve)
    if o[0] == "err":
        return dict(raises=list(o[1:]))
    mag, dims = o[1]
    if not _close(mag, float(want[0])) or dims != [float(x) for x in want[1]]:
        return dict(factor=mag, dimensions=dims)
    if sym in PREFIXED:
        base, pf = PREFIXED[sym]
        o = outcome(lambda: float(Quantity(1, sym).value(base)))
        if o[0] == "err":
            return dict(conversion_to=base, raises=list(o[1:]))
        if not _close(o[1], pf):
            return dict(conversion_to=base, value=o[1])
    return None


# ----------------------------------------------------------------------------------------------- the interpreter
class _Unwind(Exception):
    def __init__(self, k, idx):
        self.k, self.idx = k, idx


def _strip(e):
    """Drop the tracebacks of a caught exception chain.  A stored exception would keep the frames of the library and
    of this interpreter - and the environment objects referenced by them - alive in reference cycles; the scope
    programs control the lifetime of every environment object explicitly (see Run.vars)."""
    seen = 0
    while e is not None and seen < 20:
        e.__traceback__ = None
        e, seen = (e.__cause__ or e.__context__), seen + 1


class _UnwindB(BaseException):
    """like _Unwind, but not an Exception (the body is interrupted)"""
    def __init__(self, k, idx):
        self.k, self.idx = k, idx


class _End(BaseException):
    pass


def _run_dip(text, env=None, keep=None):
    """parse DIP text (optionally continuing environment `env`); `keep` receives the DIP object so that the caller
    can keep it alive: DIP names its root source after id(self), and a recycled id would clash in a second parse"""
    from scinumtools.dip import DIP
    d = DIP(env) if env is not None else DIP()
    if keep is not None:
        keep.append(d)
    with d:
        d.add_string(text)
        return d.parse()


class Run:
    """executes one history on the real tables; self.fail = first violation (failure record) or None"""

    def __init__(self, hist, check_from=0, values=False, quiet=False):
        # quiet: the harness itself parses NO unit expression (no usability probe at scope entry / exit / after a DIP
        # parse; the table invariant, which reads the tables only, is still evaluated on every operation); unit
        # expressions are parsed only where the history says so (["use"]) and once at the very end of the history
        self.quiet = quiet
        # values: also check what every custom spelling MEANS inside its scope (redef part only: a case that checks
        # meanings must itself contain both definitions of a symbol, otherwise a stale look-up cache left by an
        # earlier case of the same process would make the verdict depend on the process history)
        self.values = values
        # check_from: index of the first operation whose usability probes / state digests are evaluated (the table
        # invariant is evaluated on every operation); explorers whose case sets are prefix-closed pass len(hist)-1
        self.check_from = check_from
        self.h = [tuple(op) for op in hist]
        self.i = 0
        self.stack = []          # real open scopes: [set, style, env]
        self.fail = None
        self.abort = False
        self.states = []         # digest of the state after each completed operation
        self.events = []         # outcome label of each completed operation
        self.dicts = {}          # the same definition dict is re-used when a set is opened again
        self.max_depth = 0
        # object lifetimes.  `with UnitEnvironment(..)` : the object is released right after __exit__.
        # explicit style: the program text is `env<depth> = UnitEnvironment(..); ...; env<depth>.close()`, one
        # variable per nesting depth, so a closed object stays alive until that variable is re-bound (the old
        # object is released only AFTER the new environment has registered), until a ["drop"] operation deletes
        # the variables, or until the end of the history.  gc is disabled (init_worker); with the tracebacks
        # stripped every release happens by reference counting at exactly these points.
        self.vars = {}

    # -- helpers
    def case(self):
        # redef part: always the whole history (it contains both definitions of the symbol, so the replay fails in
        # some phase whatever a defective look-up cache of the replaying process happens to hold)
        upto = len(self.h) if self.values or self.quiet else self.i
        c = dict(route="py", history=[list(op) for op in self.h[:upto]])
        if self.quiet:
            c["quiet"] = True
        if self.check_from:
            # the operations before this index were executed without usability probes (no unit expression parsed by
            # the harness there): the replay has to consult the unit parser at the same points as this execution
            c["check_from"] = min(self.check_from, max(0, upto - 1))
        return c

    def bad(self, sub, expected, observed, tags, behaviour):
        if self.fail is None:
            self.fail = failure(sub, self.case(), expected, observed, tags=tags, behaviour=behaviour)

    def units(self, name):
        if name not in self.dicts:
            self.dicts[name] = _build(name)
        return self.dicts[name]

    def done(self, idx, label):
        if idx < self.check_from:
            self.events.append(label)
            return
        fp = _snap()
        # the bookkeeping of the open environments, whatever form the implementation gives it
        desc = tuple((s, st, repr(getattr(e, "new_units", None)), repr(getattr(e, "new_types", None)))
                     for s, st, e in self.stack)
        kept = tuple(sorted(d_ for d_, e in self.vars.items() if all(e is not x[2] for x in self.stack)))
        self.states.append(hash((_CANON[fp][1], desc, kept)))    # kept: variables holding closed environment objects
        self.events.append(label)

    def ctx_tags(self, depth):
        return ["nested" if depth > 0 else "depth0"]

    def check_open_usable(self, tags, full_top=False, force=False):
        """every open scope's units work (all spellings of the scope just opened, the symbols of the others)"""
        if self.i - 1 < self.check_from or (self.quiet and not force):
            return
        for n, (s, st, e) in enumerate(self.stack):
            probes = PROBE[s] if full_top and n == len(self.stack) - 1 else SYMS[s]
            if self.values and s in MEANING:
                for p, want in MEANING[s].items():
                    got = _means(p, want)
                    if got is not None:
                        self.bad("meaning-inside", "inside the scope of %s %r has factor %r and dimensions %r"
                                 % (s, p, want[0], list(want[1])), got,
                                 tags + ["set:" + s, "prefixed" if p in PREFIXED else "plain", "redefined-symbol"],
                                 "raises" if "raises" in got else "stale-or-wrong-definition")
                        return
                continue
            for p in probes:
                if not _usable(p):
                    self.bad("usable-inside", "Quantity(1,%r) works inside the scope of %s" % (p, s), "raises",
                             tags + ["set:" + s], "custom-unit-unusable")
                    return

    def check_gone(self, syms, tags, sub="gone-outside", force=False):
        live = set()
        for s, st, e in self.stack:
            live.update(PROBE[s])
        if self.i - 1 < self.check_from or (self.quiet and not force):
            return
        for p in syms:
            if p in live or p in _SPELL:
                continue
            if _usable(p):
                self.bad(sub, "Quantity(1,%r) raises outside the scope" % p, "works", tags, "custom-unit-survives")
                return

    # -- interpreter
    def go(self):
        _case_start()
        try:
            try:
                self.body(0)
            except _End as e:
                _strip(e)
            except (_Unwind, _UnwindB) as e:
                _strip(e)
                if self.fail is None and not self.abort:
                    raise HarnessError("history unwinds below depth 0: %r" % (self.h,))
            self.vars.clear()      # end of the program: every variable goes out of scope
            self.dicts.clear()
            if self.fail is None:
                d = _diff(_PRISTINE)
                if d:
                    self.bad("depth0-pristine", "tables equal the pristine snapshot at depth 0", d, ["depth0"],
                             _behaviour(d))
                else:
                    self.check_gone(self.used(), ["depth0"] + (["end-of-quiet-history"] if self.quiet else []),
                                    force=True)
        finally:
            left = _restore()
        if left and self.fail is None:
            # content of a pristine row was modified in place (not visible to the fast fingerprint)
            self.bad("depth0-pristine", "tables equal the pristine snapshot at depth 0", left, ["depth0"],
                     _behaviour(left))
        return self.fail

    def used(self):
        """every custom spelling that an operation executed so far has (tried to) register"""
        used = []
        for op in self.h[:self.i]:
            used += PROBE.get(op[1], SYMS.get(op[1], [])) if op[0] in ("open", "fail") else []
            used += ["[len]", "[mas]"] if op[0] == "dip" else []
        return sorted(set(used))

    def use(self, idx, depth):
        """the program parses unit expressions at this point: every spelling of every open scope must work, every
        custom spelling of a scope that has ended must raise"""
        tags = self.ctx_tags(depth) + ["use-op", "parse-point=%d" % sum(1 for op in self.h[:idx + 1] if op[0] == "use")]
        prev = [op[1] for op in self.h[:idx] if op[0] == "open"]
        if self.stack and len(prev) >= 2 and len(SYMS[prev[-1]]) == len(SYMS[prev[-2]]):
            tags.append("previous-scope-had-as-many-units")
        self.check_open_usable(tags, full_top=True, force=True)
        if self.fail is None:
            self.check_gone(self.used(), tags, force=True)
        self.done(idx, "used")

    def body(self, depth):
        self.max_depth = max(self.max_depth, depth)
        while True:
            if self.fail is not None or self.abort:
                raise _End()
            if self.i >= len(self.h):
                if depth == 0:
                    return None
                raise _End()
            idx = self.i
            op = self.h[idx]
            self.i += 1
            k = op[0]
            if k == "end":
                if depth == 0:
                    raise HarnessError("end at depth 0: %r" % (self.h,))
                return idx
            elif k == "raise":
                if not 1 <= op[1] <= depth:
                    raise HarnessError("raise beyond depth: %r" % (self.h,))
                raise _Unwind(op[1], idx)
            elif k == "interrupt":
                if not 1 <= op[1] <= depth:
                    raise HarnessError("interrupt beyond depth: %r" % (self.h,))
                raise _UnwindB(op[1], idx)
            elif k in ("open", "fail"):
                self.scope(op, idx, depth)
            elif k == "drop":
                self.drop(idx, depth)
            elif k == "use":
                self.use(idx, depth)
            elif k == "mutate":
                self.mutate(op[1], idx, depth)
            elif k == "dip":
                self.dip(op, idx, depth)
            else:
                raise HarnessError("bad op %r" % (op,))

    def scope(self, op, idx, depth):
        from scinumtools.units import UnitEnvironment
        kind, sname, arg = op
        predicted_fail = _predict_fail(tuple(s for s, _, _ in self.stack), op)
        entry = _snap()
        units = self.units(sname)
        constructed = False
        ended = None
        exc = None
        env = None
        try:
            if kind == "open" and arg == "explicit":
                env = UnitEnvironment(units)
                self.vars[depth] = env      # re-binding: the previous object of this variable is released now
                constructed = True
                try:
                    self.opened(sname, arg, env, predicted_fail, idx, depth)
                    ended = self.body(depth + 1)
                finally:
                    env.close()
            else:
                with UnitEnvironment(units) as env:
                    constructed = True
                    self.opened(sname, "with", env, predicted_fail, idx, depth)
                    ended = self.body(depth + 1)
        except (_End, _Unwind, _UnwindB) as e:
            exc = e
        except HarnessError:
            raise
        except Exception as e:      # raised by the library: failed construction, or close()/__exit__ raising
            exc = e
        except BaseException as e:  # the BaseException injected into the registration (anything else is not ours)
            if not _injected(e):
                raise
            exc = e
        if exc is not None:
            _strip(exc)         # ... which also releases the object of a failed construction, as `except:` would
        if constructed:
            self.stack.pop()
        env = None              # with-style: the temporary is gone; explicit style: self.vars still holds it
        lib_exc = exc is not None and not isinstance(exc, (_End, _Unwind, _UnwindB))
        tags = self.ctx_tags(depth) + ["set:" + sname]
        tags += ["body-mutates-passed-dict:" + op_[1] for op_ in self.h[idx:self.i] if op_[0] == "mutate"]
        if sname in FAULT:
            tags += ["fault:" + FAULT[sname]]
            tags += ["registered-before-failure>0" if BEFORE[sname] else "registered-before-failure=0"]
        elif predicted_fail:
            pos = [i for i, s in enumerate(SYMS[sname]) if s in _open_syms([s2 for s2, _, _ in self.stack])]
            tags += ["fault:dup-enclosing-symbol-at-%d" % (pos[0] + 1 if pos else 0),
                     "registered-before-failure>0" if pos and pos[0] > 0 else "registered-before-failure=0"]
        if self.fail is None:
            if constructed and lib_exc:
                self.bad("exit-raises", "scope exit does not raise", "%s: %s" % (type(exc).__name__, str(exc)[:200]),
                         tags, "raises:" + type(exc).__name__)
            how = ("failed-construction" if not constructed else
                   "exit-normal" if exc is None else "exit-exception")
            if constructed:
                tags += ["style:" + ("explicit" if kind == "open" and arg == "explicit" else "with"), how]
            if self.fail is None:
                d = _diff(entry)
                if d:
                    self.bad("failed-construction" if not constructed else "scope-exit",
                             "tables equal the snapshot taken when the scope was entered", d, tags, _behaviour(d))
            if self.fail is None:
                self.check_open_usable(tags + ["after-inner-exit"])
            if self.fail is None:
                self.check_gone(PROBE.get(sname, SYMS[sname]), tags)
        # ---- where does control go now
        if isinstance(exc, _End):
            raise exc
        if isinstance(exc, (_Unwind, _UnwindB)):
            if exc.k > 1:
                raise type(exc)(exc.k - 1, exc.idx)
            self.done(exc.idx, "unwound" if isinstance(exc, _Unwind) else "unwound-by-interrupt")
            return
        if exc is None:
            self.done(ended if ended is not None else idx, "exit-normal")
            return
        if not constructed:
            if not predicted_fail and self.fail is None:
                self.bad("usable-inside", "registration of %s succeeds" % sname,
                         "%s: %s" % (type(exc).__name__, str(exc)[:200]), tags, "valid-registration-raises")
            k = arg if kind == "fail" else 0
            if k > 0:
                raise (_UnwindB if _injected(exc) else _Unwind)(k, idx)
            self.done(idx, "construction-interrupted" if _injected(exc) else "construction-failed")
            return
        self.done(idx, "exit-raised")

    def mutate(self, how, idx, depth):
        """the body changes the definition dict it passed to the innermost environment (its own object)"""
        if not self.stack:
            raise HarnessError("mutate at depth 0: %r" % (self.h,))
        units = self.dicts[self.stack[-1][0]]
        entry = _snap()
        first = next(iter(units))
        if how == "del-first":
            del units[first]
        elif how == "add-first":
            items = list(units.items())
            units.clear()
            units["Xz"] = _d()
            units.update(items)
        elif how == "replace-first":
            units[first] = _d(magnitude=9)
        else:
            raise HarnessError("bad mutation " + how)
        tags = self.ctx_tags(depth) + ["body-mutates-passed-dict:" + how, "set:" + self.stack[-1][0]]
        d = _diff(entry)
        if d:
            self.bad("body-mutation", "changing the caller's own definition dict leaves the tables untouched", d, tags,
                     _behaviour(d))
        if self.fail is None:
            self.check_open_usable(tags)
        self.done(idx, "mutated")

    def drop(self, idx, depth):
        """`del` of every environment variable + gc.collect(): closed environment objects are released here"""
        entry = _snap()
        n = len([1 for d_, e in self.vars.items() if all(e is not x[2] for x in self.stack)])
        self.vars.clear()
        gc.collect(0)       # everything allocated since the last full collection is still in generation 0
        tags = self.ctx_tags(depth) + ["drop", "closed-objects-released=%d" % min(n, 2)]
        d = _diff(entry)
        if d:
            self.bad("object-release", "releasing closed environment objects leaves the tables untouched", d, tags,
                     _behaviour(d))
        if self.fail is None:
            self.check_open_usable(tags)
        self.done(idx, "dropped-%d" % min(n, 2))

    def opened(self, sname, style, env, predicted_fail, idx, depth):
        self.stack.append([sname, style, env])
        self.max_depth = max(self.max_depth, depth + 1)
        if predicted_fail:
            # the library accepted a registration the static model expected to fail: nothing is demanded about
            # that, but the rest of the history is meaningless -> unwind everything (exits are still checked)
            self.events.append("unexpected-accept")
            self.abort = True
            return
        self.check_open_usable(self.ctx_tags(depth) + ["just-opened"], full_top=True)
        self.done(idx, "opened")

    def dip(self, op, idx, depth):
        _, tname, k = op
        predicted_fail = _predict_fail(tuple(s for s, _, _ in self.stack), op)
        entry = _snap()
        o = outcome(_run_dip, DIPTEXT[tname])
        tags = self.ctx_tags(depth) + ["dip:" + tname, "parse-" + o[0]]
        d = _diff(entry)
        if d:
            self.bad("dip-parse", "tables equal the snapshot taken before DIP.parse()", d, tags, _behaviour(d))
        if self.fail is None and o[0] == "err" and not predicted_fail:
            self.bad("dip-usable", "DIP text using its own custom units parses", list(o[1:]), tags,
                     "raises:" + _msg(o))
        if self.fail is None:
            self.check_open_usable(tags)
        if self.fail is None:
            self.check_gone(["[len]", "[mas]"], tags, sub="dip-gone-outside")
        if o[0] == "err" and k > 0:
            raise _Unwind(k, idx)
        self.done(idx, "dip-" + o[0])


def _report(sh, rec):
    """keep one record per failure class and shard in the failure list (the runner caps the merged list); the others
    still count as violations"""
    from .. import findings
    cls = sh.extra.setdefault("_cls", {})
    key = (rec["sub"], rec["behaviour"], tuple(rec["tags"]))
    cls[key] = cls.get(key, 0) + 1
    if cls[key] <= 1 or findings.attribute(PROPERTY, rec) is not None:
        sh.fail(rec)
    else:
        sh.failures_dropped += 1


def _msg(o):
    """exception outcome -> 'Type:first words of the message' (without the offending symbol)"""
    return "%s:%s" % (o[1], o[2].split(":")[0].strip("('\" ")[:60])


def _between_cases(sh):
    if sh.evaluations % 200 == 0:
        gc.collect()


def _exec(hist, sh, tier=None, part=None, seen=None):
    _between_cases(sh)
    # graph / hist / core enumerate prefix-closed sets of histories: the probes of earlier operations were evaluated
    # when the shorter history was executed
    r = Run(hist, check_from=0 if part in ("cycles", "redef", "extra") else len(hist) - 1, values=part == "redef")
    bad = r.go()
    sh.evaluations += 1
    sh.traces += 1
    sh.transitions += 1
    sh.max_depth = max(sh.max_depth, r.max_depth)
    for s in r.states:
        sh.add_to_set("states", s)
    if r.events:
        sh.count("last:" + r.events[-1])
    if "unexpected-accept" in r.events:
        sh.count("unexpected-accept")
    if tier is not None and _owner(hist, tier) == part and _nontrivial(hist):
        sh.nontrivial += 1
    if bad is not None:
        # the parts overlap and a violation found in a prefix is found again by every extension: a record is
        # reported only when the violating history is the executed history itself and this part owns it (the
        # prefix-closed parts execute every prefix as a history of its own); left-overs belong to "cycles"
        key = repr(bad["case"])
        own = _owner([tuple(op) for op in bad["case"]["history"]], tier) if tier is not None else part
        full = len(bad["case"]["history"]) == len(hist)
        if ((own == part and full) or own in ("cycles", "redef", "extra")) and (seen is None or key not in seen):
            if seen is not None:
                seen.add(key)
            _report(sh, bad)
        sh.count("violating-history")
    return r


# ----------------------------------------------------------------------------------------------- DIP route
LINES = dict(
    # ---- lines that work when their units / nodes are defined
    UL="$unit len = 2 cm",
    UM="$unit mas = 3 g",
    UV="$unit vel = 3 [len]/s",
    UL2="$unit len = 5 m",
    FW="w float = 3 [len]",
    NI="n int = 3 [mas]",
    FC="v float = 2 cm",
    EX="e float = (\"1 [len] + 2 cm\") cm",
    EN="f float = (\"2 cm + 3 cm\") cm",
    CO="c float = 3 [len]\n  !condition (\"{?} > 1 [len]\")",
    MO="w = 8 cm",
    NM="n = 6000 mg",
    OP="o float = 3 [len]\n  = 3 [len]\n  = 4 cm",
    CA="@case (\"{?w} > 1 [len]\")\n  a int = 1\n@else\n  a int = 2\n@end",
    BE="b bool = (\"{?w} > 1 [len]\")",
    CF="d float = 3 cm\n  !condition (\"{?} < 1 cm\")",
    # ---- lines whose statement fails INSIDE the unit scope opened by one of the DIP call sites
    UB="$unit bad = 2 xyz",                                        # node_unit: unknown unit in the definition
    UN="$unit bad = abc cm",                                       # node_unit: malformed number
    FX="x float = 3 [foo]",                                        # node_float: unknown unit
    FP="p float = 3 k[len]",                                       # node_float: prefix on a custom unit
    IX="y int = 3 [foo]",                                          # node_integer: unknown unit
    MB="w = 8 s",                                                  # NumberType.convert (float modification)
    NB="n = 5 s",                                                  # NumberType.convert (int modification)
    OB="r float = 3 [len]\n  = 3 [len]\n  = 4 s",                  # NumberType.convert (option with units)
    EB="g float = (\"1 [len] + 2 s\") cm",                         # numerical solver: incompatible operands
    EU="h float = (\"1 [foo] + 2 cm\") cm",                        # numerical solver: unknown unit in an atom
    EC="i float = (\"1 [len] + 2 cm\") s",                         # numerical solver: result conversion refused
    CX="k float = 3 [len]\n  !condition (\"{?} > 1 s\")",          # logical solver (!condition) raises
    BX="b2 bool = (\"{?w} > 1 s\")",                               # logical solver (bool node) raises
    CB="@case (\"{?w} > 1 s\")\n  a2 int = 1\n@end",              # logical solver (@case) raises
)
LNAMES = list(LINES)
DIP_CTX = ["top", "inA", "inLM", "split"]
# (units that must be defined, nodes that must be defined, units defined, nodes defined, demand)
#   demand: True = must succeed when requirements hold, False = never succeeds (fault), None = nothing demanded
_F = ((), (), (), (), False)
LREQ = dict(
    UL=((), (), ("len",), (), True), UM=((), (), ("mas",), (), True), UV=(("len",), (), ("vel",), (), True),
    UL2=((), (), ("len",), (), True),
    FW=(("len",), (), (), ("w",), True), NI=(("mas",), (), (), ("n",), True), FC=((), (), (), ("v",), True),
    EX=(("len",), (), (), ("e",), True), EN=((), (), (), ("f",), None),
    CO=(("len",), (), (), ("c",), True), CF=((), (), (), ("d",), None), MO=(("len",), ("w",), (), (), True),
    NM=(("mas",), ("n",), (), (), True), OP=(("len",), (), (), ("o",), True),
    CA=(("len",), ("w",), (), ("a",), True), BE=(("len",), ("w",), (), ("b",), True),
    UB=_F, UN=_F, FX=_F, FP=_F, IX=_F, MB=_F, NB=_F, OB=_F, EB=_F, EU=_F, EC=_F, CX=_F, BX=_F, CB=_F,
)
LFEAT = dict(EX="numerical-expression", EN="numerical-expression-without-custom-unit", CO="condition", CA="case",
             BE="logical-expression", MO="modification-converts", NM="modification-converts", OP="options-with-units",
             UV="unit-defined-from-custom-unit", NI="int-node", FW="float-node",
             UB="fails-in:node_unit", UN="fails-in:node_unit", FX="fails-in:node_float", FP="fails-in:node_float",
             IX="fails-in:node_integer", MB="fails-in:convert-modification", NB="fails-in:convert-modification",
             OB="fails-in:convert-option", EB="fails-in:numerical-solver", EU="fails-in:numerical-solver",
             EC="fails-in:numerical-solver", CX="fails-in:logical-solver", BX="fails-in:logical-solver",
             CB="fails-in:logical-solver")
UNIT_LINES = ("UL", "UM", "UV", "UL2")


def _dip_expect(lines, ctx):
    """True: must parse; False: contains a fault; None: nothing demanded"""
    units, nodes = set(), set()
    verdict = True
    for ln in lines:
        ru, rn, du, dn, demand = LREQ[ln]
        if demand is False:
            return False
        if not set(ru) <= units or not set(rn) <= nodes:
            return False
        if any(u in units for u in du):      # duplicate $unit
            return False
        if demand is None:
            verdict = None
        units.update(du)
        nodes.update(dn)
    if ctx == "inLM" and "mas" in units:
        return None       # the text's own [mas] clashes with the enclosing scope's: nothing demanded
    return verdict


def _dip_text(lines):
    return "".join(LINES[ln] + "\n" for ln in lines)


def _dip_case(ctx, lines, split=0):
    """run one DIP program in a context; returns (outcome-kind, failure or None)"""
    from scinumtools.units import UnitEnvironment
    _case_start()
    case = dict(route="dip", ctx=ctx, lines=list(lines), split=split)
    feats = sorted({LFEAT[ln] for ln in lines if ln in LFEAT})
    tags = ["ctx:" + ctx] + feats + ["units-defined=%d" % sum(1 for ln in lines if ln in UNIT_LINES)]
    bad = None
    res = None
    try:
        def parse_all():
            if ctx == "split":
                keep = []
                env = _run_dip(_dip_text(lines[:split]), keep=keep)
                mid = _diff(entry)
                if mid:
                    return ("mid", mid)
                return ("ok", _run_dip(_dip_text(lines[split:]), env, keep=keep))
            return ("ok", _run_dip(_dip_text(lines)))

        outer = None
        if ctx in ("inA", "inLM"):
            outer_entry = _snap()
            outer = UnitEnvironment(_build("A" if ctx == "inA" else "LM"))
        try:
            entry = _snap()
            o = outcome(parse_all)
            if o[0] == "ok" and o[1][0] == "mid":
                d = o[1][1]
                tags.append("after-first-parse")
            else:
                d = _diff(entry)
            res = o[0]
            tags.append("parse-" + o[0])
            if d:
                bad = failure("dip-parse", case, "tables equal the snapshot taken before DIP.parse()", d, tags=tags,
                              behaviour=_behaviour(d))
            exp = _dip_expect(lines, ctx)
            if bad is None and exp is True and o[0] == "err":
                bad = failure("dip-usable", case, "DIP text that defines its units before using them parses",
                              list(o[1:]), tags=tags, behaviour="raises:" + _msg(o))
            if bad is None and o[0] == "err" and len(lines) >= 2 and _dip_expect(lines[:-1], ctx) is True:
                # the parse failed in its last line: the same text without that line (it parsed before) must
                # still parse in this process, twice, and leave the tables as they were
                for rep in (1, 2):
                    o2 = outcome(_run_dip, _dip_text(lines[:-1]))
                    d2 = _diff(entry)
                    if d2:
                        bad = failure("dip-parse", case, "tables equal the snapshot taken before DIP.parse()", d2,
                                      tags=tags + ["reparse-%d" % rep], behaviour=_behaviour(d2))
                    elif o2[0] == "err":
                        bad = failure("dip-reparse", case, "the text without its failing line parses again after the "
                                      "failed parse", list(o2[1:]), tags=tags + ["reparse-%d" % rep],
                                      behaviour="raises:" + _msg(o2))
                    if bad is not None:
                        break
            if bad is None:
                live = {"inA": ["Xa"], "inLM": ["[mas]"]}.get(ctx, [])
                for p in live:
                    if not _usable(p):
                        bad = failure("usable-inside", case, "enclosing scope's unit %s still works" % p, "raises",
                                      tags=tags, behaviour="custom-unit-unusable")
                for p in ("[len]", "[mas]", "[vel]", "[bad]"):
                    if bad is None and p not in live and _usable(p):
                        bad = failure("dip-gone-outside", case, "Quantity(1,%r) raises after the parse" % p, "works",
                                      tags=tags, behaviour="custom-unit-survives")
        finally:
            if outer is not None:
                outer.close()
        if bad is None and outer is not None:
            d = _diff(outer_entry)
            if d:
                bad = failure("scope-exit", case, "tables equal the snapshot taken when the scope was entered", d,
                              tags=tags + ["style:explicit"], behaviour=_behaviour(d))
        if bad is None:
            d = _diff(_PRISTINE)
            if d:
                bad = failure("depth0-pristine", case, "tables equal the pristine snapshot at depth 0", d, tags=tags,
                              behaviour=_behaviour(d))
    finally:
        left = _restore()
    if left and bad is None:
        bad = failure("depth0-pristine", case, "tables equal the pristine snapshot at depth 0", left, tags=tags,
                      behaviour=_behaviour(left))
    return res, bad


# DIP route, registration interrupted: the custom units come from a first parse; one of the definitions held by the
# returned environment is replaced by one whose access raises a non-Exception BaseException; a second parse on that
# environment then reaches, as its first unit scope, the call site named by the key
DIPINT_FIRST = "$unit len = 2 cm\n$unit mas = 3 g\nw float = 3 [len]\n"
DIPINT = dict(
    node_unit="$unit vel = 3 [len]/s\n",
    node_float="p float = 3 [len]\n",
    node_integer="y int = 3 [len]\n",
    convert_modification="w = 8 cm\n",
    numerical_solver="e float = (\"1 [len] + 2 cm\") cm\n",
    logical_solver="b bool = (\"1 [len] > 1 cm\")\n",
)


def _dipint_case(site, exc, ctx):
    """returns (what happened, failure or None)"""
    from scinumtools.units import UnitEnvironment
    _case_start()
    case = dict(route="dipint", site=site, exc=exc, ctx=ctx)
    tags = ["ctx:" + ctx, "interrupted-in:" + site, "registration-interrupted-at-2:" + EXC[exc].__name__]
    bad, what = None, None
    try:
        outer = UnitEnvironment(_build("A")) if ctx == "inA" else None
        try:
            entry = _snap()
            keep = []
            env = _run_dip(DIPINT_FIRST, keep=keep)
            env.units.units["[mas]"] = _intdict(env.units.units["[mas]"], exc)
            try:
                _run_dip(DIPINT[site], env, keep=keep)
                what = "not-interrupted"
            except Exception as e:
                what = "raised-" + type(e).__name__
            except BaseException as e:
                if not _injected(e):
                    raise
                what = "interrupted"
            d = _diff(entry)
            if d:
                bad = failure("dip-parse", case, "tables equal the snapshot taken before DIP.parse()", d, tags=tags,
                              behaviour=_behaviour(d))
            elif _usable("[len]"):
                bad = failure("dip-gone-outside", case, "Quantity(1,'[len]') raises after the parse", "works",
                              tags=tags, behaviour="custom-unit-survives")
        finally:
            if outer is not None:
                outer.close()
        if bad is None:
            d = _diff(_PRISTINE)
            if d:
                bad = failure("depth0-pristine", case, "tables equal the pristine snapshot at depth 0", d, tags=tags,
                              behaviour=_behaviour(d))
    finally:
        left = _restore()
    if left and bad is None:
        bad = failure("depth0-pristine", case, "tables equal the pristine snapshot at depth 0", left, tags=tags,
                      behaviour=_behaviour(left))
    return what, bad


# ----------------------------------------------------------------------------------------------- overlapping scopes
def _overlap_orders(n):
    """all event sequences of n explicit environments: ("o", i) in index order, ("c", i) somewhere after ("o", i)"""
    out = []

    def rec(seq, opened, closed):
        if len(closed) == n:
            out.append(tuple(seq))
            return
        if opened < n:
            rec(seq + [("o", opened)], opened + 1, closed)
        for i in range(opened):
            if i not in closed:
                rec(seq + [("c", i)], opened, closed | {i})
    rec([], 0, frozenset())
    return out


def _is_lifo(events):
    st = []
    for k, i in events:
        if k == "o":
            st.append(i)
        elif st.pop() != i:
            return False
    return True


def _overlap_case(sets, events, ctx):
    """explicit (non-with) environments opened and closed in any order.  Intermediate states are not judged; once
    every environment is closed the tables must equal what they were before the first one was opened."""
    from scinumtools.units import UnitEnvironment
    _case_start()
    case = dict(route="overlap", sets=list(sets), events=[list(e) for e in events], ctx=ctx)
    ncls = sum(1 for s_ in sets if s_ in ("T", "TU"))
    tags = ["ctx:" + ctx, "lifo" if _is_lifo(events) else "non-lifo", "environments=%d" % len(sets),
            "sets-with-conversion-class=%d" % ncls]
    bad, what = None, "all-closed"
    try:
        outer = UnitEnvironment(_build("Q")) if ctx == "inQ" else None
        try:
            entry = _snap()
            envs = {}
            try:
                for k, i in events:
                    if k == "o":
                        envs[i] = UnitEnvironment(_build(sets[i]))
                    else:
                        envs[i].close()
            except Exception as e:
                # nothing is demanded about closing out of order as such: if the library refuses it, not every
                # scope has been closed and the end state is not judged
                _strip(e)
                what = "raised-" + type(e).__name__
            envs.clear()
            if what == "all-closed":
                d = _diff(entry)
                if d:
                    bad = failure("all-closed", case, "tables equal the snapshot taken before the first environment "
                                  "was opened, once every environment has been closed", d, tags=tags,
                                  behaviour=_behaviour(d))
                else:
                    for s_ in sets:
                        for p_ in PROBE[s_]:
                            if bad is None and _usable(p_):
                                bad = failure("gone-outside", case, "Quantity(1,%r) raises outside the scope" % p_,
                                              "works", tags=tags, behaviour="custom-unit-survives")
        finally:
            if outer is not None:
                outer.close()
        if bad is None and what == "all-closed":
            d = _diff(_PRISTINE)
            if d:
                bad = failure("depth0-pristine", case, "tables equal the pristine snapshot at depth 0", d, tags=tags,
                              behaviour=_behaviour(d))
    finally:
        left = _restore()
    if left and bad is None and what == "all-closed":
        bad = failure("depth0-pristine", case, "tables equal the pristine snapshot at depth 0", left, tags=tags,
                      behaviour=_behaviour(left))
    return what, bad


def _overlap_tuples(n):
    out = []
    for t in itertools.permutations([g for g in GOOD if g != "Q"], n):
        syms = [x for s_ in t for x in SYMS[s_]]
        if len(set(syms)) == len(syms):
            out.append(t)
    return out


# ----------------------------------------------------------------------------------------------- DIP: redefined units
# successive DIP texts that define [len] differently; every value below depends on the definition in force
DIPRE_DEF = dict(UL=("$unit len = 2 cm", 2.0), UL2=("$unit len = 5 m", 500.0))      # text, [len] in cm
DIPRE_BODY = dict(
    expr=["e float = (\"1 [len] + 2 cm\") cm"],
    power=["a float = (\"2 [len] * 1 [len]\") cm2"],
    modify=["w float = 3 [len]", "w = 8 cm"],
    logical=["m float = 150 cm", "t bool = (\"{?m} < 1 [len]\")"],
    all=["e float = (\"1 [len] + 2 cm\") cm", "a float = (\"2 [len] * 1 [len]\") cm2", "w float = 3 [len]", "w = 8 cm",
         "m float = 150 cm", "t bool = (\"{?m} < 1 [len]\")"],
)
DIPRE_SEQ = [("UL", "UL2"), ("UL2", "UL"), ("UL", "UL2", "UL"), ("UL2", "UL", "UL2")]


def _dipre_expected(L):
    return dict(e=L + 2.0, a=2.0 * L * L, w=8.0 / L, t=150.0 < L)


def _dipredef_case(seq, body, ctx):
    from scinumtools.units import UnitEnvironment
    _case_start()
    case = dict(route="dipredef", seq=list(seq), body=body, ctx=ctx)
    tags = ["ctx:" + ctx, "body:" + body, "unit-redefined-in-later-text"]
    bad, what = None, "ok"
    try:
        outer = UnitEnvironment(_build("A")) if ctx == "inA" else None
        try:
            for step, dname in enumerate(seq, 1):
                text, L = DIPRE_DEF[dname]
                entry = _snap()
                o = outcome(lambda: _run_dip("\n".join([text] + DIPRE_BODY[body]) + "\n").data())
                d = _diff(entry)
                if d:
                    bad = failure("dip-parse", case, "tables equal the snapshot taken before DIP.parse()", d,
                                  tags=tags + ["text-%d" % step], behaviour=_behaviour(d))
                elif o[0] == "err":
                    bad = failure("dip-usable", case, "DIP text that defines its units before using them parses",
                                  list(o[1:]), tags=tags + ["text-%d" % step], behaviour="raises:" + _msg(o))
                else:
                    exp = _dipre_expected(L)
                    for k_, v_ in o[1].items():
                        if bad is None and k_ in exp:
                            okv = (bool(v_) == exp[k_]) if k_ == "t" else \
                                abs(float(v_) - exp[k_]) <= 1e-9 * abs(exp[k_])
                            if not okv:
                                bad = failure("dip-meaning", case, "text %d ([len] = %s): %s = %r"
                                              % (step, text.split("=")[1].strip(), k_, exp[k_]),
                                              "%s = %r" % (k_, v_ if isinstance(v_, bool) else float(v_)),
                                              tags=tags + ["text-%d" % step, "node:" + k_],
                                              behaviour="stale-or-wrong-definition")
                if bad is not None:
                    what = "violation"
                    break
        finally:
            if outer is not None:
                outer.close()
        if bad is None:
            d = _diff(_PRISTINE)
            if d:
                bad = failure("depth0-pristine", case, "tables equal the pristine snapshot at depth 0", d, tags=tags,
                              behaviour=_behaviour(d))
    finally:
        left = _restore()
    if left and bad is None:
        bad = failure("depth0-pristine", case, "tables equal the pristine snapshot at depth 0", left, tags=tags,
                      behaviour=_behaviour(left))
    return what, bad


EXTRA_SETS = ["A", "AB", "BC", "TU", "Q", "SH", "PR"]

# ----------------------------------------------------------------------------------------------- quiet part
# Back-to-back scopes where the PROGRAM decides at which points unit expressions are parsed.  Everywhere else the
# harness probes Quantity(1, <custom>) at every scope entry and after every exit, i.e. the unit parser is consulted at
# every table size the history passes through; here it is consulted only at the parse points of the history (inside
# scope k / between scope k and scope k+1, every subset of these points) and once at the very end.  Items: every
# unit set (1, 2 and 3 units; equal and different symbols) in both styles with normal / exceptional exit, and two DIP
# texts; contexts: depth 0 and sibling scopes inside an outer scope.
QUIET_SETS = GOOD + ["SH", "PR"]
QUIET_CORE = ["A", "T", "LM", "AB", "CA"]        # 1, 1, 1, 2, 2 units; AB / CA / A share symbols
QUIET_DIP = ["DOK", "DMS"]
QUIET_CTX = dict(top=(), inLM=(("open", "LM", "with"),), inQ=(("open", "Q", "with"),))
QUIET_N3_CTX = dict(quick=["top"], thorough=["top", "inLM"])


def _quiet_items(tier, n):
    """variants of one sequence position: (set, style, exit op) or (DIP text,)"""
    if n == 2:
        v = [(s_, st, ex) for s_ in QUIET_SETS for st in ("with", "explicit") for ex in (("end",), ("raise", 1))]
        return v + [(t,) for t in QUIET_DIP]
    sets = QUIET_CORE if tier == "quick" else QUIET_SETS
    return [(s_, "with", ex) for s_ in sets for ex in (("end",), ("raise", 1))]      # DIP texts: in the pairs only


def _quiet_histories(ctx, seq):
    """every placement of parse points in the sequence of items `seq` executed in context `ctx`: inside each scope
    that the static model expects to open, and between consecutive items"""
    base = QUIET_CTX[ctx]
    out, seen = [], set()
    points = []
    for k, it in enumerate(seq):
        if len(it) == 3:
            points.append(("in", k))
        if k < len(seq) - 1:
            points.append(("after", k))
    for mask in itertools.product((0, 1), repeat=len(points)):
        on = {pt for pt, b in zip(points, mask) if b}
        h, st = list(base), tuple(op[1] for op in base)
        for k, it in enumerate(seq):
            if len(it) == 3:
                op = ("open", it[0], it[1])
                h.append(op)
                if not _predict_fail(st, op):        # else: the registration fails, there is no body
                    if ("in", k) in on:
                        h.append(("use",))
                    h.append(it[2])
            else:
                h.append(("dip", it[0], 0))
            if ("after", k) in on:
                h.append(("use",))
        h = tuple(h)
        if h not in seen:
            seen.add(h)
            out.append(h)
    return out


def _exec_quiet(hist, sh):
    _between_cases(sh)
    r = Run(hist, quiet=True)
    bad = r.go()
    sh.evaluations += 1
    sh.traces += 1
    sh.transitions += len(hist)
    sh.max_depth = max(sh.max_depth, r.max_depth)
    for s_ in r.states:
        sh.add_to_set("states", s_)
    nuse = sum(1 for op in hist if op[0] == "use")
    sh.count("quiet-parse-points=%d" % nuse)
    if "used" in r.events:
        sh.count("quiet-used")
    if "unexpected-accept" in r.events:
        sh.count("unexpected-accept")
    if nuse:            # without a parse point the history differs from one of the hist part by its probes only
        sh.nontrivial += 1
    if bad is not None:
        _report(sh, bad)
        sh.count("violating-history")
    elif len(sh.samples) < 1 and nuse >= 2:
        sh.sample(dict(route="py", quiet=True, history=[list(o) for o in hist]))


def _extra_histories(sname):
    """one scope of `sname` (every style, exit, context), optionally with a body that mutates the dict it passed in;
    and the set opened twice in a row with fresh dicts"""
    out = []
    for ctx in ((), (("open", "LM", "with"),)):
        for style in ("with", "explicit"):
            for body in ((), (("mutate", "del-first"),), (("mutate", "add-first"),), (("mutate", "replace-first"),)):
                for ex in ((), (("end",),), (("raise", 1),), (("interrupt", 1),)):
                    out.append(ctx + (("open", sname, style),) + body + ex)
    return out


def _dip_explore(ctx, first, maxlen, sh):
    """BFS over line programs starting with `first`: a program is extended only if it parsed (a failed program is a
    leaf); shorter programs first, so the first record of a failure class is a shortest one"""
    frontier = [list(first)]
    while frontier:
        nxt = []
        for prefix in frontier:
            splits = [0] if ctx != "split" else list(range(1, len(prefix)))
            ok_any = False
            for sp in splits:
                _between_cases(sh)
                res, bad = _dip_case(ctx, prefix, sp)
                sh.evaluations += 1
                sh.traces += 1
                sh.transitions += 1
                sh.max_depth = max(sh.max_depth, len(prefix))
                sh.count("dip-%s-%s" % (ctx, res))
                exp = _dip_expect(prefix, ctx)
                sh.count("dip-expected-%s-observed-%s" % ({True: "ok", False: "fault", None: "undemanded"}[exp], res))
                if len(prefix) >= 2 and any(ln in UNIT_LINES for ln in prefix):
                    sh.nontrivial += 1
                if bad is not None:
                    _report(sh, bad)
                if len(sh.samples) < 1 and len(prefix) >= 3 and res == "ok":
                    sh.sample(dict(route="dip", ctx=ctx, lines=list(prefix)))
                ok_any = ok_any or res == "ok"
            if ctx == "split" and len(prefix) < 2:
                ok_any = True
            if ok_any and len(prefix) < maxlen:
                nxt.extend(prefix + [ln] for ln in LNAMES if ln not in prefix)
        frontier = nxt


# ----------------------------------------------------------------------------------------------- plan / shards
def _histories(first, length, alpha):
    """all valid histories of exactly `length` ops that start with ops `first`, with <= MAXFAULT failing steps"""
    out = []

    def rec(h, st, nf):
        if len(h) == length:
            out.append((nf, tuple(h)))
            return
        for op in _enabled(st, alpha):
            f = nf + (1 if _predict_fail(st, op) else 0)
            if f > MAXFAULT:
                continue
            rec(h + [op], _step(st, op), f)

    st, nf = (), 0
    for op in first:
        if op not in _enabled(st, alpha):
            return []
        nf += 1 if _predict_fail(st, op) else 0
        st = _step(st, op)
    if nf > MAXFAULT or len(first) > length:
        return []
    rec(list(first), st, nf)
    out.sort(key=lambda t: t[0])      # deviation order: 0 failing steps first, then 1, then 2
    return out


def plan(tier, seed):
    # enumeration is exhaustive in both tiers; VERIF_SEED selects nothing (no windows)
    opens = [("open", s, st) for s in GOOD for st in ("with", "explicit")]
    first, rest = [], []
    # dip route: few, comparatively long shards
    dips = [("dip", (ctx, ln), tier) for ctx in DIP_CTX for ln in LNAMES] + [("dipint", None, tier)]
    dips += [("dipredef", seq, tier) for seq in DIPRE_SEQ]
    dips += [("extra", sname, tier) for sname in EXTRA_SETS]
    dips += [("redef", (fam, seq), tier) for fam in REDEF for seq in itertools.product((0, 1), repeat=3)
             if len(set(seq)) == 2]
    dips += [("quiet", (2, (a,)), tier) for a in _quiet_items(tier, 2)]
    if tier == "quick":
        dips += [("quiet", (3, (a,)), tier) for a in _quiet_items(tier, 3)]
    else:
        dips += [("quiet", (3, (a, b)), tier) for a in _quiet_items(tier, 3) for b in _quiet_items(tier, 3)]
    t3 = _overlap_tuples(3)
    dips += [("overlap", (2, None), tier)] + [("overlap", (3, a), tier) for a in sorted({t[0] for t in t3})]
    # graph: partition of the state graph by the bottom scopes of the stack
    first.append(("graph", (), tier))
    for a in opens:
        first.append(("graph", (a,), tier))
        for b in opens:
            if not _predict_fail((a[1],), b):
                rest.append(("graph", (a, b), tier))
    # hist: un-pruned histories by first op (full alphabet) / first two ops
    for op in _enabled((), A_FULL):
        st = _step((), op)
        for op2 in _enabled(st, A_FULL):
            rest.append(("hist", (op, op2), tier))
        first.insert(0, ("hist1", (op,), tier))
    for op in _enabled((), A_CORE):
        st = _step((), op)
        for op2 in _enabled(st, A_CORE):
            rest.append(("core", (op, op2), tier))
    # cycles
    for i in range(len(_cycles())):
        rest.append(("cycles", i, tier))
    # shortest histories first: the runner keeps a bounded number of failure records in arrival order
    return first + dips + rest


def _cycles():
    c = []
    for s in GOOD:
        for st in ("with", "explicit"):
            c.append((("open", s, st), ("end",)))
            c.append((("open", s, st), ("raise", 1)))
    for f in BAD + BAD_INT:
        c.append((("fail", f, 0),))
    return c


def run_shard(desc):
    kind, arg, tier = desc
    sh = Shard(PROPERTY)
    seen = set()
    if kind == "graph":
        _graph(arg, tier, sh, seen)
    elif kind in ("hist", "hist1"):
        lengths = [1] if kind == "hist1" else range(2, LF[tier] + 1)
        for n in lengths:
            for nf, h in _histories(arg, n, A_FULL):
                _exec(h, sh, tier, "hist", seen)
                sh.count("hist-faults=%d" % nf)
                if nf == 2 and len(sh.samples) < 1 and n >= 3:
                    sh.sample(dict(route="py", history=[list(o) for o in h]))
    elif kind == "core":
        for n in range(LF[tier] + 1, LC[tier] + 1):
            for nf, h in _histories(arg, n, A_CORE):
                _exec(h, sh, tier, "core", seen)
                sh.count("core-faults=%d" % nf)
    elif kind == "cycles":
        # three consecutive cycles; a triple with a repeated cycle is owned by the repeated one, an all-distinct
        # triple (thorough only) by its first cycle -> shards are disjoint
        cyc = _cycles()
        a = cyc[arg]
        triples = [(a, a, a)]
        for b in cyc:
            if b != a:
                triples += [(a, a, b), (a, b, a), (b, a, a)]
        if tier == "thorough":
            # all-distinct triples: the interrupted registrations are represented by INT_REPR here
            few = [x for x in cyc if not (x[0][0] == "fail" and x[0][1] in BAD_INT and x[0][1] not in INT_REPR)]
            if a in few:
                triples += [(a, b, c) for b in few for c in few if len({a, b, c}) == 3]
        for ctx in ((), (("open", "Q", "with"),)):
            for t3 in triples:
                _exec(ctx + tuple(itertools.chain(*t3)), sh, tier, "cycles", seen)
                sh.count("cycles")
    elif kind == "dip":
        ctx, ln = arg
        _dip_explore(ctx, [ln], LDIP[tier], sh)
    elif kind == "extra":
        for h in _extra_histories(arg):
            _exec(h, sh, tier, "extra", seen)
            sh.count("extra")
    elif kind == "dipredef":
        for body in DIPRE_BODY:
            for ctx in ("top", "inA"):
                _between_cases(sh)
                what, bad = _dipredef_case(arg, body, ctx)
                sh.evaluations += 1
                sh.traces += 1
                sh.transitions += len(arg)
                sh.nontrivial += 1
                sh.count("dipredef-" + what)
                if bad is not None:
                    _report(sh, bad)
    elif kind == "redef":
        fam, seq = arg
        modes = [(("open", None, "with"), ("end",)), (("open", None, "with"), ("raise", 1)),
                 (("open", None, "explicit"), ("end",))]
        for ctx in ((), (("open", "LM", "with"),)):
            for ms in itertools.product(modes, repeat=3):
                h = ctx
                for v, (o_, x_) in zip(seq, ms):
                    h = h + (("open", REDEF[fam][v], o_[2]), x_)
                _exec(h, sh, tier, "redef", seen)
                sh.count("redef")
    elif kind == "quiet":
        n, first = arg
        items = _quiet_items(tier, n)
        for ctx in (QUIET_CTX if n == 2 else QUIET_N3_CTX[tier]):
            for rest_ in itertools.product(items, repeat=n - len(first)):
                for h in _quiet_histories(ctx, tuple(first) + rest_):
                    _exec_quiet(h, sh)
                    sh.count("quiet-%d-%s" % (n, ctx))
    elif kind == "overlap":
        n, first = arg
        orders = _overlap_orders(n)
        for t in _overlap_tuples(n):
            if first is not None and t[0] != first:
                continue
            for ev in orders:
                for ctx in ("top", "inQ"):
                    _between_cases(sh)
                    what, bad = _overlap_case(t, ev, ctx)
                    sh.evaluations += 1
                    sh.traces += 1
                    sh.transitions += len(ev)
                    sh.nontrivial += 0 if _is_lifo(ev) else 1
                    sh.count("overlap-%s-%s" % ("lifo" if _is_lifo(ev) else "non-lifo", what))
                    if bad is not None:
                        _report(sh, bad)
    elif kind == "dipint":
        for ctx in ("top", "inA"):
            for site in DIPINT:
                for exc in EXC:
                    what, bad = _dipint_case(site, exc, ctx)
                    sh.evaluations += 1
                    sh.traces += 1
                    sh.transitions += 1
                    sh.nontrivial += 1
                    sh.count("dipint-%s-%s" % (site, what))
                    if bad is not None:
                        _report(sh, bad)
    else:
        raise HarnessError("unknown shard kind %r" % (kind,))
    sh.extra.pop("_cls", None)
    return sh


def _quick_skip(st, op):
    """quick tier only: the innermost of three scopes is opened as with-block only (the explicit style there is
    covered by hist), and in states of depth 3 failing steps unwind 0 or all 3 scopes (1 and 2: thorough)"""
    if op[0] == "open":
        return len(st) == NEST - 1 and op[2] == "explicit"
    if op[0] in ("fail", "dip") and len(st) == NEST:
        return op[2] not in (0, NEST)
    return False


def _graph_explores(hist, tier):
    """is this history (open* + one operation) executed by the graph part of this tier?"""
    if not (all(op[0] == "open" for op in hist[:-1]) and _nfaults(hist[:-1]) == 0 and _valid(hist, A_GRAPH)):
        return False
    if tier == "quick":
        if _quick_skip(tuple(op[1] for op in hist[:-1]), hist[-1]):
            return False
        if len(hist) > NEST and any(op[2] != "with" for op in hist[:NEST]):
            return False      # quick: states of depth 3 only as three nested with-blocks
    return True


def _graph(prefix, tier, sh, seen):
    """all states whose stack starts with `prefix` (exactly `prefix` if shorter than 2), every enabled op applied"""
    stack0 = tuple(op[1] for op in prefix)
    if _nfaults(prefix):
        return
    frontier = [tuple(prefix)]
    while frontier:
        nxt = []
        for h in frontier:
            st = tuple(op[1] for op in h)
            for op in _enabled(st, A_GRAPH):
                if tier == "quick" and _quick_skip(st, op):
                    continue
                r = _exec(h + (op,), sh, tier, "graph", seen)
                sh.count("graph-op:" + op[0])
                if op[0] == "open" and not _predict_fail(st, op) and len(prefix) == 2 and len(st) + 1 <= NEST:
                    if tier == "quick" and any(o[2] != "with" for o in h + (op,)):
                        continue      # quick: states of depth 3 only as three nested with-blocks
                    if r.fail is None and not r.abort:
                        nxt.append(h + (op,))
        frontier = nxt


def replay(rec):
    c = rec["case"]
    if c.get("route") == "dip":
        return _dip_case(c["ctx"], list(c["lines"]), c.get("split", 0))[1]
    if c.get("route") == "overlap":
        return _overlap_case(tuple(c["sets"]), [tuple(e) for e in c["events"]], c["ctx"])[1]
    if c.get("route") == "dipredef":
        return _dipredef_case(tuple(c["seq"]), c["body"], c["ctx"])[1]
    if c.get("route") == "dipint":
        return _dipint_case(c["site"], c["exc"], c["ctx"])[1]
    hist = [tuple(op) for op in c["history"]]
    return Run(hist, check_from=int(c.get("check_from", 0)),
               values=any(op[0] == "open" and op[1] in REDEF_ALT for op in hist), quiet=bool(c.get("quiet"))).go()


def finish(total, tier, seed):
    states = total.sets.get("states", set())
    total.states = len(states)
    h = total.hist
    need = ["last:opened", "last:exit-normal", "last:unwound", "last:construction-failed", "last:dip-ok",
            "last:dip-err", "dip-top-ok", "dip-top-err", "dip-inLM-err", "dip-split-ok",
            "last:construction-interrupted", "last:unwound-by-interrupt", "redef", "last:dropped-1", "extra",
            "quiet-used", "quiet-parse-points=0", "quiet-parse-points=1", "quiet-parse-points=2", "quiet-2-top",
            "quiet-2-inLM", "quiet-2-inQ", "quiet-3-top"]
    need += ["dipint-%s-interrupted" % site for site in DIPINT]
    missing = [k for k in need if not h.get(k)]
    # parts whose cases may all violate on a defective tree: they only have to have been executed
    missing += [pre + "*" for pre in ("overlap-non-lifo-", "overlap-lifo-", "dipredef-")
                if not any(k.startswith(pre) for k in h)]
    if missing:
        raise HarnessError("vacuous run: no case with outcome(s) %s" % missing)
    if not any(k.startswith("dip-expected-ok-observed-ok") for k in h):
        raise HarnessError("vacuous run: no demanded DIP program parsed")
    return dict(states=len(states), nesting_bound=NEST, deviation_bound=MAXFAULT,
                unpruned_length_full_alphabet=LF[tier], unpruned_length_core_alphabet=LC[tier],
                dip_program_length=LDIP[tier], good_sets=GOOD, failing_sets={k: FAULT[k] for k in BAD},
                dip_lines=len(LNAMES), dip_contexts=DIP_CTX, interrupted_registrations=BAD_INT,
                dip_sites_interrupted=sorted(DIPINT),
                quiet_sequence_items=dict(pairs=len(_quiet_items(tier, 2)), triples=len(_quiet_items(tier, 3))),
                quiet_contexts=dict(pairs=sorted(QUIET_CTX), triples=QUIET_N3_CTX[tier]),
                quiet_histories=sum(v for k, v in h.items() if k.startswith("quiet-parse-points=")),
                library_state_restored_between_cases=[x[0] for x in _HIDDEN], caps_hit=[])


MANIFEST = dict(
    text="Explicit-state exploration with fault injection on the real process-wide unit tables: (graph) every operation "
         "of the scope machine - open one of 8 unit sets as with-block or explicit environment, 11 kinds of failing "
         "registration (duplicate at position 1/2/3, duplicate of an enclosing scope's symbol, clash with a prefixed "
         "table symbol found only by the uniqueness check, malformed definition, inadmissible prefix, conversion class) "
         "and 18 registrations interrupted by a non-Exception BaseException (custom, KeyboardInterrupt, SystemExit at "
         "step 1/2/3 of the mapping iteration or of the definition access) "
         "caught after unwinding 0..3 scopes, normal end, body Exception / BaseException unwinding 1..3 scopes, DIP "
         "parses that succeed "
         "or fail inside the body - is applied in every reachable state with nesting <= 3 (about 2 000 canonical states; quick "
         "visits depth-3 states only as three nested with-blocks with unwinding distances 0/3); (hist) all un-pruned "
         "histories with <= 2 failing steps up to length 3 (quick) / 4 (thorough) over the full alphabet and 5 / 6 over "
         "a core alphabet, plus three repeated open/close cycles; (dip) every DIP line program up to 3 / 4 distinct "
         "lines over 30 lines - 16 that work ($unit definitions, float/int nodes, numerical and logical expressions, "
         "!condition, @case, options, modifications that convert) and 14 whose statement fails inside the unit scope "
         "opened by each DIP call site (node_unit, node_float, node_integer, NumberType.convert for modifications and "
         "options, numerical solver, logical solver for !condition/bool/@case: unknown unit, malformed number, refused "
         "conversion) - at depth 0, inside unrelated and clashing Python scopes and continued in a second parse; after "
         "a failed parse the text without its failing line is parsed twice more; for each of the 6 DIP call sites a second "
         "parse whose unit registration is interrupted by a BaseException; (overlap) 2-3 explicit environments opened "
         "and closed in every order, judged once all are closed; (redef/dipredef) the same symbol registered in "
         "successive scopes / DIP texts with different definitions, every plain and prefixed spelling checked for the "
         "factor and dimension of its own definition; object lifetimes (re-binding, del + gc.collect at every later "
         "point) are part of the programs; (extra) units sharing a new conversion class followed by further units, "
         "definition fields that are list objects of built-in rows (order-sensitive row comparison), bodies that "
         "mutate the dict they passed in; (quiet) 2-3 back-to-back scopes / DIP parses (10 unit sets of 1, 2 and 3 "
         "units - equal counts with different symbols included - both styles, normal / exceptional exit, 2 DIP texts; "
         "triples: with-blocks of 5 sets at depth 0 in quick, of all 10 sets at depth 0 and inside an outer scope in "
         "thorough), at depth 0 and as siblings inside "
         "an outer scope, where unit expressions are parsed ONLY at a chosen subset of points (inside scope k, between "
         "item k and k+1; every subset) and once at the end - a symbol index / look-up cache that is refreshed only "
         "when the table size changes is exposed there; library state outside the tables (module / class level "
         "containers, mutable defaults) is reset between cases and each failure record replays with the harness "
         "probing at the same points. On every transition: tables equal "
         "the scope-entry snapshot at every exit / failed construction / parse, pristine at depth 0, custom units "
         "usable inside and unknown outside.",
    note="Trusted: mc/isolation.py canonical table form (plus identity of UNIT_TYPES classes), the static stack model "
         "that says which registrations are expected to succeed, CPython reference counting. Intermediate states of "
         "non-LIFO closing, double close and environments left open are not demanded. Deeper nesting / longer histories rely on the small-scope hypothesis.",
    technique="explicit-state BFS over scope/fault histories on the real tables, invariant checked on every transition",
)
