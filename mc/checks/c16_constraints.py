"""C16 - parse() returns only environments that satisfy every declared constraint.

E2 bounded grammar enumeration.  Every program consists of ONE constrained node (type int/float/str/bool, scalar
or array) with a combination of constraints (options in all documented notations and units, !condition with every
comparison operator, anchored !format, dimension bounds, declaration) whose FINAL value is reached by the
definition alone or by 1-2 later modifications (also in another unit) and lies on / near / off the constraint
boundary; the node stands at root or inside a group between decoy nodes that carry their own constraints.
Family cond_other_node adds a SECOND node to which the condition refers (`{?} < {?b}`): the final verdict then
depends on which of the two nodes the later statements modify and - for histories of DIP(env) parses - in which
parse; the statements are executed as one parse, as definitions | modifications ("chained") and as definitions
followed by one parse per modification ("chained-each").
Oracle: the reference interpretation of the generator AST (mc/refmodels/dip_gen_c.py, exact Fractions, own unit
table): constraints satisfied  <=> parse() returns, and the returned environment equals the reference (names,
values, units, attached options/condition/format); violated <=> parse() raises.
"""
import os
import itertools

from ..common import Shard, failure, mine, HarnessError
from ..refmodels import dip_gen_c as G

PROPERTY = "C16"
LEVEL = "exploration"
RULE = ("case = distinct DIP text of one constrained node (type x constraint kinds x notation x units) with a value "
        "path (definition / 1-2 modifications / declaration) ending on, near (1e-9, 1e-5, 1e-3 relative) or off the "
        "constraint boundary, at root or inside a group between constrained decoy nodes; non-trivial = the node "
        "carries >= 1 constraint and the reference gives a verdict (accept or reject); texts are de-duplicated per "
        "family, shards partition the texts by hash.  Family cond_other_node: two nodes, the condition of one refers "
        "to the other ({?} < {?b}); case = distinct text x history of parses, enumerated over which node the later "
        "statements modify (none / referenced node / owner / both, either order) and over the split of the statements "
        "into parses (one parse; definitions | all modifications; definitions | every modification by its own "
        "DIP(env) parse)")
ASSUMPTIONS = [
    "reference interpretation of the generator AST (mc/refmodels/dip_gen_c.py): exact rational arithmetic, unit "
    "factors from a hard-coded SI table (m cm mm km J erg), equality tolerance 1e-6 relative "
    "(scinumtools.dip.settings.Numeric.PRECISION, the documentation's EQUAL_PRECISION)",
    "'parsing fails' = parse() raises any exception; 'accepted' = parse() returns and env.data() is readable",
    "not judged (statement/documentation silent): options within 1e-9 of the value, '!=' inside the tolerance, strict "
    "comparisons exactly on a threshold that was unit-converted, intermediate values violating a !condition or a "
    "dimension bound, property lines after a modification, unanchored formats, conditions/options on arrays, "
    "value 0 (C14), none against !condition / !format, values with MORE axes than declared, a missing dimension that is declared without "
    "any bound ([:]), the accept direction for int-node options that are not integral in the node's unit, "
    "conditions comparing an int node with a float node (refused by the library on purpose), conditions referring "
    "to more than one other node or to nodes of imported sources, histories in which an intermediate environment "
    "violates a constraint",
    "multi-parse histories: every DIP object gets an explicit name; a history is executed only when the reference "
    "accepts every intermediate environment; its expected final verdict is the verdict of the concatenated text",
]



def _scratch():
    return "/dev/shm/dip-C/c16-%d" % os.getpid()      # per process: workers are forked
NSHARD = dict(quick=4, thorough=8)


# ------------------------------------------------------------------------------------------------ building blocks
def D(name, typ, val, unit=None, dims=None, ind=0):
    return dict(k="def", ind=ind, name=name, type=typ, dims=dims, val=val, unit=unit)


def M(name, val, unit=None, typ=None, ind=0):
    return dict(k="mod", ind=ind, name=name, val=val, unit=unit, type=typ)


def OPT(val, unit=None):
    return dict(k="opt", ind=2, val=val, unit=unit)


def OPTS(vals, unit=None):
    return dict(k="opts", ind=2, vals=list(vals), unit=unit)


def COND(expr):
    return dict(k="cond", ind=2, expr=expr)


def FMT(rx):
    return dict(k="fmt", ind=2, re=rx)


def S(text):
    return {"s": text}


SELF = ["self"]


def place(core_def, props, mods, placement):
    """core_def: def statement of node 'a' (ind 0); props: property statements (ind 2); mods: statements for 'a'."""
    if isinstance(core_def, dict) and "core" in core_def:
        return _place_pair(core_def, props, mods, placement)
    pre = []
    if isinstance(core_def, list):             # [preceding statements..., definition]; only used at root
        pre, core_def = core_def[:-1], core_def[-1]
        if placement not in ("root", "chained", "chained-each"):
            raise HarnessError("preceding statements are only placed at root")
    before = pre + [D("z", "int", "7"), OPT("7"), OPT("8")]
    after = [D("y", "str", S("q")), FMT("^q$")]
    if placement in ("root", "chained", "chained-each"):
        return pre + [core_def] + props + mods
    if placement == "root+before":
        return before + [core_def] + props + mods
    if placement == "root+after":
        return [core_def] + props + after + mods
    grp = placement.startswith("group")
    if grp:
        out = [dict(k="group", ind=0, name="g")]
        if placement == "group+decoys":
            out += [dict(s, ind=s["ind"] + 2) for s in before]
        out.append(dict(core_def, ind=2))
        out += [dict(p, ind=4) for p in props]
        if placement == "group+decoys":
            out += [dict(s, ind=s["ind"] + 2) for s in after]
        out += [dict(m, name="g." + m["name"]) for m in mods]
        return out
    raise HarnessError("placement " + placement)


def _requalify(e, prefix):
    """node references of a condition, re-rooted below a group"""
    if isinstance(e, list):
        if e and e[0] == "node":
            return ["node", prefix + e[1]]
        return [_requalify(x, prefix) for x in e]
    return e


def _place_pair(spec, props, mods, placement):
    """spec = dict(core=definition of 'a', pre=[statements before it], post=[statements after its property lines]):
    programs of SEVERAL nodes (the condition of 'a' refers to another node); valid in every placement - inside a
    group the references of conditions and the names of the modifications are re-rooted (`{?g.b}`, `g.b = ..`)."""
    pre, core, post = spec.get("pre", []), spec["core"], spec.get("post", [])
    before = [D("z", "int", "7"), OPT("7"), OPT("8")]
    after = [D("y", "str", S("q")), FMT("^q$")]
    body = pre + [core] + props + post
    if placement in ("root", "chained", "chained-each"):
        return body + mods
    if placement == "root+before":
        return before + body + mods
    if placement == "root+after":
        return body + after + mods
    if placement in ("group", "group+decoys"):
        inner = (before if placement == "group+decoys" else []) + body + (after if placement == "group+decoys" else [])
        out = [dict(k="group", ind=0, name="g")]
        for st in inner:
            st = dict(st, ind=st["ind"] + 2)
            if st["k"] == "cond":
                st["expr"] = _requalify(st["expr"], "g.")
            out.append(st)
        return out + [dict(m, name="g." + m["name"]) for m in mods]
    raise HarnessError("placement " + placement)


PLACEMENTS = dict(quick=["root", "group+decoys", "chained", "chained-each"],
                  thorough=["root", "root+before", "root+after", "group", "group+decoys", "chained", "chained-each"])
# "chained": the definition (with its constraints) is parsed first, the modifications are parsed by a second DIP
# object on top of the returned environment (constraints of nodes of a base environment must still be enforced)
# "chained-each": a history of parses - the definition, then EVERY modification by its own DIP(env) object on top of
# the environment the previous parse returned (generated for programs with >= 2 modifications; every intermediate
# environment must be acceptable by the reference, otherwise the history is not executed)


def paths_numeric(typ, unit, final, v_ok, v_other, tier):
    """value paths ending in `final` = (text, written unit or None).

    v_ok: a value (text, in the node unit) satisfying the constraints; v_other: a value violating them (or None).
    yields (path tag, def statement, mods, conversion involved, intermediate violates)
    """
    ftxt, funit = final
    conv = funit is not None and funit != unit
    if funit is None or funit == unit:
        # the definition can carry the final value only in the node's own unit
        yield "def", D("a", typ, ftxt, unit), [], False, False
    yield "mod1", D("a", typ, v_ok, unit), [M("a", ftxt, funit)], conv, False
    if unit and funit is None:
        yield "mod1-unit-restated", D("a", typ, v_ok, unit), [M("a", ftxt, unit)], False, False
    yield "decl", D("a", typ, None, unit), [M("a", ftxt, funit)], conv, False
    if v_other is not None:
        yield "mod1-from-violating", D("a", typ, v_other, unit), [M("a", ftxt, funit)], conv, True
    yield "mod2", D("a", typ, v_ok, unit), [M("a", v_ok, None), M("a", ftxt, funit)], conv, False
    if tier == "thorough":
        yield "mod2-typed", D("a", typ, v_ok, unit), [M("a", v_ok, None), D("a", typ, ftxt, funit)], conv, False
        if v_other is not None:
            yield ("mod2-via-violating", D("a", typ, v_ok, unit), [M("a", v_other, None), M("a", ftxt, funit)],
                   conv, True)


# ------------------------------------------------------------------------------------------------ families
def fam_num_options(tier):
    """int/float node, options 2 3 5 (node unit) in every notation"""
    for typ, unit in itertools.product(("int", "float"), (None, "m")):
        forms = [("per-line", [OPT("2"), OPT("3"), OPT("5")]),
                 ("list", [OPTS(["2", "3", "5"])]),
                 ("two-lists", [OPTS(["2"]), OPTS(["3", "5"])])]
        if unit:
            forms += [("per-line-units", [OPT("200", "cm"), OPT("3", "m"), OPT("5")]),
                      ("list-other-unit", [OPTS(["200", "300", "500"], "cm")]),
                      ("two-lists-two-units", [OPTS(["2"], "m"), OPTS(["300", "500"], "cm")]),
                      ("per-line+list", [OPT("2"), OPTS(["300", "500"], "cm")]),
                      ("list-km", [OPTS(["0.002", "0.003", "0.005"], "km")] if typ == "float" else
                       [OPTS(["2000", "3000", "5000"], "mm")]),
                      # the same NUMERALS listed in two units are different options
                      ("same-numerals-cm-then-m", [OPTS(["2", "3", "5"], "cm"), OPTS(["2", "3", "5"], "m")]),
                      ("same-numerals-m-then-cm", [OPTS(["2", "3", "5"], "m"), OPTS(["2", "3", "5"], "cm")]),
                      ("same-numerals-mm-cm-plain", [OPTS(["2", "3", "5"], "mm"), OPTS(["2", "3", "5"], "cm"),
                                                     OPTS(["2", "3", "5"])]),
                      ("same-numeral-per-line", [OPT("5", "cm"), OPT("5", "m"), OPT("3", "mm"), OPT("3")]),
                      ("same-numeral-plain-then-unit", [OPT("3"), OPT("3", "cm"), OPT("5", "km"), OPT("5", "m")])]
        finals = [("on", ("3", None)), ("on", ("5", None)), ("off", ("4", None)), ("off", ("7", None))]
        if unit:
            finals += [("on-converted", ("300", "cm")), ("on-converted", ("2000", "mm")),
                       ("off-converted", ("400", "cm"))]
        if typ == "float":
            finals += [("off-1e-5", ("3.00003", None)), ("off-1e-3", ("3.003", None)), ("off-1e-3", ("2.997", None))]
            if unit:
                finals += [("on-converted", ("0.005", "km")), ("off-1e-3", ("300.3", "cm")),
                           ("off-1e-5", ("500.005", "cm")), ("small", ("3", "cm")), ("small", ("5", "mm")),
                           ("small", ("0.03", None)), ("large", ("5", "km"))]
        for (fname, props), (ftag, final) in itertools.product(forms, finals):
            for ptag, d, mods, conv, interm in paths_numeric(typ, unit, final, "2", "9", tier):
                tags = ["type=" + typ, "unit=" + str(unit), "kind=options", "form=" + fname, "final=" + ftag,
                        "path=" + ptag] + (["intermediate-violates"] if interm else [])
                yield tags, d, props, mods


def fam_int_options_nonintegral(tier):
    """int node in m with options 250 cm / 350 cm (2.5 m, 3.5 m): no integer value equals them (compared after
    conversion into the node's unit).  Only the reject direction is judged - whether such an option list may be
    declared at all is not said anywhere, a final value that equals none of the options must fail either way."""
    forms = [("per-line", [OPT("250", "cm"), OPT("350", "cm")]), ("list", [OPTS(["250", "350"], "cm")]),
             ("list-mm", [OPTS(["2500", "3500"], "mm")])]
    for (fname, props), ftxt in itertools.product(forms, ("2", "3", "4")):
        for final in [(ftxt, None), (ftxt + "00", "cm")]:
            for ptag, d, mods, conv, interm in paths_numeric("int", "m", final, ftxt, None, tier):
                if ptag not in ("def", "mod1", "decl"):
                    continue
                yield (["type=int", "unit=m", "kind=options", "form=" + fname, "options=non-integral",
                        "final=" + ftxt, "path=" + ptag], d, props, mods)


def fam_magnitude(tier):
    """equality (options, ==, !=) on values of small (1e-7) and large (1e7) magnitude: the documented precision is
    relative, so values a factor 2-5 apart are different whatever their magnitude.  Values closer than 5e-8 in
    absolute terms are not generated (numpy's implicit absolute tolerance 1e-8 would call them equal)."""
    # (tag, node unit, options forms, accepted finals, rejected finals); finals = (text, written unit)
    sets = [
        ("1e-7-s", "s",
         [("per-line-ns", [OPT("100", "ns"), OPT("200", "ns")]), ("list-ns", [OPTS(["100", "200"], "ns")]),
          ("list-s", [OPTS(["1e-7", "2e-7"], "s")]), ("list-plain", [OPTS(["1e-7", "2e-7"])]),
          ("two-units", [OPT("1e-7"), OPTS(["0.2"], "us")])],
         [("1e-7", None), ("2e-7", None), ("200", "ns"), ("0.2", "us"), ("0.1", "us")],
         [("5e-7", None), ("3e-7", None), ("500", "ns"), ("300", "ns"), ("0.5", "us"), ("4e-7", "s"), ("1e-6", None)]),
        ("1e-7-plain", None,
         [("per-line", [OPT("1e-7"), OPT("2e-7")]), ("list", [OPTS(["1e-7", "2e-7"])]),
          ("two-lists", [OPTS(["1e-7"]), OPTS(["2e-7"])])],
         [("1e-7", None), ("2e-7", None), ("0.0000002", None)],
         [("5e-7", None), ("3e-7", None), ("4e-7", None), ("1e-6", None)]),
        ("1e-9-s", "s",
         [("per-line-ns", [OPT("1", "ns"), OPT("2", "ns")]), ("list-s", [OPTS(["1e-9", "2e-9"], "s")]),
          ("list-plain", [OPTS(["1e-9", "2e-9"])])],
         [("1e-9", None), ("2e-9", None), ("2", "ns"), ("0.001", "us")],
         [("5e-9", None), ("3e-9", None), ("5", "ns"), ("1.5", "ns"), ("1.00001e-9", None), ("0.003", "us")]),
        ("1e-12-plain", None,
         [("per-line", [OPT("1e-12"), OPT("2e-12")]), ("list", [OPTS(["1e-12", "2e-12"])])],
         [("1e-12", None), ("2e-12", None), ("1.000000000001e-12", None)],
         [("5e-12", None), ("3e-12", None), ("1.5e-12", None), ("1.00001e-12", None), ("1e-13", None)]),
        ("1e-12-s", "s",
         [("list-ns", [OPTS(["0.001", "0.002"], "ns")]), ("list-plain", [OPTS(["1e-12", "2e-12"])])],
         [("1e-12", None), ("0.002", "ns")],
         [("5e-12", None), ("0.003", "ns"), ("1e-11", None)]),
        ("1e7-m", "m",
         [("list", [OPTS(["1e7", "2e7"])]), ("list-km", [OPTS(["10000", "20000"], "km")])],
         [("1e7", None), ("20000000", None), ("10000", "km")],
         [("10000100", None), ("3e7", None), ("10010", "km"), ("5e7", None)]),
    ]
    for stag, unit, forms, good, bad in sets:
        v_ok = good[0][0]
        finals = [("on", f) for f in good] + [("off", f) for f in bad]
        # options
        for (fname, props), (ftag, final) in itertools.product(forms, finals):
            for ptag, d, mods, conv, interm in paths_numeric("float", unit, final, v_ok, None, tier):
                if tier != "thorough" and ptag not in ("def", "mod1", "decl"):
                    continue
                yield (["type=float", "unit=" + str(unit), "kind=options", "magnitude=" + stag, "form=" + fname,
                        "final=" + ftag, "path=" + ptag], d, props, mods)
        # == / != conditions against the first two accepted values
        a = ["num", good[0][0], unit]
        b = ["num", good[1][0], unit]
        a2 = ["num", G.dec(G.F(good[0][0]) * 10 ** 9), "ns"] if unit == "s" else a
        conds = [("eq", ["cmp", "==", SELF, a]), ("eq-reversed", ["cmp", "==", a, SELF]),
                 ("eq-or-eq", ["or", ["cmp", "==", SELF, a], ["cmp", "==", SELF, b]]),
                 ("ne", ["cmp", "!=", SELF, a]), ("ne-and-ne", ["and", ["cmp", "!=", SELF, a], ["cmp", "!=", SELF, b]]),
                 ("eq-other-unit", ["cmp", "==", SELF, a2]), ("ne-other-unit", ["cmp", "!=", a2, SELF]),
                 ("le-and-ge", ["and", ["cmp", "<=", SELF, b], ["cmp", ">=", SELF, a]]),
                 # strict comparisons only against thresholds between the values (never exactly on a boundary)
                 ("lt-or-gt", ["or", ["cmp", "<", SELF, ["num", G.dec(G.F(good[0][0]) * 2 / 5), unit]],
                               ["cmp", ">", SELF, ["num", G.dec(G.F(good[0][0]) * 17 / 10), unit]]])]
        for (cname, expr), (ftag, final) in itertools.product(conds, finals):
            for ptag, d, mods, conv, interm in paths_numeric("float", unit, final, final[0] if final[1] is None
                                                             else v_ok, None, tier):
                if tier != "thorough" and ptag not in ("def", "mod1", "decl"):
                    continue
                if interm:
                    continue
                yield (["type=float", "unit=" + str(unit), "kind=condition", "magnitude=" + stag, "cond=" + cname,
                        "final=" + ftag, "path=" + ptag], d, [COND(expr)], mods)


OPS = ("<", "<=", ">", ">=", "==", "!=")


def fam_num_condition(tier):
    """int/float node with one !condition: every operator, both orientations, thresholds in the same / another unit"""
    for typ, unit in itertools.product(("int", "float"), (None, "m")):
        thr = [("same", ["num", "3", unit])]
        if unit:
            thr.append(("other-unit", ["num", "300", "cm"]))
        if typ == "float":
            finals = [("below-1e-3", "2.997"), ("below-1e-9", "2.999999997"), ("on", "3"),
                      ("above-1e-9", "3.000000003"), ("above-1e-5", "3.00003"), ("above-1e-3", "3.003")]
        else:
            finals = [("below", "2"), ("on", "3"), ("above", "4")]
        conds = []
        for op, (tname, t) in itertools.product(OPS, thr):
            conds.append(("self-%s-T" % op, tname, ["cmp", op, SELF, t], op))
            conds.append(("T-%s-self" % op, tname, ["cmp", op, t, SELF], op))
        for cname, tname, expr, op in conds:
            for ftag, ftxt in finals:
                wr = [(ftxt, None)]
                if unit and ftag in ("below-1e-3", "above-1e-3", "below", "above", "on"):
                    wr.append((G.dec(G.F(ftxt) * 100), "cm"))
                for final in wr:
                    for ptag, d, mods, conv, interm in paths_numeric(typ, unit, final, ftxt, None, tier):
                        if ptag in ("mod2", "mod2-typed") and tier != "thorough":
                            continue
                        noise = (conv or tname == "other-unit")
                        if ftag == "on" and noise and op in ("<", ">", "!="):
                            continue      # float noise of a unit conversion exactly on a strict boundary: not judged
                        tags = ["type=" + typ, "unit=" + str(unit), "kind=condition", "cond=" + cname,
                                "threshold=" + tname, "final=" + ftag, "path=" + ptag]
                        yield tags, d, [COND(expr)], mods
    # int nodes compared with thresholds that are NOT integral in the node's unit (250 cm = 2.5 m): the threshold must
    # not be rounded or truncated to the node's data type.  Values 2, 3, 4 lie on both sides of 2.5 and of 3.5.
    for unit in ("m", None):
        if unit:
            thr = [("250-cm", ["num", "250", "cm"]), ("350-cm", ["num", "350", "cm"]),
                   ("2500-mm", ["num", "2500", "mm"]), ("0.0025-km", ["num", "0.0025", "km"]),
                   ("0.0035-km", ["num", "0.0035", "km"]), ("2.5-m", ["num", "2.5", "m"])]
        else:
            thr = [("2.5", ["num", "2.5", None]), ("3.5", ["num", "3.5", None])]
        conds = []
        for op, (tname, t) in itertools.product(OPS, thr):
            conds.append(("self-%s-T" % op, tname, ["cmp", op, SELF, t]))
            conds.append(("T-%s-self" % op, tname, ["cmp", op, t, SELF]))
        lo, hi = (["num", "250", "cm"], ["num", "350", "cm"]) if unit else (["num", "2.5", None], ["num", "3.5", None])
        conds.append(("interval", "250-350", ["and", ["cmp", ">", SELF, lo], ["cmp", "<", SELF, hi]]))
        conds.append(("outside", "250-350", ["or", ["cmp", "<", SELF, lo], ["cmp", ">=", SELF, hi]]))
        for (cname, tname, expr), ftxt in itertools.product(conds, ("2", "3", "4")):
            wr = [(ftxt, None)] + ([(ftxt + "00", "cm")] if unit else [])
            for final in wr:
                for ptag, d, mods, conv, interm in paths_numeric("int", unit, final, ftxt, None, tier):
                    if tier != "thorough" and ptag not in ("def", "mod1", "decl"):
                        continue
                    tags = ["type=int", "unit=" + str(unit), "kind=condition", "cond=" + cname,
                            "threshold=non-integral:" + tname, "final=" + ftxt, "path=" + ptag]
                    yield tags, d, [COND(expr)], mods
    # compound conditions (documented interval form, disjunction, negation), float and int
    for typ, unit in itertools.product(("int", "float"), (None, "m")):
        u = unit
        lo, hi = ["num", "2", u], ["num", "4", u]
        lo2 = ["num", "200", "cm"] if unit else lo
        comp = [("interval", ["and", ["cmp", "<", lo, SELF], ["cmp", "<", SELF, hi]]),
                ("interval-mixed-units", ["and", ["cmp", "<", lo2, SELF], ["cmp", "<=", SELF, hi]]),
                ("outside", ["or", ["cmp", "<", SELF, lo], ["cmp", ">", SELF, hi]]),
                ("not-less", ["not", ["par", ["cmp", "<", SELF, lo]]]),
                ("eq-or-eq", ["or", ["cmp", "==", SELF, lo], ["cmp", "==", SELF, hi]]),
                ("eq-and-true", ["and", ["cmp", "==", SELF, lo], ["bool", True]])]
        if typ == "float":
            finals = ["1.5", "1.998", "2", "2.002", "3", "3.996", "4", "4.004", "6"]
        else:
            finals = ["1", "2", "3", "4", "6"]
        for (cname, expr), ftxt in itertools.product(comp, finals):
            if cname == "interval-mixed-units" and ftxt == "2":
                continue                  # strict comparison exactly on a converted threshold: not judged
            for ptag, d, mods, conv, interm in paths_numeric(typ, unit, (ftxt, None), ftxt, None, tier):
                if ptag.startswith("mod2") and tier != "thorough":
                    continue
                tags = ["type=" + typ, "unit=" + str(unit), "kind=condition", "cond=" + cname, "final=" + ftxt,
                        "path=" + ptag]
                yield tags, d, [COND(expr)], mods


def fam_num_pairs(tier):
    """options x condition on one numeric node, all four satisfied/violated combinations"""
    for typ, unit in itertools.product(("int", "float"), (None, "m")):
        oforms = [("per-line", [OPT("2"), OPT("3"), OPT("5")]), ("list", [OPTS(["2", "3", "5"])])]
        if unit:
            oforms.append(("list-other-unit", [OPTS(["200", "300", "500"], "cm")]))
        conds = [("gt", ["cmp", ">", SELF, ["num", "2.5" if typ == "float" else "2", unit]]),
                 ("le", ["cmp", "<=", SELF, ["num", "3", unit]]),
                 ("interval", ["and", ["cmp", "<", ["num", "2", unit], SELF], ["cmp", "<", SELF, ["num", "5", unit]]])]
        finals = ["1", "2", "3", "4", "5"]
        for (oname, oprops), (cname, cexpr), ftxt, order in itertools.product(oforms, conds, finals, (0, 1)):
            props = oprops + [COND(cexpr)] if order == 0 else [COND(cexpr)] + oprops
            for ptag, d, mods, conv, interm in paths_numeric(typ, unit, (ftxt, None), "3", None, tier):
                if ptag.startswith("mod2") and tier != "thorough":
                    continue
                tags = ["type=" + typ, "unit=" + str(unit), "kind=options+condition", "form=" + oname,
                        "cond=" + cname, "final=" + ftxt, "path=" + ptag, "order=%d" % order]
                yield tags, d, props, mods
            if unit:
                d = D("a", typ, "3", unit)
                mods = [M("a", str(int(ftxt) * 100), "cm")]
                yield (["type=" + typ, "unit=" + unit, "kind=options+condition", "form=" + oname, "cond=" + cname,
                        "final=" + ftxt, "path=mod1-converted", "order=%d" % order], d, props, mods)


STR_VALUES = ["abc", "Abc", "abd", "123", "ab1", "XYZ", "ab c", ""]
STR_FORMATS = [("lower", "^[a-z]+$"), ("capitalised", "^[A-Z][a-z]*$"), ("three-digits", "^\\d{3}$"),
               ("lower-or-empty", "^[a-z]*$"), ("digits-or-empty", "^\\d*$")]


def _str_paths(final, ok, other, tier):
    yield "def", D("a", "str", S(final)), [], False
    yield "mod1", D("a", "str", S(ok)), [M("a", S(final))], False
    yield "decl", D("a", "str", None), [M("a", S(final))], False
    if other is not None:
        yield "mod1-from-violating", D("a", "str", S(other)), [M("a", S(final))], True
    if tier == "thorough":
        yield "mod2", D("a", "str", S(ok)), [M("a", S(ok)), M("a", S(final))], False
        yield "mod1-typed", D("a", "str", S(ok)), [D("a", "str", S(final))], False


def fam_str(tier):
    """string node: options (3 notations), !format (3 anchored expressions), !condition (==, !=, ||), all subsets"""
    oforms = [("per-line-bare", [OPT(dict(s="abc", bare=True)), OPT(dict(s="Abc", bare=True)),
                                  OPT(dict(s="123", bare=True))]),
              ("per-line-quoted", [OPT(S("abc")), OPT(S("Abc")), OPT(S("123"))]),
              ("list", [OPTS([S("abc"), S("Abc"), S("123")])]),
              ("two-lists", [OPTS([S("abc")]), OPTS([S("Abc"), S("123")])])]
    conds = [("eq", ["cmp", "==", SELF, ["str", "abc"]]),
             ("eq-reversed", ["cmp", "==", ["str", "abc"], SELF]),
             ("ne", ["cmp", "!=", SELF, ["str", "abc"]]),
             ("eq-or-eq", ["or", ["cmp", "==", SELF, ["str", "abc"]], ["cmp", "==", SELF, ["str", "Abc"]]]),
             ("ne-and-ne", ["and", ["cmp", "!=", SELF, ["str", "abd"]], ["cmp", "!=", SELF, ["str", "XYZ"]]])]
    combos = []
    for o in [None] + oforms:
        for f in [None] + STR_FORMATS:
            for c in [None] + conds:
                if o is None and f is None and c is None:
                    continue
                n = sum(x is not None for x in (o, f, c))
                if n == 3 and tier != "thorough" and (o[0] not in ("per-line-bare", "list") or c[0] not in ("eq", "ne")):
                    continue
                combos.append((o, f, c))
    for (o, f, c), final in itertools.product(combos, STR_VALUES):
        props, kinds, tg = [], [], []
        if o:
            props += o[1]
            kinds.append("options")
            tg.append("form=" + o[0])
        if f:
            props.append(FMT(f[1]))
            kinds.append("format")
            tg.append("format=" + f[0])
        if c:
            props.append(COND(c[1]))
            kinds.append("condition")
            tg.append("cond=" + c[0])
        for ptag, d, mods, interm in _str_paths(final, "abc", "ab1", tier):
            if interm and c is not None:
                continue                  # intermediate value violating a !condition: not judged
            tags = ["type=str", "kind=" + "+".join(kinds), "final=" + final, "path=" + ptag] + tg \
                + (["intermediate-violates"] if interm else [])
            yield tags, d, props, mods
        if len(props) >= 2 and tier == "thorough":
            yield (["type=str", "kind=" + "+".join(kinds), "final=" + final, "path=def", "props-reversed"] + tg,
                   D("a", "str", S(final)), props[::-1], [])


def fam_none_with_options(tier):
    """a node that lists options and whose FINAL value is none: none is not one of the options -> parse() must fail
    (conditions and formats on none stay unjudged)"""
    for typ, unit in (("int", None), ("int", "m"), ("float", None), ("float", "m"), ("str", None)):
        if typ == "str":
            ok, forms = S("abc"), [("per-line", [OPT(S("abc")), OPT(S("xyz"))]), ("list", [OPTS([S("abc"), S("xyz")])])]
        else:
            ok, forms = "3", [("per-line", [OPT("2"), OPT("3")]), ("list", [OPTS(["2", "3"])])]
            if unit:
                forms.append(("list-other-unit", [OPTS(["200", "300"], "cm")]))
        for fname, props in forms:
            base = ["type=" + typ, "unit=" + str(unit), "kind=options", "form=" + fname, "final=none"]
            yield base + ["path=mod1"], D("a", typ, ok, unit), props, [M("a", G.NONE)]
            yield base + ["path=mod2"], D("a", typ, ok, unit), props, [M("a", ok), M("a", G.NONE)]
            yield base + ["path=decl"], D("a", typ, None, unit), props, [M("a", G.NONE)]
            if unit is None:
                yield base + ["path=def"], D("a", typ, G.NONE, unit), props, []
            # controls: emptied and refilled with a listed value / with a value off the list
            yield base + ["path=none-then-listed"], D("a", typ, ok, unit), props, [M("a", G.NONE), M("a", ok)]
            yield (base + ["path=none-then-unlisted"], D("a", typ, ok, unit), props,
                   [M("a", G.NONE), M("a", S("nope") if typ == "str" else "9")])


def RF(path, sl=None):
    return {"src": None, "path": path, "slice": sl}


def fam_options_by_ref(tier):
    """option lists given BY REFERENCE (`!options {?allowed}`, `= {?one}`): the options are the referenced node's
    current values in the unit the line states, else in the referenced node's unit (root / chained placement only)"""
    def arr(typ, vals, unit, name="allowed"):
        return D(name, typ, list(vals), unit, [[len(vals), len(vals)]])
    cases = []   # (tag, type, preceding statements, node unit, property lines, accepted finals, rejected finals)
    for typ in ("float", "int"):
        A3 = ["1", "2", "3"]
        m = arr(typ, A3, "m")
        plain = arr(typ, A3, None)
        cm = arr(typ, ["100", "200", "300"], "cm")
        four = arr(typ, ["1", "2", "3", "4"], "m")
        cases += [
            ("src-m-node-cm", typ, [m], "cm", [dict(k="opts", ind=2, ref=RF("allowed"), unit=None)],
             [("200", None), ("3", "m"), ("100", "cm")], [("2", None), ("250", None), ("4", "m"), ("3", None)]),
            ("src-m-node-m", typ, [m], "m", [dict(k="opts", ind=2, ref=RF("allowed"), unit=None)],
             [("2", None), ("300", "cm")], [("4", None), ("200", None), ("20", "cm")]),
            ("src-cm-node-m", typ, [cm], "m", [dict(k="opts", ind=2, ref=RF("allowed"), unit=None)],
             [("2", None), ("300", "cm")], [("200", None), ("4", None)]),
            ("src-plain-node-cm", typ, [plain], "cm", [dict(k="opts", ind=2, ref=RF("allowed"), unit=None)],
             [("2", None), ("3", "cm")], [("200", None), ("4", None), ("2", "m")]),
            ("src-plain-node-plain", typ, [plain], None, [dict(k="opts", ind=2, ref=RF("allowed"), unit=None)],
             [("2", None)], [("4", None), ("200", None)]),
            ("src-m-stated-cm", typ, [m], "cm", [dict(k="opts", ind=2, ref=RF("allowed"), unit="cm")],
             [("2", None), ("3", "cm")], [("200", None), ("2", "m")]),
            ("src-plain-stated-m", typ, [plain], "cm", [dict(k="opts", ind=2, ref=RF("allowed"), unit="m")],
             [("200", None), ("3", "m")], [("2", None), ("400", None)]),
            ("sliced", typ, [four], "cm", [dict(k="opts", ind=2, ref=RF("allowed", [[1, 3]]), unit=None)],
             [("200", None), ("3", "m")], [("100", None), ("4", "m"), ("2", None)]),
            ("source-modified-before", typ, [m, M("allowed", ["4", "5", "6"])], "cm",
             [dict(k="opts", ind=2, ref=RF("allowed"), unit=None)],
             [("500", None), ("6", "m")], [("200", None), ("5", None)]),
        ] + ([] if typ == "int" else [
            # not generated for int: an int array modified in another unit holds converted (float) numbers whose raw
            # form `4.0` cannot be cast to an int option (observed; integer conversion results belong to C14)
            ("source-modified-other-unit", typ, [m, M("allowed", ["400", "500", "600"], "cm")], "cm",
             [dict(k="opts", ind=2, ref=RF("allowed"), unit=None)],
             [("500", None), ("6", "m")], [("200", None), ("5", None)]),
        ]) + [
            ("two-lists", typ, [m], "cm", [dict(k="opts", ind=2, ref=RF("allowed"), unit=None), OPTS(["5"], "m")],
             [("200", None), ("500", None), ("5", "m")], [("2", None), ("5", None), ("400", None)]),
            ("per-line-ref", typ, [D("one", typ, "2", "m")], "cm",
             [OPT({"ref": RF("one")}), OPT("3", "m")], [("200", None), ("3", "m")], [("2", None), ("100", None)]),
            ("per-line-ref-stated-unit", typ, [D("one", typ, "2", "m")], "cm",
             [OPT({"ref": RF("one")}, "cm"), OPT("3", "m")], [("2", None), ("300", None)], [("200", None)]),
        ]
    sa = D("allowed", "str", [S("ab"), S("cd"), S("007")], None, [[3, 3]])
    cases += [("str-list", "str", [sa], None, [dict(k="opts", ind=2, ref=RF("allowed"), unit=None)],
               [(S("cd"), None), (S("007"), None)], [(S("xy"), None), (S("7"), None), (S("abcd"), None)]),
              ("str-sliced", "str", [sa], None, [dict(k="opts", ind=2, ref=RF("allowed", [[None, 2]]), unit=None)],
               [(S("ab"), None)], [(S("007"), None)]),
              ("str-per-line-ref", "str", [D("one", "str", S("cd"))], None, [OPT({"ref": RF("one")}), OPT(S("ef"))],
               [(S("cd"), None), (S("ef"), None)], [(S("ab"), None)])]
    for tag, typ, pre, unit, props, good, bad in cases:
        v_ok = good[0][0] if good[0][1] is None else None
        for ftag, (ftxt, funit) in [("on", f) for f in good] + [("off", f) for f in bad]:
            base = ["type=" + typ, "unit=" + str(unit), "kind=options", "options-by-reference=" + tag,
                    "final=" + ftag, "root-only"]
            if funit is None or funit == unit:
                yield base + ["path=def"], pre + [D("a", typ, ftxt, unit)], props, []
            if v_ok is not None:
                yield base + ["path=mod1"], pre + [D("a", typ, v_ok, unit)], props, [M("a", ftxt, funit)]
                yield (base + ["path=mod2"], pre + [D("a", typ, v_ok, unit)], props,
                       [M("a", v_ok), M("a", ftxt, funit)])
            yield base + ["path=decl"], pre + [D("a", typ, None, unit)], props, [M("a", ftxt, funit)]


NUMLIKE = [("007", "7"), ("1.10", "1.1"), ("1e3", "1000"), ("-0", "0"), ("1_0", "10"), ("nan", "NaN"),
           ("inf", "Infinity"), ("+5", "5"), (".5", "0.5"), ("0x10", "16")]


def fam_str_numeric(tier):
    """string nodes whose text looks like a number: == / != / options compare TEXT (007 is not 7, 1.10 is not 1.1,
    nan equals nan); literals are always quoted"""
    for x, y in NUMLIKE:
        conds = [("eq-x", ["cmp", "==", SELF, ["str", x]]), ("x-eq", ["cmp", "==", ["str", x], SELF]),
                 ("ne-x", ["cmp", "!=", SELF, ["str", x]]), ("eq-y", ["cmp", "==", SELF, ["str", y]]),
                 ("ne-y", ["cmp", "!=", ["str", y], SELF]),
                 ("eq-x-or-eq-other", ["or", ["cmp", "==", SELF, ["str", x]], ["cmp", "==", SELF, ["str", "zz"]]]),
                 ("ne-x-and-ne-y", ["and", ["cmp", "!=", SELF, ["str", x]], ["cmp", "!=", SELF, ["str", y]]])]
        props_sets = [("condition", "cond=" + c, [COND(e)]) for c, e in conds]
        props_sets += [("options", "form=per-line", [OPT(S(x)), OPT(S("zz"))]),
                       ("options", "form=list", [OPTS([S(x), S("zz")])]),
                       ("options", "form=list-y", [OPTS([S(y)])])]
        for (kind, ptag, props), final in itertools.product(props_sets, (x, y, "zz")):
            base = ["type=str", "kind=" + kind, ptag, "numeric-looking=" + x, "final=" + final]
            yield base + ["path=def"], D("a", "str", S(final)), props, []
            if kind == "options" or tier == "thorough":
                yield base + ["path=mod1"], D("a", "str", S(x)), props, [M("a", S(final))]
            yield base + ["path=decl"], D("a", "str", None), props, [M("a", S(final))]


def _mixed_forms(atoms3, atoms4=None):
    """unparenthesised mixes of || and &&; && binds tighter (documented priorities 3 and 4)"""
    a, b, c = atoms3
    yield "a||b&&c", ["or", a, ["and", b, c]]
    yield "a&&b||c", ["or", ["and", a, b], c]
    if atoms4:
        a, b, c, d = atoms4
        yield "a||b&&c||d", ["or", ["or", a, ["and", b, c]], d]
        yield "a&&b||c&&d", ["or", ["and", a, b], ["and", c, d]]
        yield "a||b||c&&d", ["or", ["or", a, b], ["and", c, d]]
        yield "a&&b&&c||d", ["or", ["and", ["and", a, b], c], d]


def fam_mixed_logic(tier):
    """conditions mixing || and && without parentheses: every truth assignment of the operands is reached by
    choosing, per position, an atom that is true or false for the node's final value"""
    specs = []
    # (type, unit, final value, per-position true atoms, per-position false atoms)
    for typ, unit in (("int", None), ("int", "m"), ("float", None), ("float", "m")):
        def N(t, u=unit):
            return ["num", t, u]
        alt = (lambda t: ["num", str(int(t) * 100), "cm"]) if unit else N
        T = [["cmp", "==", SELF, N("3")], ["cmp", "<=", SELF, alt("20")], ["cmp", ">=", SELF, N("2")],
             ["cmp", "<", alt("1"), SELF]]
        Fa = [["cmp", "==", SELF, alt("4")], ["cmp", ">", SELF, N("5")], ["cmp", ">=", SELF, alt("10")],
              ["cmp", "!=", SELF, N("3")]]
        specs.append((typ, unit, "3", T, Fa))
    Ts = [["cmp", "==", SELF, ["str", "abc"]], ["cmp", "!=", SELF, ["str", "abd"]], ["cmp", "==", ["str", "abc"], SELF],
          ["cmp", "!=", SELF, ["str", "XYZ"]]]
    Fs = [["cmp", "==", SELF, ["str", "xyz"]], ["cmp", "!=", SELF, ["str", "abc"]], ["cmp", "==", SELF, ["str", "Abc"]],
          ["cmp", "==", ["str", "abd"], SELF]]
    specs.append(("str", None, S("abc"), Ts, Fs))
    for bv in (True, False):
        Tb = [SELF if bv else ["not", SELF], ["cmp", "==", SELF, ["bool", bv]], ["bool", True],
              ["cmp", "!=", SELF, ["bool", not bv]]]
        Fb = [["not", SELF] if bv else SELF, ["cmp", "==", SELF, ["bool", not bv]], ["bool", False],
              ["cmp", "!=", SELF, ["bool", bv]]]
        specs.append(("bool", None, bv, Tb, Fb))
    for typ, unit, final, T, Fa in specs:
        for n in (3, 4):
            if n == 4 and tier != "thorough" and not (typ == "int" and unit is None):
                continue
            for assign in itertools.product((True, False), repeat=n):
                atoms = [(T if v else Fa)[i] for i, v in enumerate(assign)]
                forms = list(_mixed_forms(atoms[:3], atoms if n == 4 else None))
                forms = forms[:2] if n == 3 else forms[2:]
                for fname, expr in forms:
                    tg = ["type=" + typ, "unit=" + str(unit), "kind=condition", "cond=mixed:" + fname,
                          "truth=" + "".join("T" if v else "F" for v in assign)]
                    d0 = D("a", typ, final, unit)
                    yield tg + ["path=def"], d0, [COND(expr)], []
                    yield tg + ["path=mod1"], d0, [COND(expr)], [M("a", final)]
                    yield tg + ["path=decl"], D("a", typ, None, unit), [COND(expr)], [M("a", final)]
    # the documented style "exact value or inside an interval", over values in / outside both alternatives
    for typ, unit in (("int", None), ("float", "m")):
        u = unit
        e1 = ["or", ["cmp", "==", SELF, ["num", "1", u]],
              ["and", ["cmp", "<=", SELF, ["num", "20", u]], ["cmp", ">=", SELF, ["num", "10", u]]]]
        e2 = ["or", ["and", ["cmp", ">=", SELF, ["num", "10", u]], ["cmp", "<=", SELF, ["num", "20", u]]],
              ["cmp", "==", SELF, ["num", "1", u]]]
        e3 = ["or", ["cmp", "==", SELF, ["num", "1000", u]],
              ["and", ["cmp", ">=", SELF, ["num", "1", u]], ["cmp", "<=", SELF, ["num", "64", u]]]]
        for (ename, expr), ftxt in itertools.product((("value-or-interval", e1), ("interval-or-value", e2),
                                                     ("large-value-or-interval", e3)),
                                                    ("1", "5", "10", "15", "20", "30", "64", "1000")):
            tg = ["type=" + typ, "unit=" + str(unit), "kind=condition", "cond=mixed:" + ename, "final=" + ftxt]
            yield tg + ["path=def"], D("a", typ, ftxt, unit), [COND(expr)], []
            yield tg + ["path=mod1"], D("a", typ, "15", unit), [COND(expr)], [M("a", ftxt)]


def fam_bool(tier):
    """boolean node with !condition"""
    conds = [("eq-true", ["cmp", "==", SELF, ["bool", True]]), ("eq-false", ["cmp", "==", SELF, ["bool", False]]),
             ("true-eq", ["cmp", "==", ["bool", True], SELF]),
             ("ne-false", ["cmp", "!=", SELF, ["bool", False]]),
             ("self", SELF), ("not-self", ["not", SELF]),
             ("self-and-true", ["and", SELF, ["bool", True]]), ("self-or-false", ["or", SELF, ["bool", False]]),
             ("eq-true-and-true", ["and", ["cmp", "==", SELF, ["bool", True]], ["bool", True]])]
    for (cname, expr), final in itertools.product(conds, (True, False)):
        paths = [("def", D("a", "bool", final), []),
                 ("mod1", D("a", "bool", final), [M("a", final)]),
                 ("decl", D("a", "bool", None), [M("a", final)]),
                 ("mod2", D("a", "bool", final), [M("a", final), M("a", final)]),
                 ("mod1-typed", D("a", "bool", final), [D("a", "bool", final)])]
        for ptag, d, mods in paths:
            yield ["type=bool", "kind=condition", "cond=" + cname, "final=%s" % final, "path=" + ptag], d, [COND(expr)], mods


def fam_declared(tier):
    """declared nodes must receive a value"""
    sample = dict(int=("3", [["1", "2"]]), float=("2.5", [["1.5", "2.5"]]), str=(S("abc"), [[S("a"), S("b")]]),
                  bool=(True, [[True, False]]))
    for typ in ("int", "float", "str", "bool"):
        units = (None, "m") if typ in ("int", "float") else (None,)
        for unit in units:
            sval, arrs = sample[typ]
            for dims, val in [(None, sval), ([[2, 2]], arrs[0]), ([[1, None]], arrs[0])]:
                arr = dims is not None
                for props_name, props in [("none", []), ("options", None), ("condition", None)]:
                    if props is None:
                        if arr:
                            continue
                        if props_name == "options":
                            if typ == "bool":
                                continue
                            props = [OPT(sval), OPT("9" if typ in ("int", "float") else S("zz"))]
                        else:
                            props = [COND(["cmp", "==", SELF, ["num", sval, unit] if typ in ("int", "float")
                                           else (["str", sval["s"]] if typ == "str" else ["bool", True])])]
                    base = ["type=" + typ, "unit=" + str(unit), "kind=declaration" +
                            ("" if props_name == "none" else "+" + props_name), "array" if arr else "scalar"]
                    d = D("a", typ, None, unit, dims)
                    yield base + ["path=never-assigned"], d, props, []
                    if not (arr and typ != "bool"):
                        yield base + ["path=assigned"], d, props, [M("a", val)]
                        yield base + ["path=assigned-twice"], d, props, [M("a", val), M("a", val)]
                    else:
                        yield base + ["path=assigned", "array-modification"], d, props, [M("a", val)]
                    # a second declared node that stays empty
                    yield (base + ["path=other-declared-node-empty"], d, props,
                           ([] if arr and typ != "bool" else [M("a", val)]) + [D("b", typ, None, unit, dims)])
                    yield (base + ["path=other-defined-node"], d, props,
                           [D("b", typ, val, unit, dims)])


def _arr(typ, shape, k=0):
    def leafv(i):
        if typ == "int":
            return str(i + 1 + k)
        if typ == "float":
            return str(i + 1 + k) + ".5"
        if typ == "str":
            return S("s%d" % (i + k))
        return (i + k) % 2 == 0
    if len(shape) == 1:
        return [leafv(i) for i in range(shape[0])]
    return [[leafv(r * shape[1] + c) for c in range(shape[1])] for r in range(shape[0])]


def fam_dims(tier):
    """array nodes: every bound form in rank 1 and 2, final shapes below / on / above each bound"""
    r1 = [[[2, 2]], [[2, 3]], [[2, None]], [[None, 3]], [[None, None]], [[1, 4]]]
    r2 = [[[2, 2], [2, 2]], [[1, 2], [2, 3]], [[2, None], [None, 2]], [[None, None], [2, 2]], [[2, 2], [1, None]]]
    for typ in ("int", "float", "str", "bool"):
        for dims in r1 + r2:
            if len(dims) == 1:
                shapes = [(n,) for n in (1, 2, 3, 4, 5)]
                okshape = (2,)
            else:
                shapes = [(r, c) for r in (1, 2, 3) for c in (1, 2, 3, 4)]
                okshape = (2, 2)
            units = (None, "cm") if typ in ("int", "float") else (None,)
            for unit, shp in itertools.product(units, shapes):
                val = _arr(typ, shp)
                ok = _arr(typ, okshape, 3)
                base = ["type=" + typ, "unit=" + str(unit), "kind=dimension", "rank=%d" % len(dims),
                        "dims=" + G.render_dims(dims), "shape=" + "x".join(map(str, shp))]
                yield base + ["path=def"], D("a", typ, val, unit, dims), [], []
                am = [] if typ == "bool" else ["array-modification"]
                if unit is None or tier == "thorough":
                    yield base + ["path=mod1"] + am, D("a", typ, ok, unit, dims), [], [M("a", val)]
                    yield base + ["path=decl"] + am, D("a", typ, None, unit, dims), [], [M("a", val)]
                if tier == "thorough":
                    yield base + ["path=mod2"] + am, D("a", typ, ok, unit, dims), [], [M("a", ok), M("a", val)]
                    yield base + ["path=mod1-typed"] + am, D("a", typ, ok, unit, dims), [], \
                        [D("a", typ, val, unit, dims)]


def _scalar(typ):
    return dict(int="7", float="7.5", str=S("abc"), bool=True)[typ]


def fam_dims_missing(tier):
    """values that lack a declared dimension which has a finite bound (scalar for a rank-1 declaration, flat list for
    a rank-2 declaration): the missing dimension cannot lie within its bounds -> parse() must fail.  Values with MORE
    axes than declared, and missing dimensions declared without any bound, are not judged."""
    r1 = [[[3, 3]], [[2, None]], [[None, 3]], [[1, 4]]]
    r2 = [[[2, 2], [3, 3]], [[2, 2], [2, 2]], [[2, None], [2, 2]], [[1, None], [1, 2]], [[None, None], [None, 2]],
          [[1, 2], [2, None]]]
    for typ in ("int", "float", "str", "bool"):
        units = (None, "cm") if typ in ("int", "float") else (None,)
        for dims, unit in itertools.product(r1 + r2, units):
            rank = len(dims)
            okshape = (3,) if rank == 1 else ((2, 3) if dims[1] == [3, 3] else (2, 2))
            ok = _arr(typ, okshape, 3)
            bad = [("scalar", _scalar(typ))]
            if rank == 2:
                bad += [("flat-%d" % n, _arr(typ, (n,))) for n in (1, 2, 3)]
            for btag, val in bad:
                base = ["type=" + typ, "unit=" + str(unit), "kind=dimension", "rank=%d" % rank,
                        "dims=" + G.render_dims(dims), "value=rank-deficient:" + btag]
                yield base + ["path=def"], D("a", typ, val, unit, dims), [], []
                am = [] if typ == "bool" else ["array-modification"]
                yield base + ["path=mod1"] + am, D("a", typ, ok, unit, dims), [], [M("a", val)]
                yield base + ["path=decl"] + am, D("a", typ, None, unit, dims), [], [M("a", val)]
                if tier == "thorough":
                    yield base + ["path=mod2"] + am, D("a", typ, ok, unit, dims), [], [M("a", ok), M("a", val)]
                    yield base + ["path=mod1-typed"] + am, D("a", typ, ok, unit, dims), [], \
                        [D("a", typ, val, unit, dims)]
            # the same declarations with a well-formed value stay accepted (the family must contain both verdicts)
            yield (["type=" + typ, "unit=" + str(unit), "kind=dimension", "rank=%d" % rank,
                    "dims=" + G.render_dims(dims), "value=full-rank", "path=def"], D("a", typ, ok, unit, dims), [], [])
    # rank-deficient value delivered by a sliced injection (root placement only)
    for typ in ("int", "float"):
        row = D("row", typ, _arr(typ, (3,)), None, [[3, 3]])
        for dims, sl, tag in [([[1, 1], [2, 2]], [[0, 1]], "flat-1"), ([[1, None], [1, 3]], [[0, 2]], "flat-2"),
                              ([[2, 2]], [[1, 1]], "scalar"), ([[1, None]], [[2, 2]], "scalar")]:
            yield (["type=" + typ, "unit=None", "kind=dimension", "rank=%d" % len(dims), "dims=" + G.render_dims(dims),
                    "value=rank-deficient:" + tag, "path=def-by-sliced-injection", "root-only"],
                   [row, D("a", typ, {"ref": {"src": None, "path": "row", "slice": sl}}, None, dims)], [], [])
        yield (["type=" + typ, "unit=None", "kind=dimension", "rank=1", "dims=[2]", "value=full-rank",
                "path=def-by-sliced-injection", "root-only"],
               [row, D("a", typ, {"ref": {"src": None, "path": "row", "slice": [[1, 3]]}}, None, [[2, 2]])], [], [])


def NODE(path):
    return ["node", path]


def _strict(e):
    """the expression contains a strict comparison or '!='"""
    if isinstance(e, list):
        if e and e[0] == "cmp" and e[1] in ("<", ">", "!="):
            return True
        return any(_strict(x) for x in e)
    return False


def _truth(ta, ua, tb, ub, expr, av, bv):
    """reference value of the condition of `a` for the values av / bv of the nodes a / b (None: not judged)"""
    env = G.REnv()
    na, nb = G.RNode(ta, ua, G.leaf(av, ta)), G.RNode(tb, ub, G.leaf(bv, tb))
    env.nodes = {"a": na, "b": nb}
    try:
        r = G.eval_expr(env, expr, na)
    except G.Undemanded:
        return None
    return r[1] if r[0] == "b" else None


def fam_cond_other_node(tier):
    """the !condition of node `a` refers to ANOTHER node `b` (documented: `{?} < {?runtime.t_max} && {?} > 0`), so
    whether `a` satisfies its constraint depends on the final value of `b` as well.  Enumerated: type / unit pairs of
    (a, b) x comparison forms x every pair of final values (below / on / above each other) x definition order (b
    before a, a before b) x WHICH node the later statements modify: none, only the referenced node b (1-2 times,
    also in another unit), only the owner a, both in either order, and b / a+b declared first and assigned later.
    Together with the placements this covers a constrained node that is taken over UNCHANGED from a base environment
    while the node its condition refers to is modified by a later parse.  Initial and intermediate states always
    satisfy the condition (intermediate violations are not judged)."""
    B = NODE("b")
    thorough = tier == "thorough"

    def numconds(ua):
        one = ["num", "1", ua]
        c = [("self-lt-b", ["cmp", "<", SELF, B]), ("b-gt-self", ["cmp", ">", B, SELF]),
             ("self-le-b", ["cmp", "<=", SELF, B]), ("self-ge-b", ["cmp", ">=", SELF, B]),
             ("self-eq-b", ["cmp", "==", SELF, B]), ("self-ne-b", ["cmp", "!=", SELF, B]),
             ("documented:lt-b-and-gt-1", ["and", ["cmp", "<", SELF, B], ["cmp", ">", SELF, one]]),
             ("gt-b-or-eq-b", ["or", ["cmp", ">", SELF, B], ["cmp", "==", B, SELF]])]
        if thorough:
            c += [("self-gt-b", ["cmp", ">", SELF, B]), ("b-le-self", ["cmp", "<=", B, SELF]),
                  ("b-eq-self", ["cmp", "==", B, SELF]), ("b-ne-self", ["cmp", "!=", B, SELF]),
                  ("gt-1-and-lt-b", ["and", ["cmp", ">", SELF, one], ["cmp", "<", SELF, B]]),
                  ("not-gt-b", ["not", ["par", ["cmp", ">", SELF, B]]])]
        return c

    specs = []           # (ta, ua, tb, ub, grid of a, grid of b (numerals in a's unit), conditions)
    GI, GF = ["2", "3", "4"], ["2.5", "3", "3.003"]
    combos = [("int", None, "int", None), ("float", None, "float", None), ("float", "m", "float", "m"),
              ("float", "m", "float", "cm"), ("int", "m", "int", "cm")]
    # not generated: a and b of DIFFERENT numeric types (int vs float) - the library refuses such comparisons on
    # purpose ("Invalid comparison"), statement and documentation are silent about them
    if thorough:
        combos += [("int", "m", "int", "m"), ("float", "cm", "float", "m")]
    for ta, ua, tb, ub in combos:
        specs.append((ta, ua, tb, ub, GI if ta == "int" else GF, GI if tb == "int" else GF, numconds(ua)))
    sconds = [("self-eq-b", ["cmp", "==", SELF, B]), ("b-eq-self", ["cmp", "==", B, SELF]),
              ("self-ne-b", ["cmp", "!=", SELF, B]),
              ("eq-b-or-eq-literal", ["or", ["cmp", "==", SELF, B], ["cmp", "==", SELF, ["str", "zz"]]]),
              ("ne-b-and-ne-literal", ["and", ["cmp", "!=", SELF, B], ["cmp", "!=", SELF, ["str", "zz"]]])]
    specs.append(("str", None, "str", None, [S("abc"), S("abd"), S("zz")], [S("abc"), S("abd"), S("Abc")], sconds))
    bconds = [("self-eq-b", ["cmp", "==", SELF, B]), ("self-ne-b", ["cmp", "!=", SELF, B]),
              ("self-or-b", ["or", SELF, B]), ("b-and-self", ["and", B, SELF]),
              ("b-alone", B), ("not-b", ["not", B]), ("self-or-not-b", ["or", SELF, ["not", B]])]
    specs.append(("bool", None, "bool", None, [True, False], [True, False], bconds))

    def btext(v, ta, ua, tb, ub, unit=None):
        """numeral of b (given in a's unit) written in `unit` (default: b's own unit)"""
        unit = unit or ub
        if tb not in ("int", "float") or ua is None or unit == ua:
            return v
        return G.dec(G.F(v) * G.UNITS[ua][0] / G.UNITS[unit][0])

    for ta, ua, tb, ub, ga, gb, conds in specs:
        num = ta in ("int", "float")
        other = {"m": "cm", "cm": "m"}.get(ub)

        def DA(v):
            return D("a", ta, v, ua)

        def DB(v):
            return D("b", tb, None if v is None else btext(v, ta, ua, tb, ub), ub)

        def MB(v, unit=None):
            return M("b", btext(v, ta, ua, tb, ub, unit), unit)

        truth = {cname: {(_hashable(x), _hashable(y)): _truth(ta, ua, tb, ub, expr, x, btext(y, ta, ua, tb, ub))
                         for x in ga for y in gb} for cname, expr in conds}
        for (cname, expr), af, bf in itertools.product(conds, ga, gb):
            ok = truth[cname]
            fin = ok[(_hashable(af), _hashable(bf))]
            if fin is None:
                continue
            if num and ua != ub and _strict(expr) and G.F(af) == G.F(bf):
                continue                  # strict comparison exactly on a unit-converted value: not judged

            def good(x, y):
                if num and ua != ub and _strict(expr) and G.F(x) == G.F(y):
                    return False
                return ok[(_hashable(x), _hashable(y))] is True

            paths = [("def", af, bf, [])]
            b0s = [y for y in gb if y != bf and good(af, y)]
            a0s = [x for x in ga if x != af and good(x, bf)]
            for y in b0s:
                paths.append(("mod-b", af, y, [MB(bf)]))
            if b0s:
                paths.append(("mod-b-twice", af, b0s[0], [MB(b0s[0]), MB(bf)]))
                if other and not (_strict(expr) and G.F(af) == G.F(bf)):
                    # (a value written in another unit exactly on a strict boundary: not judged)
                    paths.append(("mod-b-other-unit", af, b0s[0], [MB(bf, other)]))
                if len(b0s) > 1:
                    paths.append(("mod-b-via-other-value", af, b0s[0], [MB(b0s[1]), MB(bf)]))
            for x in a0s:
                paths.append(("mod-a", x, bf, [M("a", af)]))
            both = [(x, y) for x in ga for y in gb if x != af and y != bf and good(x, y)]
            ab = [(x, y) for x, y in both if good(af, y)]
            ba = [(x, y) for x, y in both if good(x, bf)]
            if ab:
                paths.append(("mod-a-then-b", ab[0][0], ab[0][1], [M("a", af), MB(bf)]))
            if ba:
                paths.append(("mod-b-then-a", ba[0][0], ba[0][1], [MB(bf), M("a", af)]))
                if thorough or cname.startswith(("self-lt", "documented", "self-eq", "b-alone")):
                    paths.append(("mod-b-a-b", ba[0][0], ba[0][1], [MB(ba[0][1]), M("a", af), MB(bf)]))
            paths.append(("decl-b", af, None, [MB(bf)]))
            paths.append(("decl-a-b", None, None, [MB(bf), M("a", af)]))
            for ptag, a0, b0, mods in paths:
                for order in ("b-first", "a-first"):
                    if order == "a-first" and not thorough and ptag not in ("def", "mod-b", "mod-b-twice", "decl-b"):
                        continue
                    tags = ["type=" + ta, "unit=" + str(ua), "kind=condition", "cond=other-node:" + cname,
                            "other-type=" + tb, "other-unit=" + str(ub), "order=" + order,
                            "final=%s/%s" % (G.render_value(af, ta), G.render_value(bf, tb)),
                            "final-holds=%s" % fin, "path=" + ptag]
                    spec = dict(core=DA(a0), pre=[DB(b0)] if order == "b-first" else [],
                                post=[DB(b0)] if order == "a-first" else [])
                    yield tags, spec, [COND(expr)], mods
                    if thorough and ptag in ("def", "mod-b", "mod-a"):
                        # the referenced node carries a constraint of its own (documented example: t_max > 0)
                        own = COND(["cmp", "!=", SELF, ["num", "7", ub]] if tb in ("int", "float") else
                                   (["cmp", "!=", SELF, ["str", "q"]] if tb == "str" else
                                    ["or", SELF, ["not", SELF]]))
                        spec2 = dict(core=DA(a0), pre=[DB(b0), own] if order == "b-first" else [],
                                     post=[DB(b0), own] if order == "a-first" else [])
                        yield tags + ["other-node-constrained"], spec2, [COND(expr)], mods


def _hashable(v):
    return v["s"] if isinstance(v, dict) else v


FAMILIES = dict(cond_other_node=fam_cond_other_node, none_with_options=fam_none_with_options, options_by_ref=fam_options_by_ref, str_numeric=fam_str_numeric, mixed_logic=fam_mixed_logic, magnitude=fam_magnitude, int_options_nonintegral=fam_int_options_nonintegral,
                dims_missing=fam_dims_missing,
                num_options=fam_num_options, num_condition=fam_num_condition, num_pairs=fam_num_pairs,
                str=fam_str, bool=fam_bool, declared=fam_declared, dims=fam_dims)
# families in which both verdicts must occur (vacuity guard)
BOTH = ["num_options", "num_condition", "num_pairs", "str", "bool", "declared", "dims", "dims_missing", "magnitude", "mixed_logic",
        "options_by_ref", "str_numeric", "none_with_options", "cond_other_node"]


# ------------------------------------------------------------------------------------------------ judging
def _kinds(tags):
    for t in tags:
        if t.startswith("kind="):
            return t[5:]
    return "?"


def _split(prog):
    """chained placement: statements up to the first modification / after it"""
    for i, st in enumerate(prog):
        if st["k"] == "mod" or (st["k"] == "def" and any(p["k"] == "def" and p["name"] == st["name"] for p in prog[:i])):
            return prog[:i], prog[i:]
    return prog, []


def judge(prog, tags):
    """-> (verdict, failure-or-None, text); verdict in accept / reject / undemanded"""
    ref = G.interpret(prog)
    each = "placement=chained-each" in tags
    if each or "placement=chained" in tags:
        first, second = _split(prog)
        if not second or (each and len(second) < 2):
            return "skipped", None, ""           # no second step / the history equals the one of "chained"
        stages = [[st] for st in second] if each else [second]
        acc = list(first)
        for stg in [[]] + stages[:-1]:
            acc = acc + stg
            if G.interpret(acc)[0] != "ok":
                return "skipped", None, ""       # an intermediate environment is not acceptable on its own
        out, text = G.execute(first, _scratch(), name="first")
        for i, stg in enumerate(stages):
            if out[0] != "ok":
                break
            out, t2 = G.execute(stg, _scratch(), base_env=out[1], name="second" if i == 0 else "stage%d" % (i + 2))
            text += "\n--- DIP(env) ---\n" + t2
            if out[0] != "ok" and i < len(stages) - 1:
                # the reference accepts this intermediate program: valid text was rejected
                case = dict(prog=prog, tags=tags, text=text)
                return "accept", failure("constraints/" + _kinds(tags), case,
                                         "parse %d of the history accepted" % (i + 2), "%s: %s" % (out[1], out[2]),
                                         tags=tags, behaviour="rejected-valid:intermediate-parse:raises:" + out[1]), text
    else:
        out, text = G.execute(prog, _scratch())
    case = dict(prog=prog, tags=tags, text=text)
    if ref[0] == "undemanded":
        return "undemanded", None, text
    sub = "constraints/" + _kinds(tags)
    if ref[0] == "reject":
        if out[0] == "ok":
            why = ref[1].split("violates ")[-1] if "violates" in ref[1] else ref[1]
            return "reject", failure(sub, case, "parse() raises (%s)" % ref[1], "accepted: %r" % _data(out[1]),
                                     tags=tags, behaviour="accepted-violating:" + why), text
        return "reject", None, text
    if ref[0] != "ok":
        raise HarnessError("unexpected reference verdict %r" % (ref[0],))
    if out[0] == "err":
        return "accept", failure(sub, case, "accepted with " + _refdata(ref[1]), "%s: %s" % (out[1], out[2]),
                                 tags=tags, behaviour="rejected-valid:raises:" + out[1]), text
    diff = G.compare_env(out[1], ref[1])
    if diff:
        return "accept", failure(sub, case, _refdata(ref[1]), diff, tags=tags,
                                 behaviour="wrong-environment:" + _diffclass(diff)), text
    return "accept", None, text


def _diffclass(diff):
    if diff.startswith("env.data()"):
        return "data-unreadable"
    if diff.startswith("node names"):
        return "names"
    rest = diff.split(": ", 1)[1] if ": " in diff else diff
    return rest.split(" ")[0] if not rest[0].isdigit() else "options"


def _data(env):
    from scinumtools.dip.settings import Format
    try:
        return env.data(Format.TUPLE)
    except Exception as e:
        return "env.data() raises " + type(e).__name__


def _refdata(renv):
    return "{" + ", ".join("%s: %s%s" % (p, G.show(n.value), " " + n.unit if n.unit else "")
                           for p, n in renv.nodes.items()) + "}"


# ------------------------------------------------------------------------------------------------ harness API
def init_worker():
    from .. import isolation
    isolation.tables_snapshot()


def plan(tier, seed):
    n = NSHARD[tier]
    shards = []
    for fam in FAMILIES:
        for pl in PLACEMENTS[tier]:
            for k in range(n):
                shards.append((tier, fam, pl, k, n))
    return shards


def run_shard(desc):
    tier, fam, pl, k, n = desc
    sh = Shard(PROPERTY)
    seen = set()
    try:
        for tags, d, props, mods in FAMILIES[fam](tier):
            if "root-only" in tags and pl not in ("root", "chained", "chained-each"):
                continue
            if pl == "chained-each" and len(mods) < 2:
                continue
            prog = place(d, props, mods, pl)
            key = G.render(prog)
            if pl in ("chained", "chained-each") and not any(st["k"] == "mod" for st in prog):
                continue
            if key in seen:
                continue
            seen.add(key)
            if not mine(key, k, n):
                continue
            tags = tags + ["placement=" + pl]
            verdict, bad, text = judge(prog, tags)
            if verdict == "skipped":
                continue                   # nothing was executed
            sh.evaluations += 1
            sh.count("%s:%s" % (fam, verdict))
            if verdict != "undemanded":
                sh.nontrivial += 1
                sh.add_to_set("verdicts", (fam, verdict))
            if fam == "cond_other_node" and verdict != "undemanded":
                sh.add_to_set("cross", (pl, [t[5:] for t in tags if t.startswith("path=")][0], verdict))
            if bad:
                sh.fail(bad)
            if len(sh.samples) < 1 and verdict == "reject" and k == 0:
                sh.sample(dict(family=fam, text=text, expected=verdict))
    finally:
        _cleanup()
    return sh


def _cleanup():
    import shutil
    shutil.rmtree(_scratch(), ignore_errors=True)


def replay(rec):
    c = rec["case"]
    try:
        verdict, bad, text = judge(c["prog"], list(c["tags"]))
    finally:
        _cleanup()
    return bad


def finish(total, tier, seed):
    v = total.sets.get("verdicts", set())
    for fam in BOTH:
        if (fam, "accept") not in v or (fam, "reject") not in v:
            raise HarnessError("vacuous family %s: verdicts %r" % (fam, sorted(x for x in v if x[0] == fam)))
    # a node taken over unchanged from a base environment whose condition refers to a node that a LATER parse modifies:
    # both verdicts must have been demanded in every multi-parse placement
    cross = total.sets.get("cross", set())
    for pl, ptag in (("chained", "mod-b"), ("chained", "mod-b-twice"), ("chained-each", "mod-b-twice"),
                     ("chained-each", "mod-b-then-a"), ("root", "mod-b"), ("group+decoys", "mod-b")):
        for verdict in ("accept", "reject"):
            if (pl, ptag, verdict) not in cross:
                raise HarnessError("vacuous: no %s case for path %s in placement %s" % (verdict, ptag, pl))
    und = sum(n for k, n in total.hist.items() if k.endswith(":undemanded"))
    hist_cross = {}
    for pl, ptag, verdict in cross:
        hist_cross.setdefault(pl, set()).add(ptag)
    return dict(families=sorted(FAMILIES), placements=PLACEMENTS[tier], not_judged=und, caps_hit=[],
                bounds=dict(constraints_per_node="<=3 kinds", modifications="<=2 (<=3 in cond_other_node)",
                            array_rank="<=2", near_offsets=["1e-9", "1e-5", "1e-3"], parses_per_history="<=4",
                            nodes_referred_to_by_a_condition="<=1 other node"),
                cross_node_condition_paths={pl: sorted(v) for pl, v in sorted(hist_cross.items())},
                cross_node_condition_cases=sum(n for k, n in total.hist.items()
                                               if k.startswith("cond_other_node:") and not k.endswith(":undemanded")))

MANIFEST = dict(
    text="Bounded exhaustive enumeration of single-node DIP programs: every type (int, float, str, bool; scalar and "
         "rank 1-2 arrays) x every constraint kind and pair of kinds (options per-line / list / two lists / in other "
         "units, !condition with all six comparison operators in both orientations plus interval, disjunction and "
         "negation forms, unparenthesised mixes of || and && (3-4 operands, every truth assignment, int/float/str/"
         "bool), equality (options, ==, !=, <=, >=) on values of magnitude 1e-12, 1e-9, 1e-7 (unit-less and ns/us/s) "
         "and 1e7, the empty string as final value against formats that require / allow it, option lists given by "
         "reference (`!options {?arr}` / `= {?x}`: source with/without unit, stated unit, slice, modified source; node "
         "in the same / another / no unit), number-looking strings (007, 1.10, 1e3, -0, nan ...) in == / != / options, the same numerals listed as "
         "options in different units, none as final value of a node with options (must fail), "
         "int nodes against thresholds/options that are not integral in the node's unit (250 cm, "
         "2500 mm, 0.0025 km vs m), three anchored !format expressions, all dimension-bound forms incl. values that "
         "lack a bounded declared dimension (scalar / flat list, also via modification and sliced injection), "
         "declarations) x value paths "
         "(definition, 1-2 modifications also in other units, declaration) x final values on / 1e-9 / 1e-5 / 1e-3 off / "
         "far off the boundary, at root and inside a group between constrained decoy nodes; every program with "
         "modifications also as a history of parses (definitions parsed first, then all modifications by one "
         "DIP(env) parse, or every modification by its own DIP(env) parse, <= 4 parses).  Conditions that refer to "
         "ANOTHER node (`{?} < {?b}`, the documented `{?} < {?b} && {?} > 1`, <= >= == != and or/not forms; int, "
         "float with equal / different units, str, bool; either definition order) x all pairs of final values "
         "(below / on / above each other) x which node is modified afterwards (none, only the referenced node 1-2 "
         "times also in another unit, only the owner, both in either order, declared-then-assigned) in all these "
         "placements - in particular a constrained node inherited unchanged from a base environment while a later "
         "parse changes the node its condition refers to.  Coverage statement: for "
         "every generated text parse() returns exactly when the reference says all constraints hold on the final "
         "values, and the returned environment equals the reference.",
    note="Trusted: the reference interpreter (exact rationals, own SI factor table, tolerance 1e-6 from "
         "Numeric.PRECISION); alphabet excludes inputs on which statement/documentation are silent (listed in the "
         "evidence assumptions).  Values 0/''/none belong to C14.",
    technique="bounded grammar enumeration with a reference interpreter of the generator AST",
)
