"""R-quantity helper for C06 / C08: factor and dimension vector of a unit, from the published tables read as data.

A unit is a tuple of terms ``(prefix, symbol, exponent)`` with ``prefix`` a key of UNIT_PREFIXES or ``''``, ``symbol``
a key of UNIT_STANDARD and ``exponent`` a ``fractions.Fraction``.  Its meaning is

    factor = prod (prefix_factor * unit_factor) ** exponent          dims = sum exponent * dims(symbol)

Nothing here calls the library's parser or its exponent/dimension algebra: the tables are copied once (``load()``)
into plain Python floats / Fractions, unit *strings* are rendered from the term structure by ``render`` and the
library's ``Quantity.units()`` text is read back by ``parse_units`` (split on '*', trailing exponent, dictionary of
valid spellings).  Temperature (Cel, degF) and logarithmic units are excluded from ``linear_symbols``.
"""
import re
import math
from fractions import Fraction as F

NDIM = 8
PREFIX = {}        # prefix -> float factor
UNIT = {}          # symbol -> dict(factor=float, dims=tuple of 8 Fractions, prefixes=True|False|list, linear=bool)
SPELL = {}         # spelling -> (prefix, symbol)
_loaded = False


class RefError(Exception):
    """The reference model cannot interpret something (harness problem, never a property violation)."""


def _frac(x):
    if isinstance(x, tuple):
        return F(int(x[0]), int(x[1]))
    return F(int(x))


def load():
    """Copy UNIT_PREFIXES / UNIT_STANDARD into plain data.  Call before any case runs (tables pristine)."""
    global _loaded
    if _loaded:
        return
    from scinumtools.units import settings as st
    for p in list(st.UNIT_PREFIXES.keys()):
        PREFIX[p] = float(st.UNIT_PREFIXES[p].magnitude)
    for s in list(st.UNIT_STANDARD.keys()):
        row = st.UNIT_STANDARD[s]
        d = row.definition
        pref = row.prefixes
        UNIT[s] = dict(factor=float(row.magnitude), dims=tuple(_frac(x) for x in row.dimensions),
                       prefixes=(list(pref) if isinstance(pref, (list, tuple)) else bool(pref)),
                       linear=not isinstance(d, type))
    for s, u in UNIT.items():
        cands = [("", s)]
        if u["prefixes"] is True:
            cands += [(p, s) for p in PREFIX]
        elif u["prefixes"]:
            cands += [(p, s) for p in u["prefixes"] if p in PREFIX]
        for p, sym in cands:
            sp = p + sym
            if sp in SPELL and SPELL[sp] != (p, sym):
                # ambiguous spelling: the reading of units() would be a guess -> unusable, drop both readings
                SPELL[sp] = None
            else:
                SPELL[sp] = (p, sym)
    _loaded = True


def linear_symbols():
    """Table symbols whose conversion is a pure factor (no temperature offsets, no logarithmic levels)."""
    return [s for s, u in UNIT.items() if u["linear"]]


def admissible_prefixes(symbol):
    u = UNIT[symbol]
    if u["prefixes"] is True:
        return list(PREFIX)
    return [p for p in (u["prefixes"] or []) if p in PREFIX]


# ---------------------------------------------------------------------------------------------- unit algebra
def unit(*terms):
    """unit(('k','m',1), ('', 'h', -1)) -> canonical tuple of terms with Fraction exponents"""
    out = []
    for t in terms:
        p, s, e = t
        if s not in UNIT or (p and p not in PREFIX):
            raise RefError("unknown unit term %r" % (t,))
        out.append((p, s, F(e)))
    return tuple(out)


def umap(u):
    """{(prefix, symbol): exponent} with zero exponents dropped"""
    m = {}
    for p, s, e in u:
        m[(p, s)] = m.get((p, s), F(0)) + F(e)
    return {k: v for k, v in m.items() if v != 0}


def map_factor(m):
    f = 1.0
    for (p, s), e in m.items():
        base = (PREFIX[p] if p else 1.0) * UNIT[s]["factor"]
        if e.denominator == 1:
            f *= base ** int(e)
        else:
            f *= math.pow(base, float(e))
    return f


def map_dims(m):
    d = [F(0)] * NDIM
    for (p, s), e in m.items():
        for i, x in enumerate(UNIT[s]["dims"]):
            d[i] += x * e
    return tuple(d)


def factor(u):
    return map_factor(umap(u))


def dims(u):
    return map_dims(umap(u))


def map_add(a, b, sign=1):
    m = dict(a)
    for k, e in b.items():
        m[k] = m.get(k, F(0)) + sign * e
    return {k: v for k, v in m.items() if v != 0}


def map_scale(a, p):
    return {k: v * p for k, v in a.items() if v * p != 0}


def nodim(d):
    return all(x == 0 for x in d)


def independent(m):
    """True iff the dimension vectors of the units in the map are linearly independent (then no non-empty
    combination of these units can have cancelling dimensions)."""
    rows = [list(UNIT[s]["dims"]) for (p, s) in m]
    rank = 0
    ncol = NDIM
    rows = [r[:] for r in rows]
    for c in range(ncol):
        piv = None
        for r in range(rank, len(rows)):
            if rows[r][c] != 0:
                piv = r
                break
        if piv is None:
            continue
        rows[rank], rows[piv] = rows[piv], rows[rank]
        for r in range(len(rows)):
            if r != rank and rows[r][c] != 0:
                k = rows[r][c] / rows[rank][c]
                rows[r] = [x - k * y for x, y in zip(rows[r], rows[rank])]
        rank += 1
    return rank == len(rows)


# ---------------------------------------------------------------------------------------------- text
def _exp_text(e):
    e = F(e)
    if e.denominator == 1:
        return str(e.numerator)
    return "%d:%d" % (e.numerator, e.denominator)


def render(u, style="slash"):
    """Unit text in the documented syntax.  style 'slash': negative exponents of later terms are written as a
    division; 'star': every term multiplied, exponents signed."""
    parts = []
    for i, (p, s, e) in enumerate(u):
        e = F(e)
        if style == "slash" and i > 0 and e < 0:
            parts.append("/" + p + s + ("" if e == -1 else _exp_text(-e)))
        else:
            parts.append(("*" if i > 0 else "") + p + s + ("" if e == 1 else _exp_text(e)))
    return "".join(parts)


_EXP = re.compile(r"(-?[0-9]+)(?::([0-9]+))?$")


def parse_units(text, keep_zero=False):
    """Read the text returned by Quantity.units() back into {(prefix, symbol): exponent}.  None -> {}.

    Terms reported with exponent 0 ('m0') are left out of the map unless keep_zero is set (C06 compares the reported
    units with and without them: a unit that cancelled must not be reported at all)."""
    if text is None or text == "":
        return {}
    if not isinstance(text, str):
        raise RefError("units() returned %r" % (text,))
    m = {}
    for term in text.split("*"):
        mm = _EXP.search(term)
        if mm:
            head = term[:mm.start()]
            e = F(int(mm.group(1)), int(mm.group(2)) if mm.group(2) else 1)
        else:
            head, e = term, F(1)
        key = SPELL.get(head)
        if key is None:
            raise RefError("cannot read unit term %r of %r" % (term, text))
        if key in m:
            raise RefError("unit %r twice in %r" % (head, text))
        m[key] = e
    if keep_zero:
        return m
    return {k: v for k, v in m.items() if v != 0}


def lib_dims(dimensions):
    """Dimensions object of the library -> tuple of 8 Fractions (reads the published value() list)."""
    return tuple(_frac(x) for x in dimensions.value())
