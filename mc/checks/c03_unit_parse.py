"""C03 - a unit expression means the product of its table entries.

E2 bounded grammar enumeration on the real parser (BaseUnits(text), Quantity(1, text)) against the R-units reference
model (mc/refmodels/units_ref.py: a dictionary of valid spellings and Fraction arithmetic over the published tables).
Every string is generated from a *derivation* (prefix, symbol, exponent, product/quotient tree); the expected factor,
dimension vector and accept/reject verdict are computed from the derivation, never by parsing text.

Sub-spaces
  atom     every table symbol (UNIT_STANDARD and QUANTITY_UNITS) x (no prefix + every prefix, admissible or not)
           x 16 exponent spellings: one- and two-digit numerators and denominators, signs, unreduced, zero (complete)
  insert   every valid spelling, bare and with exponent 2, with one foreign item of JUNK put in front of it, between
           prefix and symbol, and behind the symbol                                                   (complete)
  sweep    every valid spelling inside 12 small product/quotient/parenthesis templates                (complete)
  struct   all expressions with 2..4 leaves over a 6-atom alphabet, operators * and /, parentheses to nesting 2
           (11+3+1 shapes x all operator choices x all leaf assignments); alphabet = core window + table windows
  numeric  all expressions with 2..3 leaves over the core atoms + numeric factors {2, 1e3, 2.5e-3, -2} that contain
           at least one number and one unit, observed through Quantity(1, text)
  mixexp   the SAME spelling several times with DIFFERENT exponents, so that exponents are really added/subtracted:
           every valid spelling t in t^a*t^b and t^a/t^b for all ordered pairs (a, b) of MIX_EXPS (denominators
           2,3,4,5,7 -> merged denominators 10, 12, 14, 20 ...; shared denominators 2|4), and all 3-leaf
           expressions over {t^a, m2} for the core spellings                                           (complete)

  cancel   dimensional units that cancel completely next to a dimensionless table unit whose factor is not 1:
           every valid spelling t with another spelling v of its dimension, D in {%, ppth, [pi], [N_0]}:
           D*t/v, t/(v*D), D2*t/v (the total is dimensionless, the factor must still be the plain product) (complete)
           + one fixed struct window {%, [pi]2, km, #SLEN, m2, daar} (km/#SLEN and m2/daar cancel)

  repeat   the SAME symbol two or three times among the terms of one product/quotient (exponents really accumulate):
           for 16 core spellings t (m km cm mm s ms kg g N kN J h Pa eV [c] #SLEN) all 2- and 3-leaf expressions
           over {t, t2, t-1, t1:2, kg, s2} and all 4-leaf expressions over {t, kg, s2} (nesting <= 2) in which t
           occurs at least twice (m*m*m, m/m, kg*m*m/s2, m*s2*m, (m*m)/m ...); every other valid spelling t in 16
           templates (t*t*t, t*t/t, t/(t*t), t*s*t, kg*t*t/s2, N*t/t, t2*t, t*t2, t1:2*t*t1:2 ...)       (complete)

  table    every row of the three tables is validated against the schema of units_ref.SCHEMA before it is adopted as
           specification (prefixes: True / False / list of known prefixes; magnitude: finite number > 0; dimensions:
           8 integers or pairs); a malformed cell is reported as failure sub 'table', behaviour 'malformed-row' and
           its row is left out of the reference (so the parser's reading of a broken row is never "expected")

Robustness against a library whose parses corrupt shared state (e.g. cached exponent objects mutated in place):
every accepted string in which a spelling occurs twice is followed by a re-parse of those atoms alone (with the
exponent as written and negated) - they must still mean what the tables say (behaviour 'atom-changed-by-earlier-parse',
replayable because the case carries the string); a fixed probe set (m with every exponent spelling) is re-parsed
every 1000 cases; observed exponents beyond +-10^4 are a failure at once.  After the first such finding the worker
stops executing cases (counted as not-executed:library-state-corrupted) instead of feeding an ever more corrupted
library - a violation is reported quickly, never a hang.

Every accepted string of every sub-space is followed IN THE SAME CASE by plain probe parses: the exponent-less
symbol s, and - when a spelling occurs twice - that spelling exponent-less, with the exponent as written and negated.
They must read as the tables say (behaviours 'next-valid-parse-differs' / 'atom-changed-by-earlier-parse'), so a parse
that corrupts a shared module constant is reported by a single replayable case.  Module-level state of
scinumtools.units.* (every container and every library object bound at module level, e.g. a shared default
exponent or a memo dictionary; the three unit tables separately) is snapshotted per process and restored in place
after EVERY case, so a leak cannot travel from one case to the next (histogram key 'module-state-restored').

History dimension: every string that must be rejected is parsed four times in the same process (BaseUnits twice,
Quantity(1, .) twice) and has to be rejected every time; every string that must be accepted is parsed by BaseUnits and
again by Quantity and both results are compared.  replay() executes the case in a fresh interpreter, so a record
replays identically whatever the parent process parsed before.

Not demanded (left out): order of terms in the rendered text and its exact spelling (only its *meaning* by the tables
and the parse->render->parse round trip are checked); an exponent on a parenthesis; the empty string; blanks; where a
bare number is kept by BaseUnits (numbers are observed through Quantity only); results outside 1e-290..1e290.
"""
from fractions import Fraction as F

from ..common import Shard, failure, outcome, HarnessError, VERIF
from .. import isolation
from ..refmodels import units_ref

PROPERTY = "C03"
LEVEL = "exploration"
RULE = ("a case is one distinct unit string generated from a derivation (prefix, symbol, exponent spelling, "
        "product/quotient/parenthesis tree, numeric factors, inserted foreign item); strings are distinct inside every "
        "sub-space and between atom and insert (sweep and struct share only the strings t*t and t/t of window atoms "
        "with exponent 1, < 0.01 %; repeat shares with struct only strings made of one window atom of exponent 1, "
        "e.g. km*km*km, < 0.1 %); non-trivial = everything except a bare table symbol without prefix and exponent")
ASSUMPTIONS = [
    "the published tables (UNIT_PREFIXES, UNIT_STANDARD, QUANTITY_UNITS) are the specification; they are read as data "
    "once per process and must be unambiguous (no spelling producible in two ways; checked at start-up)",
    "factor agreement is relative 1e-12 x number of combined terms; dimension vectors are compared exactly as "
    "rationals (the representation int vs (n, d) is not compared)",
    "Quantity(1, text) is observed as value x unit factor (the statement does not say how the total is split)",
]

EXPS = ["", "2", "-1", "+2", "1:2", "-3:2", "2:4", "0",
        "12", "-10", "10:3", "1:12", "-5:12", "7:10", "3:16", "11:10"]      # two-digit numerators / denominators
MIX_EXPS = [F(1, 2), F(1, 5), F(1, 4), F(1, 3), F(-3, 2), F(1, 7), 2]
JUNK = ["x", "q", "Q", "j", "_", "~", "da", "kk", "k", "a"]
NUMBERS = ["2", "1e3", "2.5e-3", "-2"]
CORE = [("km", 1), ("m", 2), ("s", -1), ("g", F(1, 2)), ("daar", 1), ("#SLEN", 1)]
DIMLESS_WINDOW = [("%", 1), ("[pi]", 2), ("km", 1), ("#SLEN", 1), ("m", 2), ("daar", 1)]   # struct window NWINDOWS+1
DIMLESS = ["%", "ppth", "[pi]", "[N_0]"]          # dimensionless table units / constants with factor != 1
WINDOW_EXPS = [1, 2, -1, F(1, 2), -2, F(-3, 2)]
NWINDOWS = 24
N_ATOM_SHARDS = 32
N_INSERT_SHARDS = 24
N_SWEEP_SHARDS = 8
N_MIX_SHARDS = 16
N_CANCEL_SHARDS = 8
N_REPEAT_TPL_SHARDS = 8
RTOL = 1e-12
REPEAT_CORE = ["m", "km", "cm", "mm", "s", "ms", "kg", "g", "N", "kN", "J", "h", "Pa", "eV", "[c]", "#SLEN"]
REPEAT_EXPS = [1, 2, -1, F(1, 2)]
REPEAT_PARTNERS = [("kg", 1), ("s", 2)]
REPEAT_TEMPLATES = [  # over t = every valid spelling outside REPEAT_CORE (same token syntax as SWEEP)
    ([["t", 1], "*", ["t", 1], "*", ["t", 1]]),
    ([["t", 1], "*", ["t", 1], "/", ["t", 1]]),
    ([["t", 1], "/", ["t", 1], "/", ["t", 1]]),
    (["t", 1], "/", "(", ["t", 1], "*", ["t", 1], ")"),
    ("(", ["t", 1], "*", ["t", 1], ")", "/", ["t", 1]),
    ([["t", 1], "*", ["s", 1], "*", ["t", 1]]),
    ([["kg", 1], "*", ["t", 1], "*", ["t", 1], "/", ["s", 2]]),
    ([["N", 1], "*", ["t", 1], "/", ["t", 1]]),
    ([["t", 2], "*", ["t", 1]]),
    ([["t", 1], "*", ["t", 2]]),
    ([["t", 1], "/", ["t", 2]]),
    ([["t", -1], "*", ["t", 1]]),
    ("(", ["t", 1], "*", ["t", 1], ")", "*", "(", ["t", 1], "/", ["s", 1], ")"),
    (["kg", 1], "/", "(", ["t", 1], "*", ["t", 1], ")"),
    ([["t", F(1, 2)], "*", ["t", 1], "*", ["t", F(1, 2)]]),
    ("(", ["t", 1], ")", "*", "(", ["t", 1], ")"),
]

_REF = None
_POISONED = False        # this process has seen the library corrupt its own state: stop executing cases
EXP_BOUND = 10 ** 4


PSEUDO_NUMBERS = ["inf", "nan", "infinity", "Infinity", "NaN", "INF", "1_0", "1_000", "\uff11\uff12", "\u0661\u0662"]


def init_worker():
    global _REF
    _REF = units_ref.load()
    isolation.tables_snapshot()
    _modstate_snapshot()


# ----------------------------------------------------------------------------------------------- module-level state
# Everything mutable that is bound at module level in scinumtools.units.* (containers, and instances of library
# classes such as a shared default exponent) except the three unit tables (mc/isolation.py restores those).
_MODSTATE = None


def _obj_state(val):
    import copy
    if isinstance(val, (list, dict, set)):
        return copy.deepcopy(val)
    st = {}
    for klass in type(val).__mro__:
        for name in getattr(klass, "__slots__", ()) or ():
            if hasattr(val, name):
                st[name] = copy.deepcopy(getattr(val, name))
    d = getattr(val, "__dict__", None)
    if isinstance(d, dict):
        for name, v in d.items():
            st[name] = copy.deepcopy(v)
    return st


def _obj_differs(val, pristine):
    try:
        cur = val if isinstance(val, (list, dict, set)) else _obj_state_shallow(val)
        return not bool(cur == pristine)
    except Exception:
        return repr(val) != repr(pristine)


def _obj_state_shallow(val):
    st = {}
    for klass in type(val).__mro__:
        for name in getattr(klass, "__slots__", ()) or ():
            if hasattr(val, name):
                st[name] = getattr(val, name)
    d = getattr(val, "__dict__", None)
    if isinstance(d, dict):
        st.update(d)
    return st


def _modstate_snapshot():
    global _MODSTATE
    import sys
    _lib()
    slots, seen = [], set()
    for mname, mod in sorted(sys.modules.items()):
        if mod is None or not (mname == "scinumtools.units" or mname.startswith("scinumtools.units.")):
            continue
        for name, val in list(vars(mod).items()):
            if name.startswith("__") or name in ("UNIT_STANDARD", "UNIT_PREFIXES", "UNIT_TYPES"):
                continue
            if isinstance(val, type) or callable(val):
                continue
            lib_obj = (type(val).__module__ or "").startswith("scinumtools")
            if not (isinstance(val, (list, dict, set)) or lib_obj):
                continue
            if type(val).__name__ == "ParameterTable":
                continue
            try:
                st = _obj_state(val)
            except Exception:
                continue
            slots.append((mname, name, mod, val, st, id(val) in seen))
            seen.add(id(val))
    _MODSTATE = slots


def _modstate_restore():
    """restore in place (and re-bind a replaced name); returns the names that had changed"""
    import copy
    changed = []
    for mname, name, mod, val, st, alias in _MODSTATE or ():
        if vars(mod).get(name) is not val:
            changed.append("%s.%s:rebound" % (mname, name))
            setattr(mod, name, val)
        if alias or not _obj_differs(val, st):
            continue
        changed.append("%s.%s" % (mname, name))
        fresh = copy.deepcopy(st)
        if isinstance(val, list):
            val[:] = fresh
        elif isinstance(val, (dict, set)):
            val.clear()
            val.update(fresh)
        else:
            for k, v in fresh.items():
                try:
                    setattr(val, k, v)
                except Exception:
                    pass
            d = getattr(val, "__dict__", None)
            if isinstance(d, dict):
                for k in [k for k in d if k not in fresh]:
                    del d[k]
    return changed


# ----------------------------------------------------------------------------------------------- derivations
def _exp_of(spelt):
    if spelt == "":
        return F(1)
    if ":" in spelt:
        n, d = spelt.split(":")
        return F(int(n), int(d))
    return F(int(spelt))


def _atom_cases():
    """[(text, base, exp spelling, reject tags)] sorted, de-duplicated by text"""
    seen = {}
    for s, sym in _REF.symbols.items():
        for p in [""] + list(_REF.prefixes):
            why = ["inadmissible-prefix"] + (["system-unit"] if sym.system else [])
            for e in EXPS:
                seen.setdefault(p + s + e, (p + s, e, why))
    return [(t,) + seen[t] for t in sorted(seen)]


def _insert_cases():
    """[(text, base, exp spelling, reject tags)]; strings of the atom sub-space are left out (already evaluated)"""
    atoms = set(p + s for s in _REF.symbols for p in [""] + list(_REF.prefixes))
    seen = {}
    for t, sp in _REF.spellings.items():
        for j in JUNK:
            cand = [(j + t, "front"), (t + j, "behind")]
            if sp.prefix is not None:
                cand.append((sp.prefix + j + sp.symbol, "middle"))
            for base, pos in cand:
                if base in atoms:
                    continue
                why = ["inserted-" + pos, "inserted-%d-characters" % len(j)]
                why += ["before-prefixed-unit" if sp.prefix is not None else "before-bare-symbol"] \
                    if pos == "front" else []
                why += ["system-unit"] if sp.system else []
                for e in ("", "2"):
                    seen.setdefault(base + e, (base, e, why))
    return [(t,) + seen[t] for t in sorted(seen)]


def _shapes(n, depth):
    """shapes with n leaves: a shape is a list of terms, a term is 'L' (leaf) or a shape (parenthesised group)"""
    def seqs(n, depth, kmin):
        out = []
        for comp in _compositions(n):
            if len(comp) < kmin:
                continue
            if any(c > 1 for c in comp) and depth < 1:
                continue
            choices = [["L"] if c == 1 else seqs(c, depth - 1, 2) for c in comp]
            for pick in _product(choices):
                out.append(list(pick))
        return out
    return seqs(n, depth, 2 if n > 1 else 1)


def _compositions(n):
    if n == 0:
        return [[]]
    out = []
    for first in range(1, n + 1):
        for rest in _compositions(n - first):
            out.append([first] + rest)
    return out


def _product(lists):
    out = [[]]
    for l in lists:
        out = [o + [x] for o in out for x in l]
    return out


def _render(shape, leaves, ops):
    """-> (text, [(leaf, sign)]) consuming leaves/ops left to right"""
    li = [0]
    oi = [0]
    signed = []

    def seq(sh, sign):
        parts = []
        for k, term in enumerate(sh):
            s = sign
            if k > 0:
                op = ops[oi[0]]
                oi[0] += 1
                parts.append(op)
                if op == "/":
                    s = -sign
            if term == "L":
                leaf = leaves[li[0]]
                li[0] += 1
                signed.append((leaf, s))
                parts.append(_leaf_text(leaf))
            else:
                parts.append("(" + seq(term, s) + ")")
        return "".join(parts)
    return seq(shape, 1), signed


def _leaf_text(leaf):
    if isinstance(leaf, str):
        return leaf                                     # numeric factor
    return leaf[0] + units_ref.exp_text(leaf[1])


def _expect(signed):
    """signed leaves -> dict(terms=[[spelling, 'n/d']], numbers=[[text, sign]]) (JSON-able derivation)"""
    terms, numbers = [], []
    for leaf, s in signed:
        if isinstance(leaf, str):
            numbers.append([leaf, s])
        else:
            terms.append([leaf[0], str(F(leaf[1]) * s)])
    return dict(terms=terms, numbers=numbers)


def _window(w):
    if w == 0:
        return list(CORE)
    if w == NWINDOWS + 1:
        return list(DIMLESS_WINDOW)
    names = sorted(_REF.spellings)
    stride = len(names) // 6
    out = []
    for k in range(6):
        out.append((names[(w - 1 + k * stride) % len(names)], WINDOW_EXPS[(k + w) % 6]))
    return out


def _cancel_pairs():
    """[(t, v)]: every valid spelling t of non-zero dimension with the next other spelling v of the same dimension"""
    groups = _REF.groups(sorted(_REF.spellings))
    out = []
    for d, names in groups.items():
        if all(x == 0 for x in d) or len(names) < 2:
            continue
        for i, t in enumerate(names):
            out.append((t, names[(i + 1) % len(names)]))
    return sorted(out)


SWEEP = [  # templates over t (every valid spelling); fixed partners m, s, kg
    ([["t", 1], "*", ["m", 1]]),
    ([["m", 1], "/", ["t", 1]]),
    ([["t", 1], "/", ["t", 1]]),
    ([["t", 1], "*", ["t", 1]]),
    ([["t", 2], "/", ["t", 1]]),
    ([["t", F(1, 2)], "*", ["t", F(3, 2)]]),
    ("(", ["t", 1], "*", ["s", 1], ")", "/", ["m", 1]),
    (["kg", 1], "/", "(", ["t", 1], "*", ["s", 2], ")"),
    (["m", 1], "/", "(", ["t", 1], "/", ["s", 1], ")"),
    ("(", "(", ["t", 1], ")", "/", ["s", 1], ")"),
    (["m", 2], "/", "(", ["t", F(1, 2)], "*", ["t", F(1, 7)], ")"),            # merged exponent -9:14
    ([["t", F(1, 4)], "/", ["t", F(1, 3)], "*", ["kg", 1]]),                   # merged exponent -1:12
]


def _sweep_case(tpl, t):
    """render a template; returns (text, signed leaves)"""
    text = []
    signed = []
    stack = [1]          # sign of the enclosing group
    pending = [1]        # sign to apply to the next term at this level
    for tok in tpl:
        if tok == "(":
            text.append("(")
            stack.append(pending[-1])
            pending.append(pending[-1])
        elif tok == ")":
            text.append(")")
            stack.pop()
            pending.pop()
            pending[-1] = stack[-1]
        elif tok in ("*", "/"):
            text.append(tok)
            pending[-1] = stack[-1] if tok == "*" else -stack[-1]
        else:
            name = t if tok[0] == "t" else tok[0]
            leaf = (name, F(tok[1]))
            text.append(_leaf_text(leaf))
            signed.append((leaf, pending[-1]))
            pending[-1] = stack[-1]
    return "".join(text), signed


# ----------------------------------------------------------------------------------------------- oracle
def _lib():
    from scinumtools.units import Quantity
    from scinumtools.units.base_units import BaseUnits
    return BaseUnits, Quantity


def _dims_json(d):
    return units_ref.dims_to_json(d)


def _libmap(b):
    out = {}
    for k, v in b.value().items():
        out[k] = F(v[0], v[1]) if isinstance(v, tuple) else F(v)
    return out


def _table_failure(case, exp, obs):
    return failure("table", case, exp, obs, tags=["table:" + case["table"], "column:" + case["column"]],
                   behaviour="malformed-row")


def _fixed_alphabet_missing():
    """fixed spellings the sub-spaces are built on; if the tables no longer provide them only 'table' can run"""
    need = [a for a, _ in CORE + DIMLESS_WINDOW] + DIMLESS + ["m", "s", "kg"] + REPEAT_CORE
    return sorted(set(n for n in need if n not in _REF.spellings))


def check_case(case):
    """Execute one case on the library and compare with the reference.  Returns a failure record or None.

    case: dict(sub, text, expect) with expect None (must be rejected) or dict(terms, numbers)."""
    if case.get("sub") == "table":
        r = units_ref.UnitsRef.replay_schema_case(case)
        return None if r is None else _table_failure(case, r[0], r[1])
    BaseUnits, Quantity = _lib()
    ref = _REF
    sub, text, expect = case["sub"], case["text"], case["expect"]
    tags = list(case.get("tags", []))
    if expect is None:
        # must be rejected - every time it is given, through either entry point (a failed parse must not leave
        # anything behind that makes a later parse of the same string succeed)
        for attempt, entry in enumerate(("BaseUnits", "BaseUnits", "Quantity", "Quantity"), 1):
            o = outcome(BaseUnits, text) if entry == "BaseUnits" else outcome(Quantity, 1, text)
            if o[0] == "ok":
                seen = o[1] if entry == "BaseUnits" else o[1].baseunits
                obs = outcome(lambda: dict(accepted_as=seen.expression, magnitude=seen.magnitude, parse=attempt,
                                           entry=entry, quantity=None if entry == "BaseUnits" else str(o[1])))
                return failure(sub, case, "rejected with an error, every time",
                               obs[1] if obs[0] == "ok" else dict(parse=attempt, entry=entry), tags=tags,
                               behaviour="accepted" if attempt == 1 else "accepted-on-repeated-parse")
            if attempt in (1, 3):
                # ... nor anything that changes what the NEXT valid string means (history: rejected string, then a
                # plain valid one, through the entry point that has just failed)
                bad = _atom_probe("s", F(1), bare=True) if entry == "BaseUnits" else _quantity_probe()
                if bad is not None:
                    return failure(sub, case, dict(then_parsed=bad[0]), dict(then_parsed=bad[1]),
                                   tags=tags + ["valid-parse-after-rejected", "entry=" + entry],
                                   behaviour="next-valid-parse-differs")
        return None
    ob = outcome(BaseUnits, text)
    terms = [(t, F(e)) for t, e in expect["terms"]]
    numbers = expect["numbers"]
    merged = ref.merge(terms)
    mlist = sorted(merged.items())
    nterm = max(1, len(terms) + len(numbers))
    efac, lg = ref.terms_factor(mlist)
    edims = ref.terms_dims(mlist)
    if efac is None:
        return "skip"
    if ob[0] == "err":
        return failure(sub, case, dict(factor=efac, dims=_dims_json(edims)), dict(error=ob[1], message=ob[2]),
                       tags=tags, behaviour="raises:" + ob[1])
    b = ob[1]
    tol = RTOL * nterm
    big = _exponent_out_of_bounds(b)
    if big:
        _poison()
        return failure(sub, case, dict(factor=efac, dims=_dims_json(edims)), dict(exponent=big), tags=tags,
                       behaviour="exponent-out-of-bounds")
    # factor and dimensions assigned by the parser (numeric factors are not kept by BaseUnits: not compared there)
    odims = outcome(lambda: units_ref.dims_from_library(b.dimensions.value()))
    if odims[0] == "err":
        return failure(sub, case, _dims_json(edims), dict(error=odims[1], message=odims[2]), tags=tags,
                       behaviour="dimensions-unreadable")
    if odims[1] != edims:
        return failure(sub, case, _dims_json(edims), _dims_json(odims[1]), tags=tags, behaviour="wrong-dimensions")
    if not numbers and not units_ref.close(b.magnitude, efac, tol):
        return failure(sub, case, efac, dict(magnitude=b.magnitude, read_as=b.expression), tags=tags,
                       behaviour="wrong-factor")
    # rendered text: must mean the same units by the tables, and parse back to the same units
    if b.expression is not None:
        rd = ref.split_expression(b.expression)
        if rd is None:
            return failure(sub, case, "rendered text made of table spellings", b.expression, tags=tags,
                           behaviour="render-invalid")
        rl = sorted(rd.items())
        rfac, _ = ref.terms_factor(rl)
        if ref.terms_dims(rl) != edims or (not numbers and (rfac is None or not units_ref.close(rfac, efac, tol))):
            return failure(sub, case, dict(factor=efac, dims=_dims_json(edims)),
                           dict(rendered=b.expression, factor=rfac), tags=tags, behaviour="render-differs")
        o2 = outcome(BaseUnits, b.expression)
        if o2[0] == "err":
            return failure(sub, case, "rendered text parses", dict(rendered=b.expression, error=o2[1], message=o2[2]),
                           tags=tags, behaviour="roundtrip-raises:" + o2[1])
        b2 = o2[1]
        same = outcome(lambda: (_libmap(b2) == _libmap(b)
                                and units_ref.dims_from_library(b2.dimensions.value()) == odims[1]
                                and units_ref.close(b2.magnitude, b.magnitude, RTOL)))
        if same != ("ok", True):
            return failure(sub, case, dict(units=str(b), magnitude=b.magnitude),
                           dict(rendered=b.expression, units=str(b2), magnitude=b2.magnitude), tags=tags,
                           behaviour="roundtrip-differs")
    elif merged:
        return failure(sub, case, "a rendered text", None, tags=tags, behaviour="render-empty")
    # Quantity(1, text): value x unit factor is the total factor, numeric factors included
    num = F(1)
    for n, s in numbers:
        num *= F(n) ** s
    etot = efac * float(num)
    oq = outcome(Quantity, 1, text)
    if oq[0] == "err":
        return failure(sub, case, dict(total=etot), dict(error=oq[1], message=oq[2]), tags=tags + ["via-quantity"],
                       behaviour="raises:" + oq[1])
    q = oq[1]
    oqv = outcome(lambda: (float(q.magnitude.value) * float(q.baseunits.magnitude),
                           units_ref.dims_from_library(q.baseunits.dimensions.value())))
    if oqv[0] == "err":
        return failure(sub, case, dict(total=etot), dict(error=oqv[1], message=oqv[2]), tags=tags + ["via-quantity"],
                       behaviour="quantity-unreadable")
    if oqv[1][1] != edims:
        return failure(sub, case, _dims_json(edims), _dims_json(oqv[1][1]), tags=tags + ["via-quantity"],
                       behaviour="wrong-dimensions")
    if not units_ref.close(oqv[1][0], etot, tol):
        return failure(sub, case, etot, dict(total=oqv[1][0], quantity=str(q)), tags=tags + ["via-quantity"],
                       behaviour="wrong-factor")
    # a parse must not change what its atoms mean afterwards (shared exponent objects, caches ...)
    names = [t for t, _ in terms]
    for t in sorted(set(n for n in names if names.count(n) >= 2)):
        bad = _atom_probe(t, F(1), bare=True)                          # the repeated spelling, exponent-less
        if bad is not None:
            _poison()
            return failure(sub, case, bad[0], bad[1], tags=tags + ["unit-occurs-twice", "probe-exponent-less"],
                           behaviour="atom-changed-by-earlier-parse")
    for t, e in terms:
        if names.count(t) < 2:
            continue
        for ee in (e, -e):
            bad = _atom_probe(t, ee)
            if bad is not None:
                _poison()
                return failure(sub, case, bad[0], bad[1], tags=tags + ["unit-occurs-twice"],
                               behaviour="atom-changed-by-earlier-parse")
    # ... nor what the NEXT plain valid string means (history: accepted string, then an exponent-less symbol)
    bad = _atom_probe("s", F(1), bare=True)
    if bad is not None:
        _poison()
        return failure(sub, case, dict(then_parsed=bad[0]), dict(then_parsed=bad[1]),
                       tags=tags + ["valid-parse-after-accepted"], behaviour="next-valid-parse-differs")
    return None


def _poison():
    global _POISONED
    _POISONED = True


def _atom_probe(t, e, bare=False):
    """parse the single atom t^e and compare with the tables; None if right, else (expected, observed).
    bare: exponent 1 is written without exponent (the plain symbol), otherwise as an explicit 1"""
    BaseUnits, _ = _lib()
    if e == 0:
        return None
    atext = t + (units_ref.exp_text(e) or ("" if bare else "1"))
    efac, _ = _REF.terms_factor([(t, e)])
    if efac is None:
        return None
    edims = _REF.terms_dims([(t, e)])
    o = outcome(BaseUnits, atext, timeout=5)
    if o[0] == "err":
        return dict(atom=atext, factor=efac), dict(atom=atext, error=o[1], message=o[2][:120])
    big = _exponent_out_of_bounds(o[1])
    if big:
        return dict(atom=atext, factor=efac), dict(atom=atext, exponent=big)
    od = outcome(lambda: units_ref.dims_from_library(o[1].dimensions.value()))
    if od != ("ok", edims) or not units_ref.close(o[1].magnitude, efac, RTOL):
        return (dict(atom=atext, factor=efac, dims=_dims_json(edims)),
                dict(atom=atext, read_as=o[1].expression, magnitude=_short(o[1].magnitude)))
    return None


def _quantity_probe():
    """Quantity(1, 'kg') right after a rejected string: None if it reads as the tables say"""
    BaseUnits, Quantity = _lib()
    efac, _ = _REF.terms_factor([("kg", F(1))])
    edims = _REF.terms_dims([("kg", F(1))])
    o = outcome(Quantity, 1, "kg", timeout=5)
    if o[0] == "err":
        return dict(atom="kg", factor=efac), dict(atom="kg", error=o[1], message=o[2][:120])
    b = o[1].baseunits
    od = outcome(lambda: units_ref.dims_from_library(b.dimensions.value()))
    if od != ("ok", edims) or not units_ref.close(b.magnitude, efac, RTOL) or o[1].value() != 1:
        return (dict(atom="kg", factor=efac, dims=_dims_json(edims)),
                dict(atom="kg", read_as=b.expression, magnitude=_short(b.magnitude), value=_short(o[1].value())))
    return None


def _short(x):
    try:
        return float(x)
    except Exception:
        return str(type(x))


def _exponent_out_of_bounds(b):
    for k, v in b.baseunits.items():
        try:
            if abs(v.num) > EXP_BOUND or abs(v.den) > EXP_BOUND:
                return "%s: %d digits / %d digits" % (k, len(str(abs(v.num))) if abs(v.num) < 10 ** 50 else 51,
                                                      len(str(abs(v.den))) if abs(v.den) < 10 ** 50 else 51)
        except Exception:
            return None
    return None


def _atom_case(sub, text, base, e, extra_tags=()):
    """derivation of a single-atom string -> case dict (verdict decided by the dictionary of valid spellings)"""
    tags = list(extra_tags)
    if e:
        tags.append("fractional-exponent" if ":" in e else "integer-exponent")
    sp = _REF.spellings.get(base)
    if sp is None:
        return dict(sub=sub, text=text, expect=None, tags=tags)
    if sp.prefix is not None:
        tags.append("%d-letter-prefix" % len(sp.prefix))
    if sp.system:
        tags.append("system-unit")
    return dict(sub=sub, text=text, expect=dict(terms=[[base, str(_exp_of(e))]], numbers=[]), tags=tags)


# ----------------------------------------------------------------------------------------------- engine
def plan(tier, seed):
    init_worker()
    if _fixed_alphabet_missing():
        return [("table",)]
    shards = [("table",)]
    shards += [("atom", i, N_ATOM_SHARDS) for i in range(N_ATOM_SHARDS)]
    shards += [("insert", i, N_INSERT_SHARDS) for i in range(N_INSERT_SHARDS)]
    shards += [("sweep", i, N_SWEEP_SHARDS) for i in range(N_SWEEP_SHARDS)]
    windows = [0, NWINDOWS + 1] + ([1 + seed % NWINDOWS] if tier == "quick" else list(range(1, NWINDOWS + 1)))
    for w in windows:
        for a in range(6):
            for b in range(6):
                shards.append(("struct", w, a, b))
    shards += [("numeric", a, None) for a in range(len(CORE) + len(NUMBERS))]
    shards += [("mixexp", i, N_MIX_SHARDS) for i in range(N_MIX_SHARDS)]
    shards += [("cancel", i, N_CANCEL_SHARDS) for i in range(N_CANCEL_SHARDS)]
    shards += [("repeat", "core", i) for i in range(len(REPEAT_CORE))]
    shards += [("repeat", "tpl", i) for i in range(N_REPEAT_TPL_SHARDS)]
    # the complete single-atom sub-spaces first: they yield the smallest counterexamples
    shards.sort(key=lambda d: 1 if d[0] == "struct" else 0)
    return shards


def _probe_set():
    """fixed probe atoms (m with every exponent spelling): True if the library still reads them as the tables say"""
    for e in EXPS:
        if e in ("", "0"):
            continue
        if _atom_probe("m", _exp_of(e)) is not None:
            return False
    return True


def _run(sh, case, nontrivial=True, sample=False):
    if _POISONED:
        sh.count("not-executed:library-state-corrupted")
        return
    r = check_case(case)
    sh.evaluations += 1
    if (sh.evaluations % 1000 == 0 or (r is not None and r != "skip")) and not _probe_set():
        _poison()                 # after any failure and every 1000 cases: is the library still sane?
        sh.count("probe-failed")
    leaked = _modstate_restore()
    if leaked:
        sh.count("module-state-restored")
        sh.add_to_set("module_state_leaks", leaked[0])
    if r == "skip":
        sh.count(case["sub"] + ":skipped-out-of-float-range")
        return
    if nontrivial:
        sh.nontrivial += 1
    sh.count(case["sub"] + (":reject-expected" if case["expect"] is None else ":accept-expected"))
    if sample:
        sh.sample(dict(sub=case["sub"], text=case["text"]), limit=2)
    if r is not None:
        sh.fail(r)
    if sh.evaluations % 2000 == 0:
        _tables_guard(sh)


def _tables_guard(sh):
    d = isolation.tables_restore()
    if d:
        sh.count("unit-tables-restored")
        sh.add_extra("table_leaks", [str(d)[:200]])


def run_shard(desc):
    sh = Shard(PROPERTY)
    kind = desc[0]
    if kind == "table":
        sh.evaluations += _REF.rows_validated
        sh.count("table:rows-validated", _REF.rows_validated)
        for case, exp, obs in _REF.schema_cases():
            sh.nontrivial += 1
            sh.fail(_table_failure(case, exp, obs))
        if _fixed_alphabet_missing():
            sh.count("table:fixed-alphabet-unavailable")
            sh.add_extra("fixed_alphabet_missing", _fixed_alphabet_missing())
    elif kind == "atom":
        cases = _atom_cases()
        for n, (text, base, e, why) in enumerate(cases[desc[1]::desc[2]]):
            c = _atom_case("atom", text, base, e)
            if c["expect"] is None:
                c["tags"] += why
            _run(sh, c, nontrivial=not (base in _REF.symbols and e == ""), sample=(n in (7, 400) and desc[1] == 0))
    elif kind == "insert":
        cases = _insert_cases()
        for n, (text, base, e, why) in enumerate(cases[desc[1]::desc[2]]):
            c = _atom_case("insert", text, base, e)
            c["tags"] += why
            _run(sh, c, sample=(n == 7 and desc[1] == 0))
        if desc[1] == 0:
            # words that Python's float() would take for a number but that are neither a table symbol nor a number in
            # the documented literal syntax: every string containing one must be rejected
            for tok in PSEUDO_NUMBERS:
                for tpl in ("%s", "%s*m", "m*%s", "kg/%s", "(%s)*m", "%s/s", "m2*%s*s-1"):
                    _run(sh, dict(sub="insert", text=tpl % tok, expect=None, tags=["pseudo-number"]))
    elif kind == "sweep":
        names = sorted(_REF.spellings)
        for n, t in enumerate(names[desc[1]::desc[2]]):
            for k, tpl in enumerate(SWEEP):
                text, signed = _sweep_case(tpl, t)
                _run(sh, dict(sub="sweep", text=text, expect=_expect(signed), tags=["template:%d" % k]),
                     sample=(n == 3 and k == 7 and desc[1] == 0))
    elif kind == "struct":
        _, w, a, b = desc
        alpha = _window(w)
        for n in (2, 3, 4):
            for si, shape in enumerate(_shapes(n, 2)):
                for rest in _product([list(range(6))] * (n - 2)):
                    if w == NWINDOWS + 1 and min([a, b] + rest) >= 2:
                        continue                      # no dimensionless atom: the string belongs to the core window
                    leaves = [alpha[i] for i in [a, b] + rest]
                    for ops in _product([["*", "/"]] * (n - 1)):
                        text, signed = _render(shape, leaves, ops)
                        _run(sh, dict(sub="struct", text=text, expect=_expect(signed),
                                      tags=["leaves:%d" % n, "window:%d" % w]),
                             sample=(n == 4 and si == 9 and (a, b) == (0, 1) and rest == [2, 3]
                                     and ops == ["/", "*", "/"]))
        sh.add_to_set("windows", w)
    elif kind == "numeric":
        alpha = list(CORE) + list(NUMBERS)
        a = desc[1]
        for n in (2, 3):
            for shape in _shapes(n, 2):
                for rest in _product([list(range(len(alpha)))] * (n - 1)):
                    leaves = [alpha[i] for i in [a] + rest]
                    nn = sum(1 for l in leaves if isinstance(l, str))
                    if nn == 0 or nn == len(leaves):
                        continue                      # no number / no unit: other sub-space / not demanded
                    for ops in _product([["*", "/"]] * (n - 1)):
                        text, signed = _render(shape, leaves, ops)
                        _run(sh, dict(sub="numeric", text=text, expect=_expect(signed), tags=["leaves:%d" % n]),
                             sample=(n == 3 and a == 0 and rest == [7, 2] and ops == ["*", "/"]))
    elif kind == "mixexp":
        names = sorted(_REF.spellings)
        for n, t in enumerate(names[desc[1]::desc[2]]):
            for a in MIX_EXPS:
                for b in MIX_EXPS:
                    if a == b:
                        continue                      # equal exponents: already in struct / sweep
                    for op in ("*", "/"):
                        text, signed = _render(["L", "L"], [(t, a), (t, b)], [op])
                        _run(sh, dict(sub="mixexp", text=text, expect=_expect(signed), tags=["leaves:2"]),
                             sample=(n == 2 and desc[1] == 0 and (a, b, op) == (MIX_EXPS[0], MIX_EXPS[1], "*")))
        if desc[1] < len(CORE):
            t = CORE[desc[1]][0]
            alpha = [(t, e) for e in MIX_EXPS] + [("kg", 1)]
            for shape in _shapes(3, 2):
                for idx in _product([list(range(len(alpha)))] * 3):
                    leaves = [alpha[i] for i in idx]
                    if len(set(l[1] for l in leaves if l[0] == t)) < 2:
                        continue                      # needs the same spelling with two different exponents
                    for ops in _product([["*", "/"]] * 2):
                        text, signed = _render(shape, leaves, ops)
                        _run(sh, dict(sub="mixexp", text=text, expect=_expect(signed), tags=["leaves:3"]),
                             sample=(desc[1] == 0 and idx == [0, 3, 7] and ops == ["/", "*"]))
    elif kind == "cancel":
        for n, (t, v) in enumerate(_cancel_pairs()[desc[1]::desc[2]]):
            for d in DIMLESS:
                for k, (text, signed) in enumerate((
                        ("%s*%s/%s" % (d, t, v), [((d, 1), 1), ((t, 1), 1), ((v, 1), -1)]),
                        ("%s/(%s*%s)" % (t, v, d), [((t, 1), 1), ((v, 1), -1), ((d, 1), -1)]),
                        ("%s2*%s/%s" % (d, t, v), [((d, 2), 1), ((t, 1), 1), ((v, 1), -1)]))):
                    _run(sh, dict(sub="cancel", text=text, expect=_expect(signed), tags=["template:%d" % k]),
                         sample=(n == 4 and desc[1] == 0 and d == "%" and k == 0))
    elif kind == "repeat" and desc[1] == "tpl":
        names = [t for t in sorted(_REF.spellings) if t not in REPEAT_CORE]
        for n, t in enumerate(names[desc[2]::N_REPEAT_TPL_SHARDS]):
            for k, tpl in enumerate(REPEAT_TEMPLATES):
                text, signed = _sweep_case(tpl, t)
                _run(sh, dict(sub="repeat", text=text, expect=_expect(signed), tags=["template:%d" % k]),
                     sample=(n == 5 and k == 6 and desc[2] == 0))
    elif kind == "repeat":
        t = REPEAT_CORE[desc[2]]
        seen = set()
        alpha3 = [(t, e) for e in REPEAT_EXPS] + list(REPEAT_PARTNERS)
        alpha4 = [(t, 1)] + list(REPEAT_PARTNERS)
        for n, alpha in ((2, alpha3[:len(REPEAT_EXPS)]), (3, alpha3), (4, alpha4)):
            for shape in _shapes(n, 2):
                for idx in _product([list(range(len(alpha)))] * n):
                    leaves = [alpha[i] for i in idx]
                    lnames = [l[0] for l in leaves]
                    if lnames.count(t) < 2:
                        continue                      # the symbol has to occur at least twice
                    rep2 = [c for c in REPEAT_CORE if lnames.count(c) >= 2]
                    if rep2[0] != t:
                        continue                      # two repeated core symbols: the case belongs to the first one
                    for ops in _product([["*", "/"]] * (n - 1)):
                        if n == 2 and ((leaves[0][1], leaves[1][1]) == (1, 1) or
                                       ((leaves[0][1], leaves[1][1]) == (2, 1) and ops == ["/"])):
                            continue                  # t*t, t/t, t2/t: sweep sub-space
                        text, signed = _render(shape, leaves, ops)
                        if text in seen:
                            continue                  # partner equal to the symbol itself (kg, s)
                        seen.add(text)
                        _run(sh, dict(sub="repeat", text=text, expect=_expect(signed),
                                      tags=["leaves:%d" % n, "core-symbol"]),
                             sample=(n == 4 and desc[2] == 0 and idx == [1, 0, 0, 2] and ops == ["*", "*", "/"]))
    else:
        raise HarnessError("unknown shard %r" % (desc,))
    _tables_guard(sh)
    return sh


_REPLAY_CODE = ("import sys, json\n"
                "from mc import common\n"
                "common.use_repo()\n"
                "from mc.checks import c03_unit_parse as C\n"
                "C.init_worker()\n"
                "r = C.check_case(json.load(sys.stdin))\n"
                "print('\\n@@C03-REPLAY@@' + json.dumps(None if r == 'skip' else r, default=repr))\n")


def replay(rec):
    """Re-execute ONE case in a fresh interpreter: whatever this process parsed before (a library that remembers
    earlier parses would make the outcome depend on it) cannot influence the replay, and two replays are identical."""
    import os
    import sys
    import json
    import subprocess
    r = subprocess.run([sys.executable, "-W", "ignore", "-c", _REPLAY_CODE], input=json.dumps(rec["case"]),
                       capture_output=True, text=True, cwd=VERIF, timeout=300, env=dict(os.environ))
    mark = "@@C03-REPLAY@@"
    if r.returncode != 0 or mark not in r.stdout:
        raise HarnessError("replay interpreter failed: " + (r.stderr or r.stdout)[-600:])
    return json.loads(r.stdout.split(mark, 1)[1])


def finish(total, tier, seed):
    h = total.hist
    if h.get("table:fixed-alphabet-unavailable"):
        # the tables are so broken that the fixed alphabets do not exist; the 'table' failures say why
        return dict(caps_hit=["only the table schema was checked: fixed alphabet unavailable"], exhaustive=False)
    if h.get("table:rows-validated", 0) < 200:
        raise HarnessError("table schema not validated: %r" % (h,))
    if h.get("not-executed:library-state-corrupted") or h.get("probe-failed"):
        if not (total.failures or total.known):
            raise HarnessError("library state corrupted (probe set re-parsed differently) but no replayable case "
                               "was identified: %r" % (h,))
        return dict(caps_hit=["workers stopped executing cases after the library corrupted its own state: %d cases "
                              "not executed" % h.get("not-executed:library-state-corrupted", 0)], exhaustive=False)
    if h.get("atom:accept-expected", 0) < 1000 or h.get("atom:reject-expected", 0) < 1000:
        raise HarnessError("vacuous atom sub-space: %r" % (h,))
    if h.get("insert:reject-expected", 0) < 1000:     # valid results of an insertion belong to the atom sub-space
        raise HarnessError("vacuous insert sub-space: %r" % (h,))
    for sub in ("sweep", "struct", "numeric", "mixexp", "cancel", "repeat"):
        if h.get(sub + ":accept-expected", 0) < 1000:
            raise HarnessError("vacuous %s sub-space: %r" % (sub, h))
    skipped = sum(v for k, v in h.items() if k.endswith("skipped-out-of-float-range"))
    return dict(
        table_symbols=len(_REF.symbols), prefixes=len(_REF.prefixes), valid_spellings=len(_REF.spellings),
        exponent_spellings=EXPS, foreign_items=JUNK, numeric_factors=NUMBERS,
        mixed_exponents=[units_ref.exp_text(e) or "1" for e in MIX_EXPS], parses_per_rejected_string=4,
        structure=dict(max_leaves=4, max_nesting=2, shapes={n: len(_shapes(n, 2)) for n in (2, 3, 4)},
                       alphabet_size=6, windows_total=NWINDOWS + 2,
                       windows_explored=sorted(total.sets.get("windows", []))),
        repeated_symbol=dict(core_spellings=REPEAT_CORE, exponents=[units_ref.exp_text(e) or "1" for e in REPEAT_EXPS],
                             partners=[_leaf_text(p) for p in REPEAT_PARTNERS], max_leaves=4,
                             templates_per_other_spelling=len(REPEAT_TEMPLATES)),
        probes_after_accepted_string=["s (exponent-less)", "each repeated spelling: exponent-less, as written, negated"],
        module_state=dict(slots_restored_after_every_case=sorted("%s.%s" % (x[0], x[1]) for x in _MODSTATE or () if not x[5]),
                          leaks_undone=sorted(total.sets.get("module_state_leaks", []))),
        skipped_out_of_float_range=skipped, caps_hit=[],
        relative_tolerance=RTOL,
    )


MANIFEST = dict(
    text="Complete enumeration on the real parser: every table symbol (153 units/constants + 112 system units) x every "
         "prefix (admissible or not) x 16 exponent spellings (one/two-digit numerators and denominators); every valid "
         "spelling with one of 10 foreign items put in front of / inside / behind it (plus pseudo-number words); every "
         "valid spelling in 12 product/quotient/parenthesis templates; all "
         "expressions with <= 4 leaves, nesting <= 2 over 6-atom alphabets (core + dimensionless window + 1 of 24 table windows in quick, all "
         "in thorough); numeric factors in all <= 3-leaf expressions; every valid spelling repeated with two different "
         "exponents out of 7 (merged denominators up to 28); every valid spelling cancelling against another spelling of "
         "its dimension next to %, ppth, [pi], [N_0]; the same symbol two to four times in one product/quotient: all "
         "2-3-leaf expressions over {t, t2, t-1, t1:2, kg, s2} and 4-leaf over {t, kg, s2} with t at least twice for 16 "
         "core spellings, 16 repeat templates for every other valid spelling. Every accepted string is followed in the "
         "same case by plain probe parses (exponent-less s; a repeated spelling exponent-less, as written and negated) that "
         "must read as the tables say, and module-level state of scinumtools.units.* is restored after every case. Every accepted string is observed through BaseUnits and through "
         "Quantity(1, text). Every must-reject string is parsed 4 times in one process "
         "and must be rejected each time, and a plain valid string parsed through the same entry point right after the first and third rejection must read as the tables say. Factor (rel 1e-12), exact rational dimension "
         "vector, accept/reject verdict, meaning of the rendered text and the parse-render-parse round trip are "
         "compared with a Fraction model built from the published tables.",
    note="Bounded: exponents from 16 spellings, <= 4 leaves, nesting <= 2, 10 foreign items, 4 numeric factors; longer "
         "expressions and other characters rely on the small-scope hypothesis. Trusted: the published tables as "
         "specification, Python Fraction/float arithmetic. Blanks, exponent on a parenthesis, term order not demanded.",
    technique="bounded grammar unfolding from derivations, dictionary-of-valid-spellings + Fraction reference model",
)
