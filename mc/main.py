"""./run <Cxx> [--tier quick|thorough] [--replay FILE] [--workers N]

Exit codes: 0 property held on everything explored (known findings are printed)
            1 violation (line "VIOLATION property=<id> replay=<path>")
            2 harness error (broken check; nothing it reports is to be believed)
"""
import os
import sys
import json
import time
import glob
import argparse
import importlib
import traceback
import subprocess
import multiprocessing as mp

from . import common, findings
from .common import Shard, HarnessError, VERIF

MAX_REPLAYS = 8


def load_check(pid):
    pid = pid.upper()
    hits = glob.glob(os.path.join(VERIF, "mc", "checks", pid.lower() + "_*.py"))
    if len(hits) != 1:
        raise HarnessError(f"no unique check module for {pid}: {hits}")
    name = os.path.basename(hits[0])[:-3]
    return importlib.import_module("mc.checks." + name)


_CHECK = None


def _init_worker(pid):
    global _CHECK
    common.use_repo()
    _CHECK = load_check(pid)
    common.prime_inspect_cache()
    if hasattr(_CHECK, "init_worker"):
        _CHECK.init_worker()


def _run_shard(desc):
    try:
        sh = _CHECK.run_shard(desc)
        return ("ok", sh)
    except BaseException:
        return ("crash", "shard %r\n%s" % (desc, traceback.format_exc()))


def _sort_key(rec):
    return (len(json.dumps(rec["case"], default=repr)), json.dumps(rec["case"], default=repr))


def _replay_in_fresh_processes(pid, rec):
    """Run `./run <pid> --replay f --repeat 3` twice; return the sequence if both runs agree and contain a failure."""
    import tempfile
    fd, path = tempfile.mkstemp(suffix=".json", dir="/dev/shm")
    try:
        with os.fdopen(fd, "w") as f:
            json.dump(dict(failure=rec), f, default=repr)
        outs = []
        for _ in range(2):
            r = subprocess.run([os.path.join(VERIF, "run"), pid, "--replay", path, "--repeat", "3"],
                               capture_output=True, text=True, timeout=600)
            lines = [l for l in r.stdout.splitlines() if l.startswith("REPLAY-SEQUENCE ")]
            if not lines:
                return None
            outs.append(lines[0])
        if outs[0] != outs[1]:
            return None
        seq = json.loads(outs[0][len("REPLAY-SEQUENCE "):])
        return seq if any(x is not None for x in seq) else None
    finally:
        os.unlink(path)


def write_evidence(pid, ev):
    path = os.path.join(os.environ.get("VERIF_EVIDENCE_DIR", os.path.join(VERIF, "evidence")), pid + ".json")
    os.makedirs(os.path.dirname(path), exist_ok=True)
    tmp = path + ".tmp"
    with open(tmp, "w") as f:
        json.dump(ev, f, indent=1, sort_keys=True, default=repr)
        f.write("\n")
    os.replace(tmp, path)
    # validate with the tooling venv (has jsonschema); failure => harness error
    code = ("import json,sys,jsonschema;"
            "jsonschema.validate(json.load(open(sys.argv[1])),json.load(open(sys.argv[2])))")
    schema = "/root/.vp/EVIDENCE.schema.json"
    if os.path.exists(schema):
        try:
            r = subprocess.run(["python3-vt", "-c", code, path, schema], capture_output=True, text=True,
                               timeout=120)
        except FileNotFoundError:
            return path
        if r.returncode != 0:
            raise HarnessError("evidence file does not validate: " + r.stderr[-800:])
    return path


def main(argv=None):
    ap = argparse.ArgumentParser()
    ap.add_argument("property")
    ap.add_argument("--tier", default=os.environ.get("VERIF_TIER", "quick"), choices=["quick", "thorough"])
    ap.add_argument("--replay")
    ap.add_argument("--repeat", type=int, default=1, help="with --replay: execute the case N times in one process")
    ap.add_argument("--workers", type=int, default=int(os.environ.get("VERIF_WORKERS", "16")))
    args = ap.parse_args(argv)
    pid = args.property.upper()
    try:
        seed = int(os.environ.get("VERIF_SEED", "0"))
    except ValueError:
        seed = 0
    try:
        return _main(pid, args, seed)
    except HarnessError as e:
        print(f"HARNESS-ERROR property={pid}: {e}", flush=True)
        return 2
    except Exception:
        print(f"HARNESS-ERROR property={pid}: unexpected\n{traceback.format_exc()}", flush=True)
        return 2


def _main(pid, args, seed):
    t0 = time.time()
    common.use_repo()
    check = load_check(pid)
    common.prime_inspect_cache()
    if hasattr(check, "init_worker"):
        check.init_worker()

    if args.replay:
        rec = json.load(open(args.replay))
        rec = rec.get("failure", rec)
        got = None
        seq = []
        for _ in range(max(1, args.repeat)):
            g = check.replay(rec)
            seq.append(None if g is None else g["behaviour"])
            got = got or g
        if args.repeat > 1:
            print("REPLAY-SEQUENCE " + json.dumps(seq))
        if got is None:
            print(f"replay: property {pid} holds on this case")
            return 0
        print(json.dumps(got, indent=1, default=repr))
        fid = findings.attribute(pid, got)
        if fid:
            print(f"KNOWN-FINDING: property={pid} {fid} {findings.what(fid)}")
            return 0
        print(f"VIOLATION property={pid} replay={args.replay}")
        return 1

    shards = check.plan(args.tier, seed)
    total = Shard(pid)
    nw = max(1, min(args.workers, len(shards)))
    ctx = mp.get_context("fork")
    # wall-clock limit for the whole exploration: a (mutated) library can spend unbounded time inside one C-level
    # operation that the per-case alarm cannot interrupt; such a run is a broken run (exit 2), never silently green
    deadline = t0 + float(os.environ.get("VERIF_DEADLINE", "1500" if args.tier == "quick" else "5400"))
    with ctx.Pool(nw, initializer=_init_worker, initargs=(pid,)) as pool:
        it = pool.imap_unordered(_run_shard, shards, chunksize=1)
        for _ in range(len(shards)):
            try:
                status, res = it.next(timeout=max(1.0, deadline - time.time()))
            except mp.TimeoutError:
                pool.terminate()
                raise HarnessError("exploration exceeded its wall-clock limit of %.0f s (a case did not terminate?)"
                                   % (deadline - t0))
            if status != "ok":
                pool.terminate()
                raise HarnessError("worker crashed: " + res)
            total.merge(res)

    # ---- classify failures --------------------------------------------------------------
    unknown = sorted(total.failures, key=_sort_key)
    reported = []
    for rec in unknown:
        if len(reported) >= MAX_REPLAYS:
            break
        # one report per (sub, behaviour) class keeps the list readable
        if any(r["sub"] == rec["sub"] and r["behaviour"] == rec["behaviour"] for r in reported) \
                and len(reported) >= 3:
            continue
        a = check.replay(rec)
        b = check.replay(rec)
        if a is None or b is None or a["observed"] != b["observed"]:
            # Not reproducible as a single isolated execution.  Either the harness is nondeterministic (broken check)
            # or the LIBRARY's answer depends on what it was asked before in the same process (a cache, leaked state).
            # Decide by replaying the case several times in each of two fresh processes: identical sequences that
            # contain a failure are a deterministic, history-dependent violation.
            seqs = _replay_in_fresh_processes(pid, rec)
            if seqs is None:
                raise HarnessError("failure does not reproduce deterministically in isolation "
                                   "(state leaked between cases, or nondeterminism): "
                                   + json.dumps(rec, default=repr)[:1500])
            rec = dict(rec)
            rec["note"] = (rec.get("note", "") + " history-dependent: outcome of repeated execution in one fresh "
                           "process = %s" % json.dumps(seqs)).strip()
            rec["replay_repeat"] = 3
        reported.append(rec)

    cov = dict(evaluations=total.evaluations, distinct_nontrivial=total.nontrivial,
               rule=getattr(check, "RULE", ""), samples=total.samples,
               outcome_histogram=dict(sorted(total.hist.items())),
               exhaustive=True, shards=len(shards), workers=nw)
    if total.states or getattr(check, "LEVEL", "") == "model_checking":
        cov.update(states=total.states, transitions=total.transitions,
                   traces_validated_against_impl=total.traces, max_depth=total.max_depth)
    cov.update(total.extra)
    if hasattr(check, "finish"):
        extra = check.finish(total, args.tier, seed)   # may raise HarnessError on vacuity
        if extra:
            cov.update(extra)
    known = {k: v for k, v in total.known.items()}
    cov["known_findings"] = {k: v["n"] for k, v in known.items()}
    nviol = len(total.failures) + total.failures_dropped
    ev = dict(property_id=pid, tier=args.tier, seed=seed, level=check.LEVEL, coverage=cov,
              assumptions=list(getattr(check, "ASSUMPTIONS", [])),
              wall_s=round(time.time() - t0, 2), violations=nviol)
    write_evidence(pid, ev)

    for fid in sorted(known):
        print(f"KNOWN-FINDING: property={pid} {fid} {findings.what(fid)} "
              f"[{known[fid]['n']} cases, e.g. {json.dumps(known[fid]['example']['case'], default=repr)[:160]}]")
    print(f"{pid} tier={args.tier} seed={seed} evaluations={total.evaluations} "
          f"distinct_nontrivial={total.nontrivial} states={total.states} transitions={total.transitions} "
          f"failures={nviol} wall={ev['wall_s']}s", flush=True)
    if not reported:
        return 0
    classes = {}
    for rec in total.failures:
        key = (rec["sub"], rec["behaviour"], ",".join(rec["tags"]))
        classes.setdefault(key, [0, rec])
        classes[key][0] += 1
    for key, (n, rec) in sorted(classes.items(), key=lambda kv: -kv[1][0])[:25]:
        print(f"  class sub={key[0]} behaviour={key[1]} tags=[{key[2]}] n={n} e.g. {json.dumps(rec['case'], default=repr)[:200]}")
    rdir = os.environ.get("VERIF_REPLAY_DIR", os.path.join(VERIF, "replays"))
    os.makedirs(rdir, exist_ok=True)
    for i, rec in enumerate(reported):
        path = os.path.join(rdir, f"{pid}-{i}.json")
        with open(path, "w") as f:
            json.dump(dict(property=pid, failure=rec,
                           replay_cmd=f"./run {pid} --replay {path}" + (" --repeat %d" % rec["replay_repeat"]
                                                                       if rec.get("replay_repeat") else "")),
                      f, indent=1, default=repr)
        print(f"  {rec['sub']}: case={json.dumps(rec['case'], default=repr)[:300]} expected={str(rec['expected'])[:200]} "
              f"observed={str(rec['observed'])[:200]} [{rec['behaviour']}]")
        print(f"VIOLATION property={pid} replay={path}", flush=True)
    return 1


if __name__ == "__main__":
    sys.exit(main())
