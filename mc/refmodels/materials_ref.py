"""Reference model for the materials family (C10-C12).

Boring by construction: species data are read from the published isotope table (PT_DATA, read as data) and the
two unit-table rows needed to express the electron / nucleon masses in Da; a formula is an AST that is *rendered*
to a string for the library and *expanded* to a multiset by a five-line recursion here.  No regular expression, no
parsing, nothing shared with the code under test except the data tables.

AST (JSON-serialisable):
    leaf   ["s", species, count, style]
    group  ["g", [item, ...], [sep, ...], count, style]        len(seps) == len(items)-1
    root   a group whose parentheses are not rendered (render(root, top=True))
  species  string in the documented notation: "O", "O{17}", "O{-2}", "Fe{56+3}", "[e]", "D"
  count    1 means "no count written"; style 0 = short notation "X2", 1 = explicit "X * 2"
  sep      "" (implicit addition), " " (blank), " + " (explicit addition)
"""
import math

_T = None


def tables():
    """(PT_DATA, electron mass in Da, {nucleon: mass in Da}) - read once, as data."""
    global _T
    if _T is None:
        from scinumtools.materials.periodic_table import PT_DATA
        from scinumtools.units.settings import UNIT_STANDARD
        da = UNIT_STANDARD["Da"].magnitude
        me = UNIT_STANDARD["[m_e]"].magnitude / da
        nuc = {k: UNIT_STANDARD["[m_%s]" % k].magnitude / da for k in "pne"}
        _T = (PT_DATA, me, nuc)
    return _T


# ------------------------------------------------------------------------------------------ species
class _Charge(dict):
    """signed charge number of a suffix text: '' -> 0, '+' -> 1, '-' -> -1, '+12' -> 12, '-26' -> -26"""
    def __missing__(self, q):
        if not q:
            return 0
        if q in ("+", "-"):
            return 1 if q == "+" else -1
        sign = -1 if q[0] == "-" else 1
        digits = q[1:]
        if q[0] not in "+-" or not digits.isdigit():
            raise ValueError("charge suffix " + repr(q))
        n = 0
        for ch in digits:                       # plain positional decimal value, every digit counts
            n = 10 * n + "0123456789".index(ch)
        return sign * n


QTEXT = _Charge()


def species_string(sym, A=None, qtext=None):
    if A is None and not qtext:
        return sym
    return "%s{%s%s}" % (sym, "" if A is None else A, qtext or "")


def split_species(sp):
    """inverse of species_string for the spellings this module generates (no regex: plain slicing)"""
    if sp.startswith("["):
        return sp, None, None
    if "{" not in sp:
        return sp, None, None
    sym, rest = sp.split("{", 1)
    rest = rest[:-1]
    i = 0
    while i < len(rest) and rest[i].isdigit():
        i += 1
    return sym, (int(rest[:i]) if i else None), (rest[i:] or None)


def species_defined(sp, natural):
    """False where the statement gives no value: no tabulated abundance for an unspecified isotope, or a charge
    that would leave a negative electron number."""
    PT, me, nuc = tables()
    sym, A, qtext = split_species(sp)
    if sym.startswith("["):
        return True
    if sym in ("D", "T"):
        return A is None and not qtext
    Z, iso = PT[sym]
    if Z + QTEXT[qtext] < 0:
        return False
    if A is None:
        return sum(a for _, a in iso.values()) > 0
    return str(A) in iso


def species_data(sp, natural):
    """dict(element, isotope, ionisation, mass, Z, N, e); isotope is None where the statement does not fix it
    (natural mean of an unspecified isotope)"""
    PT, me, nuc = tables()
    sym, A, qtext = split_species(sp)
    if sym.startswith("["):
        k = sym[1]
        z, n, e = dict(p=(1, 0, 0), n=(0, 1, 0), e=(0, 0, 1))[k]
        return dict(element=sym, isotope=None, ionisation=0, mass=nuc[k], Z=z, N=n, e=e)
    if sym == "D":
        sym, A = "H", 2
    elif sym == "T":
        sym, A = "H", 3
    q = QTEXT[qtext]
    Z, iso = PT[sym]
    if A is not None:
        m = iso[str(A)][0]
        return dict(element=sym, isotope=A, ionisation=q, mass=m + q * me, Z=Z, N=A - Z, e=Z + q)
    if natural:
        w = sum(a for _, a in iso.values())
        m = math.fsum(mm * a for mm, a in iso.values()) / w
        n = math.fsum((int(k) - Z) * a for k, (_, a) in iso.items()) / w
        return dict(element=sym, isotope=None, ionisation=q, mass=m + q * me, Z=Z, N=n, e=Z + q)
    best = max(iso.items(), key=lambda kv: kv[1][1])     # abundances have no ties (asserted in the check)
    A = int(best[0])
    return dict(element=sym, isotope=A, ionisation=q, mass=best[1][0] + q * me, Z=Z, N=A - Z, e=Z + q)


# ------------------------------------------------------------------------------------------ formulas
def leaf(sp, count=1, style=0):
    return ["s", sp, count, style]


def group(items, seps=None, count=1, style=0):
    items = list(items)
    if seps is None:
        seps = [""] * (len(items) - 1)
    return ["g", items, list(seps), count, style]


def _cnt(count, style):
    if count == 1:
        return ""
    return (" * %s" % count) if style else str(count)


def render(node, top=True):
    if node[0] == "s":
        return node[1] + _cnt(node[2], node[3])
    _, items, seps, count, style = node
    out = render(items[0], False)
    for sep, it in zip(seps, items[1:]):
        out += sep + render(it, False)
    if top:
        return out
    return "(" + out + ")" + _cnt(count, style)


def expand(node, mult=1, acc=None):
    """multiset of species {species: count} obtained by expanding the formula"""
    if acc is None:
        acc = {}
    if node[0] == "s":
        acc[node[1]] = acc.get(node[1], 0) + mult * node[2]
        return acc
    _, items, seps, count, style = node
    for it in items:
        expand(it, mult * count, acc)
    return acc


def leaves(node):
    if node[0] == "s":
        return 1
    return sum(leaves(i) for i in node[1])


def groups(node, top=True):
    if node[0] == "s":
        return 0
    return (0 if top else 1) + sum(groups(i, False) for i in node[1])


def depth(node, top=True):
    if node[0] == "s":
        return 0
    return (0 if top else 1) + max(depth(i, False) for i in node[1])


def totals(counts, natural):
    """count-weighted sums of the per-species data"""
    tot = dict(mass=0.0, Z=0.0, N=0.0, e=0.0)
    for sp, c in counts.items():
        d = species_data(sp, natural)
        for k in tot:
            tot[k] += c * d[k]
    return tot


def close(a, b, rel=1e-10, abs_=0.0):
    try:
        a = float(a)
        b = float(b)
    except (TypeError, ValueError):
        return False
    if math.isnan(a) or math.isnan(b):
        return False
    return abs(a - b) <= max(rel * max(abs(a), abs(b)), abs_)


# ------------------------------------------------------------------------------------------ operation histories
# E1-style exploration of live composites.  A history is a list of operations applied to a start object:
#     ["add", key, amount]            in-place  obj.add(key, amount)     (key already present or new)
#     ["plus", [[key, amount], ...]]  obj = obj + other                   (other: fresh composite of the same kind)
#     ["pluscomp", key, amount]       obj = obj + <one component object>  (Element for a Substance, Substance for a
#                                     Material) carrying the proportion `amount`
#     ["mul", k]                      obj = obj * k  (Substance)  /  k * obj  (Material)
#     ["rplus", [[key, amount], ...]] obj = other + obj                   (the live object is the right operand)
#     (an empty pairs list = an empty composite as the other operand; k = 1 = the identity factor)
#     ["iadd", pairs], ["imul", k]    augmented assignment  obj += other,  obj *= k  (same amounts as plus / mul;
#                                     whether the object is updated in place or rebound is left to the library)
# The reference state is nothing but the ordered dict {component: amount}.
def model_apply(counts, op):
    c = dict(counts)
    if op[0] in ("add", "pluscomp"):
        c[op[1]] = (c[op[1]] + op[2]) if op[1] in c else op[2]
    elif op[0] in ("plus", "iadd"):
        for k, v in op[1]:
            c[k] = (c[k] + v) if k in c else v
    elif op[0] == "rplus":                   # obj = other + obj : the live object is the RIGHT operand
        c = {}
        for k, v in list(op[1]) + list(counts.items()):
            c[k] = (c[k] + v) if k in c else v
    elif op[0] in ("mul", "imul"):
        c = {k: v * op[1] for k, v in c.items()}
    else:
        raise ValueError(op)
    return c


def model_run(counts, history):
    for op in history:
        counts = model_apply(counts, op)
    return counts


def op_class(counts, op):
    """feature of an operation relative to the state it is applied to (used as a tag)"""
    if op[0] == "add":
        return "add-existing" if op[1] in counts else "add-new"
    if op[0] == "pluscomp":
        return "pluscomp-existing" if op[1] in counts else "pluscomp-new"
    if op[0] in ("plus", "rplus", "iadd") and not op[1]:
        return op[0] + "-empty"              # the other operand is an empty composite (identity of '+')
    if op[0] in ("mul", "imul") and op[1] == 1:
        return op[0] + "-identity"
    if op[0] in ("iadd", "imul"):
        return op[0]
    if op[0] == "rplus":
        return "rplus-shared" if any(k in counts for k, _ in op[1]) else "rplus-disjoint"
    if op[0] == "plus":
        keys = [k for k, _ in op[1]]
        if not any(k in counts for k in keys):
            return "plus-disjoint"
        return "plus-shared-last" if keys[-1] in counts else "plus-shared"
    return "mul"


def history_tags(counts, history):
    tags = set()
    for i, op in enumerate(history):
        cl = op_class(counts, op)
        tags.add("op:" + cl)
        if i == len(history) - 1:
            tags.add("last:" + cl)
        counts = model_apply(counts, op)
    tags.add("depth=%d" % len(history))
    return sorted(tags)


def real_run(obj, history, make_other, material, make_component=None, counts=None, alive=None, after_step=None):
    """apply the history to the live object; make_other(pairs) builds the right operand of '+',
    make_component(key, amount) the single-component operand.  When `counts` (start amounts) and the list `alive`
    are given, every operand of a non-mutating operation is appended to `alive` as (role, object, amounts it must
    still have) so that the caller can re-read it afterwards."""
    for i, op in enumerate(history):
        if after_step is not None:
            after_step(obj)          # reads between the steps (start object and every intermediate object)
        if op[0] == "add":
            obj.add(op[1], op[2])
        elif op[0] == "iadd":
            other = make_other(op[1])
            obj += other
            if alive is not None:
                alive.append(("right-operand", other, dict((k, v) for k, v in op[1])))
        elif op[0] == "imul":
            obj *= op[1]
        elif op[0] == "rplus":
            right = obj
            other = make_other(op[1])
            obj = other + right
            if alive is not None:
                alive.append(("left-operand", other, dict((k, v) for k, v in op[1])))
                if counts is not None:
                    alive.append(("right-operand", right, dict(counts)))
        else:
            left = obj
            if op[0] == "plus":
                other = make_other(op[1])
                obj = left + other
                if alive is not None:
                    alive.append(("right-operand", other, dict((k, v) for k, v in op[1])))
            elif op[0] == "pluscomp":
                obj = left + make_component(op[1], op[2])
            elif material:
                obj = op[1] * left
            else:
                obj = left * op[1]
            if alive is not None and counts is not None:
                alive.append(("left-operand", left, dict(counts)))
        if counts is not None:
            counts = model_apply(counts, op)
    return obj


def histories(alphabet, depth):
    """every sequence of 1..depth operations, shortest first"""
    import itertools
    for n in range(1, depth + 1):
        for h in itertools.product(alphabet, repeat=n):
            yield [list(o) for o in h]


def state_key(start, counts):
    return (start,) + tuple((k, float(v)) for k, v in counts.items())


# ------------------------------------------------------------------------------------------ module-level state
# State that crosses objects (caches at module or class level of scinumtools.materials) would make one case depend on
# the cases executed before it in the same worker, and a reported failure would not reproduce in a fresh process.
# The snapshot remembers every plain container (dict / list / set) found at module level and in the class dicts of the
# materials modules; materials_state_restore() puts them back in place (shallow), removes containers that appeared
# later and clears functools caches.  It returns the names of what it had to repair.
_MSNAP = None


def _material_holders():
    import sys
    import inspect
    out = []
    for name, mod in sorted(sys.modules.items()):
        if mod is None or not name.startswith("scinumtools.materials"):
            continue
        out.append((name, mod, vars(mod)))
        for cname, cls in list(vars(mod).items()):
            if inspect.isclass(cls) and getattr(cls, "__module__", "") == name:
                out.append((name + "." + cname, cls, dict(vars(cls))))
    return out


def materials_state_snapshot():
    global _MSNAP
    snap = {}
    for hname, holder, attrs in _material_holders():
        for a, v in list(attrs.items()):
            if a.startswith("__"):
                continue
            if type(v) in (dict, list, set):
                snap[(hname, a)] = (v, type(v)(v))
    _MSNAP = snap
    return len(snap)


def materials_state_restore():
    if _MSNAP is None:
        materials_state_snapshot()
        return []
    repaired = []
    for hname, holder, attrs in _material_holders():
        for a, v in list(attrs.items()):
            if a.startswith("__"):
                continue
            if type(v).__name__ == "_lru_cache_wrapper":       # functools.lru_cache / functools.cache
                try:
                    if v.cache_info().currsize:
                        repaired.append(hname + "." + a + " (function cache)")
                    v.cache_clear()
                except Exception:
                    pass
                continue
            if type(v) not in (dict, list, set):
                continue
            key = (hname, a)
            if key not in _MSNAP:
                if len(v):
                    repaired.append(hname + "." + a + " (new container)")
                v.clear()
                continue
            obj, copy_ = _MSNAP[key]
            same = (v is obj) and len(v) == len(copy_) and \
                (list(v) == list(copy_) if type(v) is not set else v == copy_)
            if same and type(v) is dict:
                same = all(v[k] is copy_[k] for k in copy_)
            if not same:
                repaired.append(hname + "." + a)
                if v is not obj:
                    setattr(holder, a, obj)
                obj.clear()
                if type(obj) is dict:
                    obj.update(copy_)
                elif type(obj) is list:
                    obj.extend(copy_)
                else:
                    obj |= copy_
    return repaired
