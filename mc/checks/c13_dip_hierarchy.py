"""C13 - DIP node paths follow indentation and values are the literals written.

E2 bounded grammar enumeration on the real parser.  Programs are built as ASTs (mc/refmodels/dip_gen_a.py), rendered
to DIP text, parsed by DIP().parse() and the result of env.data(Format.TYPE) / env.data(Format.TUPLE) is compared with
the reference interpretation of the AST (which never sees the text).

Sub-checks
  trees     every ordered tree of <= N lines and depth <= 4 whose lines are groups, typed definitions, definitions with
            a dotted name (own prefix / prefix of the preceding sibling) and dotted groups; the data type and value
            form rotates with the line number; de-indentation by 1, 2 and 3 levels; same names under different parents
  tabletrees every tree of groups, definitions and TABLES (leaves) of <= 4 (5) lines: a table after a typed node, a group,
            a parent node, a de-indentation, at root and nested, and nodes after a table; both entry points
  widths    every tree of groups/definitions with every assignment of 1, 2 or 4 blanks to the children of each parent,
            with every uniform base indentation (0, 1, 2, 4 blanks in front of all lines) through add_string AND add_file
            (trees / layout rotate base indentation and entry point with the case number)
  layout    every way of adding <= 2 decorations (blank line, line of blanks, comment-only line at three indentations,
            trailing comment with four texts) to every small tree; the result must not change
  comments  every literal form (and the one-column tables) x every shape of trailing comment (quote characters of both
            kinds followed by the end of the line / one word / several words, apostrophes, empty comment, '#', '=')
  literals  (through BOTH entry points, DIP.add_string and DIP.add_file)
            every literal form of the alphabet (bool / int / float spellings / strings / none / inline, quoted and
            block arrays / tables) at root, below a group and behind a dotted name, with sentinel nodes around it
  pairs     (thorough) every ordered pair of a representative subset of the literals in one program
  sequences HISTORIES of parses in one process (the statement holds for every parse, not only for the first one of a
            process): case = 2 or 3 texts parsed one after the other by separate DIP() objects, every parse compared
            with its own reference.  Pool = every tree of <= 3 lines over group / definition / table (thorough: also
            dotted definitions) in which equal names, equal line texts and equal table blocks recur at other places of
            the hierarchy; every ORDERED PAIR of pool programs (the second one in a rotating layout), every program
            followed by itself in every layout (6 width assignments x 4 base indentations x 2 entry points), and every
            ordered TRIPLE of the programs of <= 2 lines.  Everything the library keeps on classes / modules
            (containers, mutable defaults, lru caches) is put back to its import-time content between cases, so that
            a case never depends on what its worker executed before and replays in a fresh process.

Not demanded (left out of the alphabet): tab indentation, inconsistent sibling indentation, escapes inside strings,
string arrays with single-quoted elements (arrays are specified as JSON), indented content lines of blocks, nodes
below a table, comments inside blocks, a bare CR in a file (universal newlines), control characters inside JSON array
items or bare values, a quoted 'none', values starting with '{' or '(',
out-of-range integers for the declared width, negative values for unsigned types, '#' directly attached to a value.
"""
import itertools

from ..common import Shard, failure, outcome, HarnessError, mine
from .. import isolation
from ..refmodels import dip_gen_a as G

PROPERTY = "C13"
LEVEL = "exploration"
RULE = ("case = one DIP text; cases are enumerated as (tree shape, line kinds, value-form phase, indentation widths, "
        "decorations) or (literal, placement); de-duplicated by the rendered text (shards are cut by tree shape / "
        "literal so equal texts always meet in one shard); non-trivial = the expected environment has >= 1 parameter; "
        "sequences: case = ordered history of 2-3 such texts parsed in one process (pool programs and the layout of "
        "each step), de-duplicated by the tuple of (entry point, text), cut into shards by the first program; "
        "class-/module-level state of scinumtools.dip is restored to its import-time content after every case")
ASSUMPTIONS = [
    "the reference interprets the generator's AST (parent = enclosing AST node); a self-check asserts for every case "
    "that this equals the statement's textual rule (nearest preceding node/group line with smaller indentation)",
    "numeric payloads are compared by value (10 == 10.0); bool / str / none / list kinds must match exactly; floats "
    "are compared bit-exactly with the hand-written expected value",
    "unit tables are restored (mc/isolation.py) after every case that raised; cases of this property define no units",
    "state shared between parses is looked for on the classes and modules of scinumtools.dip (containers, mutable "
    "default arguments, new attributes, lru caches); it is restored after every case, and only the `sequences` "
    "sub-check (2-3 parses inside one case) observes what one parse leaves behind for the next",
]

NAMES = "abcdefgh"
MAXLEVEL = 3                       # levels 0..3  = depth 4


# ------------------------------------------------------------------------------------------------ tree shapes
def depth_seqs(n, maxlevel=MAXLEVEL):
    """all sequences d_1=0, d_{i+1} <= d_i+1 (<= maxlevel): ordered forests written line by line"""
    def rec(seq):
        if len(seq) == n:
            yield tuple(seq)
            return
        for d in range(0, min(seq[-1] + 1, maxlevel) + 1):
            seq.append(d)
            yield from rec(seq)
            seq.pop()
    if n >= 1:
        yield from rec([0])


FORMS = 8


def value_form(i, j):
    """data type / literal / unit of the definition on line i (j selects the form)"""
    j %= FORMS
    if j == 0:
        return "int", G.lit(str(10 + i), 10 + i), None
    if j == 1:
        return "float", G.lit("%d.5" % i, i + 0.5), "cm"
    if j == 2:
        return "str", G.lit("s%d" % i, "s%d" % i), None
    if j == 3:
        return "bool", G.lit("true" if i % 2 == 0 else "false", i % 2 == 0), None
    if j == 4:
        return "str", G.lit("'t %d'" % i, "t %d" % i), None
    if j == 5:
        return "int64", G.lit(str(-i - 1), -i - 1), "km/s"
    if j == 6:
        return "str", G.lit('"u %d"' % i, "u %d" % i), None
    return "float32", G.lit("%de3" % (i + 1), (i + 1) * 1000.0), None


LAYOUT_FORMS = (0, 1, 4, 6)        # int, float with unit, single-quoted and double-quoted string


def build_tree(depths, kinds, phase, forms=None, tab=None):
    """AST of a tree; None if the kind sequence is not applicable (dotted reference without preceding sibling).
    tab: None = the table on line i has the columns TREE_TABLES[(i + phase) % 3]; k = every table has TREE_TABLES[k]
    (equal table blocks at different places of the hierarchy)"""
    prog = []
    stack = []                                     # [depth, number of children so far, first component of last child]
    root = [-1, 0, None]
    for i, (d, k) in enumerate(zip(depths, kinds)):
        while stack and stack[-1][0] >= d:
            stack.pop()
        par = stack[-1] if stack else root
        idx = par[1]
        base = NAMES[idx]
        if k in ("G", "D", "T"):
            name, first = base, base
        elif k in ("Gd", "Pd"):
            name, first = base + ".x", base
        elif k == "Pp":
            if par[2] is None:
                return None
            name, first = "%s.y%d" % (par[2], idx), par[2]
        else:
            raise ValueError(k)
        par[1] += 1
        par[2] = first
        if k == "T":
            # a table is a leaf: the line after it must not be indented deeper (nodes below a table are not demanded)
            if i + 1 < len(depths) and depths[i + 1] > d:
                return None
            cols = [COLS[c] for c in TREE_TABLES[((i + phase) if tab is None else tab) % len(TREE_TABLES)]]
            prog.append(table_line(cols, 2, name, d))
        elif k in ("G", "Gd"):
            prog.append(dict(k="group", d=d, name=name))
        else:
            j = (i + phase) if forms is None else forms[(i + phase) % len(forms)]
            typ, L, unit = value_form(i, j)
            prog.append(dict(k="def", d=d, name=name, type=typ, dims=None, lit=L, unit=unit))
        stack.append([d, 0, None])
    return prog


TREE_TABLES = [(1, 0), (2, 4), (3,)]         # column combinations (indices into COLS) of the tables placed in trees


def parent_lines(prog):
    par = G.parents_by_depth(prog)
    return sorted(set(p for p in par.values() if p is not None))


WIDTH_ROTATION = [(2, 2, 2, 2), (1, 1, 1, 1), (4, 4, 4, 4), (1, 2, 4, 1), (4, 2, 1, 2), (2, 4, 1, 4)]

# ------------------------------------------------------------------------------------------------ decorations
INSERTS = [
    ("B0", dict(k="blank", text="")),
    ("B3", dict(k="blank", text="   ")),
    ("C0", dict(k="comment", indent=0, text="note")),
    ("C3", dict(k="comment", indent=3, text="a = 1 # x")),
    ("C9", dict(k="comment", indent=9, text="it's \"q\"")),
]
TRAILS = [("T1", "note"), ("T2", "it's"), ("T3", 'say "hi"'), ("T4", "x = 1 # y"),
          ("T5", "key of the table 'users'"), ("T6", 'the "cities" table')]

# characters at which str.splitlines() (but not DIP, where only "\n" ends a line) would break a line
LINEBREAKERS = [("FF", "\x0c"), ("VT", "\x0b"), ("FS", "\x1c"), ("GS", "\x1d"), ("RS", "\x1e"), ("NEL", "\x85"),
                ("LS", "\u2028"), ("PS", "\u2029"), ("CR", "\r")]

# trailing comments of the `comments` sub-check: every shape of quote characters inside a comment (quote followed by
# the end of the line, by one more word, by several words, at the start; apostrophes; both quote characters; empty)
COMMENT_TEXTS = [
    "note", "", "x = 1 # y",
    "it's", "don't touch", "the users' names", "key of the table 'users'", "the 'users' table", "'quoted' first",
    "length in feet 5'", "lengths given in 'cm'",
    'say "hi"', 'key of the table "cities"', 'the "cities" table', '"quoted" first', 'size in inch 5"',
    "'a' and \"b\"", "\"a\" and 'b'",
] + ["c%sd e" % ch for _, ch in LINEBREAKERS]


def single_decorations(n):
    out = []
    for slot in range(n + 1):
        for name, _ in INSERTS:
            out.append(("i", slot, name))
    for line in range(n):
        for name, _ in TRAILS:
            out.append(("t", line, name))
    return out


def decoration_sets(n, upto):
    s = single_decorations(n)
    yield ()
    for a in s:
        yield (a,)
    if upto >= 2:
        for x in range(len(s)):
            for y in range(x, len(s)):
                a, b = s[x], s[y]
                if a[0] == "t" and b[0] == "t" and a[1] == b[1]:
                    continue                   # one trailing comment per line
                yield (a, b)
                if a[0] == "i" and b[0] == "i" and a[1] == b[1] and a[2] != b[2]:
                    yield (b, a)               # two different inserted lines in one slot: both orders


def decorate(prog, decs):
    ins = dict(INSERTS)
    tr = dict(TRAILS)
    lines = [dict(ln) for ln in prog]
    slots = {}
    for kind, pos, name in decs:
        if kind == "t":
            lines[pos]["tc"] = tr[name]
        else:
            slots.setdefault(pos, []).append(dict(ins[name]))
    out = []
    for i, ln in enumerate(lines):
        out.extend(slots.get(i, []))
        out.append(ln)
    out.extend(slots.get(len(lines), []))
    return out


def decoration_tags(prog, decs):
    tags = set()
    tr = dict(TRAILS)
    for kind, pos, name in decs:
        if kind == "t":
            tags.add("trailing-comment")
            if "'" in tr[name] or '"' in tr[name]:
                tags.add("comment-has-quote")
                ln = prog[pos]
                if ln["k"] == "def" and ln["lit"]["text"][:1] in ("'", '"'):
                    tags.add("after-quoted-value")
        elif name.startswith("B"):
            tags.add("blank-line")
        else:
            tags.add("comment-line")
    return tags


# ------------------------------------------------------------------------------------------------ literals
INT_TYPES = ["int", "int16", "int32", "int64", "uint", "uint16", "uint32", "uint64"]
FLOAT_TYPES = ["float", "float32", "float64", "float128"]


def scalar_literals():
    """(tag tuple, type keyword, dims, LIT, unit)"""
    out = []
    for t, v in (("true", True), ("false", False)):
        out.append((("bool",), "bool", None, G.lit(t, v), None))
    out.append((("bool", "none"), "bool", None, G.lit("none", None), None))
    for kw in INT_TYPES:
        vals = [("0", 0), ("+3", 3), ("42", 42)]
        if not kw.startswith("u"):
            vals += [("-0", 0), ("-17", -17)]
        if kw.endswith("64"):
            vals.append(("1099511627776", 2 ** 40))
        if kw.endswith("64"):
            # at and around the float mantissa and the limits of the width: must come back as exact integers
            big = [2 ** 53 - 1, 2 ** 53, 2 ** 53 + 1, 2 ** 53 + 3, 2 ** 63 - 1]
            if kw == "int64":
                big += [-(2 ** 53 + 1), -(2 ** 63 - 1), -(2 ** 63)]
            else:
                big += [2 ** 63, 2 ** 63 + 1, 12345678901234567891, 2 ** 64 - 1]
            for v in big:
                out.append((("int", "beyond-2**53"), kw, None, G.lit(str(v), v), None))
            out.append((("int", "beyond-2**53", "unit"), kw, None, G.lit(str(2 ** 53 + 1), 2 ** 53 + 1), "ns"))
        for t, v in vals:
            out.append((("int",) + (("zero",) if v == 0 else ()), kw, None, G.lit(t, v), None))
        out.append((("int", "none"), kw, None, G.lit("none", None), None))
        out.append((("int", "unit"), kw, None, G.lit("20", 20), "m"))
    out.append((("int", "unit"), "int", None, G.lit("0", 0), "km/s"))
    out.append((("int", "unit", "none"), "int", None, G.lit("none", None), "s"))
    for kw in FLOAT_TYPES:
        for t, v in (("10", 10.0), ("23.3", 23.3), ("-1.5E-3", -0.0015), (".5", 0.5), ("5.", 5.0),
                     ("2.3e20", 2.3e20), ("0", 0.0), ("0.0", 0.0), ("-2", -2.0), ("+1e-7", 1e-7)):
            out.append((("float",) + (("zero",) if v == 0 else ()), kw, None, G.lit(t, v), None))
        out.append((("float", "none"), kw, None, G.lit("none", None), None))
        out.append((("float", "unit"), kw, None, G.lit("63.3", 63.3), "kg"))
    for u in ("km/s", "W/m2", "g*cm2/s2", "%"):
        out.append((("float", "unit"), "float", None, G.lit("2.34", 2.34), u))
    out.append((("float", "unit", "zero"), "float", None, G.lit("0", 0.0), "cm"))
    out.append((("float", "unit", "none"), "float", None, G.lit("none", None), "kg"))
    strs = [("John", "John", "bare"), ("'New York'", "New York", "single"),
            ('"United Kingdoms"', "United Kingdoms", "double"), ("'#nocomment'", "#nocomment", "hash-in-quotes"),
            ('"a # b"', "a # b", "hash-in-quotes"), ('"it\'s"', "it's", "other-quote-inside"),
            ("'say \"hi\"'", 'say "hi"', "other-quote-inside"), ("''", "", "empty-string"),
            ('""', "", "empty-string"), ("'  padded  '", "  padded  ", "single"),
            ("a-b_c.d", "a-b_c.d", "bare"), ("42", "42", "bare"), ("true", "true", "bare"),
            ("'x=y'", "x=y", "single"), ("x=y", "x=y", "bare"), ("'Dvořák'", "Dvořák", "single"),
            ("'a'", "a", "single"), ('"b"', "b", "double"), ("0", "0", "bare"),
            # the quote character of the value inside the value (the DIP exporter writes this form)
            ('"say "hi" now"', 'say "hi" now', "same-quote-inside"), ("'say 'hi' now'", "say 'hi' now", "same-quote-inside"),
            ('""quoted""', '"quoted"', "same-quote-inside"), ("''quoted''", "'quoted'", "same-quote-inside")]
    for t, v, tag in strs:
        out.append((("str", tag), "str", None, G.lit(t, v), None))
    # quoted strings "can contain all characters" (docs, Format): characters that are line boundaries for
    # str.splitlines() but not for DIP
    for name, ch in LINEBREAKERS:
        v = "p%sq r" % ch
        out.append((("str", "single", "linebreaker:" + name), "str", None, G.lit("'" + v + "'", v), None))
        out.append((("str", "double", "linebreaker:" + name), "str", None, G.lit('"' + v + '"', v), None))
    out.append((("str", "none"), "str", None, G.lit("none", None), None))
    return out


def array_literals():
    out = []
    arrays = [
        # tags, type, dims list, tight text, loose text, block lines, value, unit
        ("bool", ["[2]", "[:]", "[1:]", "[:3]", "[1:3]"], "[true,false]", "[true, false]",
         ["[true,", " false]"], [True, False], None),
        ("bool", ["[2,2]", "[:,:]"], "[[true,false],[false,false]]", "[[true, false], [false, false]]",
         ["[[true,false],", " [false,false]]"], [[True, False], [False, False]], None),
        ("int", ["[3]", "[:]", "[2:]", "[:3]", "[3:4]"], "[4234,0,-2]", "[4234, 0, -2]",
         ["[4234,", "0,", "-2]"], [4234, 0, -2], None),
        ("int", ["[2,3]", "[2:,:3]"], "[[0,1,2],[3,4,5]]", "[[0, 1, 2], [3, 4, 5]]",
         ["[[ 0, 1, 2],", " [ 3, 4, 5]]"], [[0, 1, 2], [3, 4, 5]], "km/s"),
        ("int64", ["[2]"], "[1099511627776,-1]", "[1099511627776, -1]", ["[1099511627776,", "-1]"],
         [2 ** 40, -1], None),
        ("int64", ["[3]"], "[9007199254740993,-9223372036854775807,9223372036854775807]",
         "[9007199254740993, -9223372036854775807, 9223372036854775807]",
         ["[9007199254740993,", "-9223372036854775807,", "9223372036854775807]"],
         [2 ** 53 + 1, -(2 ** 63 - 1), 2 ** 63 - 1], None),
        ("uint16", ["[1]"], "[7]", "[ 7 ]", ["[7]"], [7], "s"),
        ("float", ["[3]", "[3:]", "[:4]", "[:]"], "[0,1.34,1.34e4]", "[0, 1.34, 1.34e4]",
         ["[0,", " 1.34,", " 1.34e4]"], [0.0, 1.34, 13400.0], None),
        ("float", ["[2:,:2]", "[3,2]"], "[[25,50],[34.2,95.1],[1e3,1e4]]", "[[25, 50], [34.2, 95.1], [1e3, 1e4]]",
         ["[[25,50],", "[34.2,95.1],", "[1e3,1e4]]"], [[25.0, 50.0], [34.2, 95.1], [1000.0, 10000.0]], "kg"),
        ("float32", ["[2]"], "[-0.5,2.5E-1]", "[-0.5, 2.5E-1]", ["[-0.5,", "2.5E-1]"], [-0.5, 0.25], "cm"),
        ("str", ["[3]", "[:]", "[3:4]"], '["John","Peter","Simon"]', '["John", "Peter", "Simon"]',
         ['["John",', '"Peter",', '"Simon"]'], ["John", "Peter", "Simon"], None),
        ("str", ["[2,1]"], '[["a"],["b"]]', '[["a"], ["b c"]]', ['[["a"],', '["b c"]]'], None, None),
    ]
    for typ, dimlist, tight, loose, block, value, unit in arrays:
        base = G.TYPEINFO[typ][3]
        for dims in dimlist:
            rank = ("rank2",) if "," in dims else ("rank1",)
            if typ == "str" and value is None:
                # element with a blank: only the quoted / block notations can carry it
                v_tight, v_loose = [["a"], ["b"]], [["a"], ["b c"]]
            else:
                v_tight = v_loose = value
            out.append(((base, "array", "tight") + rank, typ, dims, G.lit(tight, v_tight, "array"), unit))
            out.append(((base, "array", "quoted-single") + rank, typ, dims,
                        G.lit("'" + loose + "'", v_loose, "array"), unit))
            if base != "str":
                out.append(((base, "array", "quoted-double") + rank, typ, dims,
                            G.lit('"' + loose + '"', v_loose, "array"), unit))
            out.append(((base, "array", "block") + rank, typ, dims,
                        G.lit(None, v_loose, "array", block=list(block)), unit))
            out.append(((base, "array", "block-one-line") + rank, typ, dims,
                        G.lit(None, v_loose, "array", block=[loose]), unit))
        out.append(((base, "array", "none"), typ, dimlist[0], G.lit("none", None), unit))
    # multi-line strings (block notation)
    out.append((("str", "block-text"), "str", None,
                G.lit(None, "Lorem ipsum dolor,\nsed do # eiusmod\n\"quoted\" and 'single'", "str",
                      block=["Lorem ipsum dolor,", "sed do # eiusmod", "\"quoted\" and 'single'"]), None))
    out.append((("str", "block-text"), "str", None, G.lit(None, "one line", "str", block=["one line"]), None))
    # block text keeps the blanks at the end of its lines and lines made of blanks only
    for lines in (["Title  ", "   ", "ID   NAME    ", "end"], ["  lead", "\ttab\t", "x "], ["a", "  "], ["  ", "a"],
                  ["a", "", "b "], ["only "]):
        out.append((("str", "block-text", "block-trailing-blanks"), "str", None,
                    G.lit(None, "\n".join(lines), "str", block=list(lines)), None))
    for name, ch in LINEBREAKERS:
        lines = ["x%sy" % ch, "z"]
        out.append((("str", "block-text", "linebreaker:" + name), "str", None,
                    G.lit(None, "\n".join(lines), "str", block=lines), None))
    # JSON accepts only the non-control ones inside array items
    for name, ch in LINEBREAKERS:
        if ord(ch) >= 0x20:
            v = ["p%sq" % ch, "r"]
            out.append((("str", "array", "quoted-single", "rank1", "linebreaker:" + name), "str", "[2]",
                        G.lit("'[\"p%sq\", \"r\"]'" % ch, v, "array"), None))
            out.append((("str", "array", "tight", "rank1", "linebreaker:" + name), "str", "[2]",
                        G.lit("[\"p%sq\",\"r\"]" % ch, v, "array"), None))
    return out


COLS = [
    # name, type, dims, unit, cells (3 rows), values, tag
    ("snapshot", "int", None, None, ["0", "1", "-2"], [0, 1, -2], "int-column"),
    ("time", "float", None, "s", ["0.234", "1.355", "2e3"], [0.234, 1.355, 2000.0], "float-column"),
    ("name", "str", None, None, ["John", '"Jennyfer Milton"', "x"], ["John", "Jennyfer Milton", "x"], "str-column"),
    ("flag", "bool", None, None, ["true", "false", "true"], [True, False, True], "bool-column"),
    ("numbers", "int", "[3]", None, ["[2,3,4]", "[5,6,7]", "[0,0,-1]"], [[2, 3, 4], [5, 6, 7], [0, 0, -1]],
     "array-column"),
    ("intensity", "float64", None, "W/m2", ["2.34", "9.4", "0"], [2.34, 9.4, 0.0], "float-column"),
]


def table_line(cols, nrows, name, d):
    return dict(k="table", d=d, name=name,
                cols=[dict(name=c[0], type=c[1], dims=c[2], unit=c[3], cells=c[4][:nrows], values=c[5][:nrows])
                      for c in cols])


def table_literals():
    out = []
    for ncol in (1, 2, 3):
        for combo in itertools.permutations(range(len(COLS)), ncol):
            for nrows in (1, 2, 3):
                tags = ("table",) + tuple(sorted(set(COLS[c][6] for c in combo)))
                if nrows >= 2 and any(COLS[c][6] == "bool-column" for c in combo):
                    tags += ("bool-column-false",)
                out.append((tags, combo, nrows))
    return out


def literal_program(entry):
    """literal at root (r), below a group (g.n), behind a dotted name (h.d), with sentinels"""
    tags, typ, dims, L, unit = entry
    mk = lambda name, d: dict(k="def", d=d, name=name, type=typ, dims=dims, lit=L, unit=unit)
    return [mk("r", 0),
            dict(k="group", d=0, name="g"),
            mk("n", 1),
            dict(k="def", d=1, name="k", type="int", dims=None, lit=G.lit("7", 7), unit=None),
            mk("h.d", 0),
            dict(k="def", d=0, name="z", type="int", dims=None, lit=G.lit("9", 9), unit=None)]


def comment_program(entry, text):
    """the literal at the three positions, every line of the program carrying the trailing comment `text`"""
    prog = table_program(entry) if isinstance(entry[1], tuple) else literal_program(entry)
    for ln in prog:
        ln["tc"] = text
    return prog


def comment_tables():
    """tables of the `comments` sub-check: the one-column tables"""
    return [i for i, e in enumerate(table_literals()) if len(e[1]) == 1]


def comment_tags(entry, text):
    tags = set(entry[0]) | {"literal", "trailing-comment", "comments"}
    if "'" in text or '"' in text:
        tags.add("comment-has-quote")
        if not isinstance(entry[1], tuple) and (entry[3]["text"] or "")[:1] in ("'", '"'):
            tags.add("after-quoted-value")
    return tags


def table_program(entry):
    tags, combo, nrows = entry
    cols = [COLS[c] for c in combo]
    return [table_line(cols, nrows, "t", 0),
            dict(k="group", d=0, name="g"),
            table_line(cols, nrows, "u", 1),
            dict(k="def", d=1, name="k", type="int", dims=None, lit=G.lit("7", 7), unit=None),
            dict(k="def", d=0, name="z", type="int", dims=None, lit=G.lit("9", 9), unit=None)]


_LITS = None


def literals():
    global _LITS
    if _LITS is None:
        _LITS = scalar_literals() + array_literals()
    return _LITS


def pair_subset():
    """representative literals for the pair sub-check: one per distinct tag tuple"""
    seen, out = set(), []
    for k, e in enumerate(literals()):
        if e[0] not in seen:
            seen.add(e[0])
            out.append(k)
    return out


def pair_program(a, b):
    ea, eb = literals()[a], literals()[b]
    mk = lambda e, name, d: dict(k="def", d=d, name=name, type=e[1], dims=e[2], lit=e[3], unit=e[4])
    return [dict(k="group", d=0, name="g"),
            mk(ea, "p", 1),
            mk(eb, "q", 1),
            mk(eb, "g.w", 0),
            mk(ea, "v", 0)]


# ------------------------------------------------------------------------------------------------ case construction
def make_case(desc):
    """desc (JSON-able) -> (prog, widths, per_parent, tags)   or None if not applicable"""
    sub = desc["sub"]
    if sub in ("trees", "tabletrees"):
        prog = build_tree(desc["depths"], desc["kinds"], desc["phase"], tab=desc.get("tab"))
        if prog is None:
            return None
        tags = {"tree"} | ({"table", "table-in-tree"} if sub == "tabletrees" else set())
        ds = desc["depths"]
        drop = max([ds[i] - ds[i + 1] for i in range(len(ds) - 1)] + [0])
        if drop >= 2:
            tags.add("dedent>=2")
        if any(k in ("Pd", "Pp", "Gd") for k in desc["kinds"]):
            tags.add("dotted-name")
        return prog, tuple(desc["widths"]), None, tags
    if sub == "widths":
        prog = build_tree(desc["depths"], desc["kinds"], desc["phase"])
        pp = {int(k): v for k, v in desc["per_parent"].items()}
        return prog, (2, 2, 2, 2), pp, {"tree", "widths"}
    if sub == "layout":
        base = build_tree(desc["depths"], desc["kinds"], desc["phase"], forms=LAYOUT_FORMS)
        if base is None:
            return None
        decs = [tuple(x) for x in desc["decs"]]
        return decorate(base, decs), (2, 2, 2, 2), None, decoration_tags(base, decs) | {"layout"}
    if sub == "literals":
        e = literals()[desc["lit"]]
        return literal_program(e), (2, 2, 2, 2), None, set(e[0]) | {"literal"}
    if sub == "tables":
        e = table_literals()[desc["tab"]]
        return table_program(e), (2, 2, 2, 2), None, set(e[0]) | {"literal"}
    if sub == "comments":
        e = literals()[desc["lit"]] if "lit" in desc else table_literals()[desc["tab"]]
        text = COMMENT_TEXTS[desc["text"]]
        return comment_program(e, text), (2, 2, 2, 2), None, comment_tags(e, text)
    if sub == "pairs":
        ea, eb = literals()[desc["a"]], literals()[desc["b"]]
        return pair_program(desc["a"], desc["b"]), (2, 2, 2, 2), None, set(ea[0]) | set(eb[0]) | {"literal", "pair"}
    raise HarnessError("unknown sub-check %r" % sub)


# ------------------------------------------------------------------------------------------------ state between parses
_STATE = None


def _dip_modules():
    import sys
    import scinumtools.dip                                   # noqa: F401
    return [m for n, m in sorted(sys.modules.items())
            if (n == "scinumtools.dip" or n.startswith("scinumtools.dip.")) and ".docs" not in n and m is not None]


def state_snapshot():
    """import-time content of everything scinumtools.dip keeps outside its objects (call before the first parse)"""
    global _STATE
    import copy
    import enum
    import inspect
    mods = _dip_modules()
    classes = []
    for m in mods:
        for v in list(vars(m).values()):
            if inspect.isclass(v) and v.__module__ == m.__name__ and not issubclass(v, enum.Enum) \
                    and v not in classes:
                classes.append(v)
    isolation.class_state_snapshot(classes)
    conts, caches = {}, []
    for m in mods:
        for k, v in list(vars(m).items()):
            if not k.startswith("__") and isinstance(v, (list, dict, set)):
                conts[(m.__name__, k)] = (v, copy.deepcopy(v))
    for owner in mods + classes:
        for v in list(vars(owner).values()):
            v = getattr(v, "__func__", v)
            v = getattr(v, "fget", v)
            if callable(getattr(v, "cache_clear", None)) and v not in caches:
                caches.append(v)
    _STATE = dict(mods=mods, names={m.__name__: set(vars(m)) for m in mods}, conts=conts, caches=caches)


def state_restore():
    """put it back in place -> list of what had changed (nothing a case did can reach the next case)"""
    if _STATE is None:
        return []
    import copy
    changed = isolation.class_state_restore()
    for (mod, name), (obj, pristine) in _STATE["conts"].items():
        if obj != pristine:
            changed.append("%s:%s" % (mod, name))
            if isinstance(obj, list):
                obj[:] = copy.deepcopy(pristine)
            else:
                obj.clear()
                obj.update(copy.deepcopy(pristine))
    for m in _STATE["mods"]:
        if len(vars(m)) == len(_STATE["names"][m.__name__]):
            continue
        for name in set(vars(m)) - _STATE["names"][m.__name__]:
            v = vars(m).get(name)
            if isinstance(v, (list, dict, set)) and v:       # a container created lazily at module level
                changed.append("%s:%s:new" % (m.__name__, name))
                v.clear()
    for c in _STATE["caches"]:
        c.cache_clear()
    return changed


# ------------------------------------------------------------------------------------------------ histories of parses
SEQ_TAB = 0                           # every table of a pool program has the columns TREE_TABLES[0] (time, snapshot)
SEQ_BOUNDS = dict(
    quick=dict(kinds=("G", "D", "T"), pair_lines=3, triple_lines=2),
    thorough=dict(kinds=("G", "D", "T", "Pd"), pair_lines=3, triple_lines=2),
)
_POOLS = {}


def seq_pool(kindset, maxn):
    """every tree of <= maxn lines over `kindset` that defines something: [(depths, kinds)], in a fixed order"""
    key = (tuple(kindset), maxn)
    if key not in _POOLS:
        out = []
        for n in range(1, maxn + 1):
            for ds in depth_seqs(n):
                for kinds in itertools.product(kindset, repeat=n):
                    if not any(x != "G" for x in kinds):
                        continue
                    if build_tree(ds, kinds, 0, tab=SEQ_TAB) is None:
                        continue
                    out.append((ds, kinds))
        _POOLS[key] = out
    return _POOLS[key]


def seq_step(prog_key, widths=(2, 2, 2, 2), base=0, entry="string"):
    ds, kinds = prog_key
    return dict(sub="tabletrees" if "T" in kinds else "trees", depths=list(ds), kinds=list(kinds), phase=0,
                tab=SEQ_TAB, widths=list(widths), base=base, entry=entry)


def _seq_descs(tier, k, nshard):
    """every history that belongs to shard k of nshard (cut by the first program)"""
    b = SEQ_BOUNDS[tier]
    pool = seq_pool(b["kinds"], b["pair_lines"])
    c = 0
    for a in pool:
        if not mine(("s", a), k, nshard):
            continue
        first = seq_step(a)
        # the same program again: the same text, and every other layout of it through both entry points
        for w in WIDTH_ROTATION:
            for base in BASES:
                for entry in ENTRIES:
                    yield dict(sub="sequences", steps=[first, seq_step(a, w, base, entry)])
        # every other program after it, in a rotating layout
        for bprog in pool:
            if bprog == a:
                continue
            c += 1
            yield dict(sub="sequences", steps=[first, seq_step(bprog, WIDTH_ROTATION[c % len(WIDTH_ROTATION)],
                                                               BASES[c % 4], ENTRIES[(c // 4) % 2])])
    small = seq_pool(b["kinds"], b["triple_lines"])
    for a in small:
        if not mine(("s", a), k, nshard):
            continue
        for bprog in small:
            for cprog in small:
                c += 1
                yield dict(sub="sequences", steps=[seq_step(a), seq_step(bprog, (4, 4, 4, 4), 0, "string"),
                                                   seq_step(cprog, WIDTH_ROTATION[c % len(WIDTH_ROTATION)],
                                                            BASES[c % 4], ENTRIES[(c // 4) % 2])])


def _tables_of(prog, nested):
    return set((ln["name"], tuple(c["name"] for c in ln["cols"])) for ln in prog
               if ln["k"] == "table" and (ln["d"] > 0 or not nested))


def run_sequence(desc, sh=None, seen=None):
    """one history: the texts are parsed one after the other (separate DIP objects, nothing else in between), every
    parse must give what ITS text says.  Returns a failure record for the first parse that does not."""
    steps = []
    for sd in desc["steps"]:
        made = make_case(sd)
        if made is None:
            return None
        prog, widths, pp, tags = made
        text = G.render(prog, widths, pp, base=sd.get("base", 0))
        ind = G.layout(prog, widths, pp)
        if G.parents_by_indent_rule(prog, ind) != G.parents_by_depth(prog):
            raise HarnessError("generator rendered an indentation that does not express its tree: %r" % (sd,))
        try:
            exp = G.interpret(prog)
        except G.Rejected as e:
            raise HarnessError("C13 generator produced a program the reference rejects: %r %s" % (sd, e))
        steps.append(dict(desc=sd, prog=prog, tags=tags, entry=sd.get("entry", "string"), text=text, exp=exp))
    key = ("seq",) + tuple((st["entry"], st["text"]) for st in steps)
    if seen is not None:
        if key in seen:
            return None
        seen.add(key)
    state_restore()
    rec = None
    feats = set()
    rels = []
    # the relations between the texts of a history are a property of the enumerated case, not of how far the library
    # gets: they are computed for every step up front, so that the vacuity guard in finish() counts what was
    # enumerated even when a (mutated) library already fails on the first parse of every such history
    for i, st in enumerate(steps):
        rel = set()
        for prev in steps[:i]:
            if prev["text"] == st["text"]:
                rel.add("same-text-again")
            elif (prev["desc"]["depths"], prev["desc"]["kinds"]) == (st["desc"]["depths"], st["desc"]["kinds"]):
                rel.add("same-program-other-layout")
            else:
                rel.add("other-program-before")
            if _tables_of(prev["prog"], False) & _tables_of(st["prog"], True):
                rel.add("nested-table-again")
            if _tables_of(prev["prog"], False) & _tables_of(st["prog"], False):
                rel.add("table-again")
        rels.append(rel)
        feats |= rel
    for i, st in enumerate(steps):
        rel = rels[i]
        got = outcome(G.execute, [st["text"]], entry=st["entry"])
        tags = st["tags"] | rel | {"history", "parse#%d" % (i + 1), "entry:" + st["entry"]}
        case = dict(desc=desc, texts=[x["text"] for x in steps], failing_parse=i + 1)
        if got[0] == "err":
            isolation.tables_restore()
            rec = failure("sequences", case, G.expected_view(st["exp"]), list(got), tags=tags,
                          behaviour=("" if i == 0 else "later-parse:") + G.error_class(got))
        else:
            diff = G.compare(st["exp"], got[1])
            if diff:
                rec = failure("sequences", case, G.expected_view(st["exp"]), G.observed_view(got[1]), tags=tags,
                              behaviour=("" if i == 0 else "later-parse:") + diff)
        if rec:
            break
    state_restore()
    if sh is not None:
        sh.evaluations += 1
        if any(st["exp"] for st in steps):
            sh.nontrivial += 1
        sh.count("sub=sequences")
        sh.count("history=%d" % len(steps))
        sh.count("outcome=" + ("ok" if rec is None else rec["behaviour"]))
        for f in feats:
            sh.count("seq=" + f)
        for e in set(st["entry"] for st in steps):
            sh.count("seq-entry=" + e)
        if len(sh.samples) < 2 and len(steps[-1]["text"]) > 40:
            sh.sample(dict(sub="sequences", texts=[x["text"] for x in steps]))
        if rec:
            sh.fail(rec)
    return rec


def run_case(desc, sh=None, seen=None):
    """execute one case; returns a failure record or None"""
    if desc["sub"] == "sequences":
        return run_sequence(desc, sh, seen)
    made = make_case(desc)
    if made is None:
        return None
    prog, widths, pp, tags = made
    base = desc.get("base", 0)
    text = G.render(prog, widths, pp, base=base)
    if base:
        tags = tags | {"base-indentation"}
    entry = desc.get("entry", "string")
    if entry == "file" and "\r" in text:
        return None           # not demanded: a file is read with universal newlines, a bare CR is a line end there
    if seen is not None:
        if (entry, text) in seen:
            return None
        seen.add((entry, text))
    # self-check of the generator: AST parents == the statement's rule on the rendered indentation
    ind = G.layout(prog, widths, pp)
    if G.parents_by_indent_rule(prog, ind) != G.parents_by_depth(prog):
        raise HarnessError("generator rendered an indentation that does not express its tree: %r" % (desc,))
    try:
        exp = G.interpret(prog)
    except G.Rejected as e:
        raise HarnessError("C13 generator produced a program the reference rejects: %r %s" % (desc, e))
    ndef = sum(1 for ln in prog if ln["k"] == "def") + sum(len(ln["cols"]) for ln in prog if ln["k"] == "table")
    if len(exp) != ndef:
        raise HarnessError("generator produced colliding paths: %r" % (desc,))
    got = outcome(G.execute, [text], entry=entry)
    state_restore()                   # nothing this parse left on classes / modules can reach the next case
    rec = None
    if got[0] == "err":
        isolation.tables_restore()
        rec = failure(desc["sub"], dict(desc=desc, text=text), G.expected_view(exp), list(got),
                      tags=tags | {"entry:" + entry}, behaviour=G.error_class(got))
    else:
        diff = G.compare(exp, got[1])
        if diff:
            rec = failure(desc["sub"], dict(desc=desc, text=text), G.expected_view(exp), G.observed_view(got[1]),
                          tags=tags | {"entry:" + entry}, behaviour=diff)
    if sh is not None:
        sh.evaluations += 1
        if exp:
            sh.nontrivial += 1
        sh.count("sub=" + desc["sub"])
        sh.count("entry=" + entry)
        sh.count("outcome=" + ("ok" if rec is None else rec["behaviour"]))
        sh.count("base=%d" % base)
        for t in ("table-in-tree", "dedent>=2", "dotted-name", "blank-line", "comment-line", "trailing-comment", "table", "array",
                  "block"):
            if t in tags:
                sh.count("feature=" + t)
        if len(sh.samples) < 2 and len(text) > 40:
            sh.sample(dict(sub=desc["sub"], text=text))
        if rec:
            sh.fail(rec)
    return rec


# ------------------------------------------------------------------------------------------------ enumeration
BOUNDS = dict(
    quick=dict(tabletree=4, tree_all=4, tree_full=5, tree_plain=6, widths_full=4, widths_alt=5, layout2=2, layout1=3, layout1_plain=4,
               pairs=False),
    thorough=dict(tabletree=5, tree_all=5, tree_full=6, tree_plain=7, widths_full=5, widths_alt=6, layout2=3, layout1=4, layout1_plain=5,
                  pairs=True),
)
NSHARD = 64
NSEQ = 32


BASES = (0, 1, 2, 4)                  # uniform base indentation of the whole text
ENTRIES = ("string", "file")          # DIP.add_string / DIP.add_file


def _tree_descs(tier, k, nshard):
    """every case of trees / widths / layout that belongs to shard k of nshard (cut by tree shape and kinds)"""
    b = BOUNDS[tier]
    idx = 0
    # ---- trees
    for n in range(1, b["tree_plain"] + 1):
        kindset = ("G", "D", "Pd", "Pp", "Gd") if n <= b["tree_all"] else \
                  ("G", "D", "Pd", "Pp") if n <= b["tree_full"] else ("G", "D")
        for ds in depth_seqs(n):
            for kinds in itertools.product(kindset, repeat=n):
                if not any(x in ("D", "Pd", "Pp") for x in kinds):
                    continue
                idx += 1
                if not mine(("t", ds, kinds), k, nshard):
                    continue
                wlist = [WIDTH_ROTATION[idx % len(WIDTH_ROTATION)]]
                if tier == "thorough" and n <= b["tree_all"]:
                    wlist = [WIDTH_ROTATION[(idx + s) % len(WIDTH_ROTATION)] for s in (0, 1, 3)]
                for w in wlist:
                    yield dict(sub="trees", depths=list(ds), kinds=list(kinds), phase=idx % FORMS,
                               widths=list(w), base=BASES[idx % 4], entry=ENTRIES[(idx // 4) % 2])
    # ---- trees with tables as leaves: a table after a typed node / group / parent node / de-indentation, nodes after it
    for n in range(1, b["tabletree"] + 1):
        for ds in depth_seqs(n):
            for kinds in itertools.product(("G", "D", "T"), repeat=n):
                if "T" not in kinds:
                    continue
                idx += 1
                if not mine(("tt", ds, kinds), k, nshard):
                    continue
                for entry in ENTRIES:
                    yield dict(sub="tabletrees", depths=list(ds), kinds=list(kinds), phase=idx % FORMS,
                               widths=list(WIDTH_ROTATION[idx % len(WIDTH_ROTATION)]), base=BASES[idx % 4], entry=entry)
    # ---- widths: every assignment of 1/2/4 blanks to the children of each parent line
    for n in range(2, b["widths_alt"] + 1):
        for ds in depth_seqs(n):
            for kinds in itertools.product(("G", "D"), repeat=n):
                if "D" not in kinds:
                    continue
                if n > b["widths_full"] and tuple(kinds) != tuple(("G", "D")[i % 2] for i in range(n)) \
                        and tuple(kinds) != tuple(("D", "G")[i % 2] for i in range(n)):
                    continue
                if not mine(("w", ds, kinds), k, nshard):
                    continue
                prog = build_tree(ds, kinds, 0)
                pl = parent_lines(prog)
                if not pl:
                    continue
                for ws in itertools.product((1, 2, 4), repeat=len(pl)):
                    for base in BASES:            # every base indentation through both entry points
                        for entry in ENTRIES:
                            yield dict(sub="widths", depths=list(ds), kinds=list(kinds), phase=n,
                                       per_parent={str(p): w for p, w in zip(pl, ws)}, base=base, entry=entry)
    # ---- layout
    for n in range(1, b["layout1_plain"] + 1):
        kindset = ("G", "D", "Pd") if n <= b["layout1"] else ("G", "D")
        upto = 2 if n <= b["layout2"] else 1
        for ds in depth_seqs(n):
            for kinds in itertools.product(kindset, repeat=n):
                if not any(x in ("D", "Pd") for x in kinds):
                    continue
                if not mine(("l", ds, kinds), k, nshard):
                    continue
                c = 0
                for phase in range(len(LAYOUT_FORMS)):
                    for decs in decoration_sets(n, upto):
                        c += 1
                        yield dict(sub="layout", depths=list(ds), kinds=list(kinds), phase=phase,
                                   decs=[list(x) for x in decs], base=BASES[c % 4], entry=ENTRIES[(c // 4) % 2])


def plan(tier, seed):
    shards = [("tree", tier, k, NSHARD) for k in range(NSHARD)]
    shards += [("lit", tier, k, 16) for k in range(16)]
    if BOUNDS[tier]["pairs"]:
        shards += [("pair", tier, k, 16) for k in range(16)]
    shards += [("seq", tier, k, NSEQ) for k in range(NSEQ)]
    return shards


def init_worker():
    isolation.tables_snapshot()
    state_snapshot()
    G.prime_inspect_cache()


def run_shard(desc):
    kind, tier, k, n = desc
    sh = Shard(PROPERTY)
    seen = set()
    if kind == "tree":
        for d in _tree_descs(tier, k, n):
            run_case(d, sh, seen)
    elif kind == "lit":
        for entry in ("string", "file"):          # both entry points: DIP.add_string and DIP.add_file
            for i in range(len(literals())):
                if i % n == k:
                    run_case(dict(sub="literals", lit=i, entry=entry), sh, seen)
            for i in range(len(table_literals())):
                if i % n == k:
                    run_case(dict(sub="tables", tab=i, entry=entry), sh, seen)
        # every literal form x every comment shape
        for i in range(len(literals())):
            if i % n == k:
                for t in range(len(COMMENT_TEXTS)):
                    run_case(dict(sub="comments", lit=i, text=t), sh, seen)
        for j, i in enumerate(comment_tables()):
            if j % n == k:
                for t in range(len(COMMENT_TEXTS)):
                    run_case(dict(sub="comments", tab=i, text=t), sh, seen)
    elif kind == "seq":
        for d in _seq_descs(tier, k, n):
            run_case(d, sh, seen)
    elif kind == "pair":
        sub = pair_subset()
        for x, a in enumerate(sub):
            if x % n != k:
                continue
            for b in sub:
                run_case(dict(sub="pairs", a=a, b=b), sh, seen)
    isolation.tables_restore()
    G.remove_scratch_file()
    return sh


def replay(rec):
    isolation.tables_restore()
    state_restore()
    r = run_case(rec["case"]["desc"])
    state_restore()
    isolation.tables_restore()
    G.remove_scratch_file()
    return r


def finish(total, tier, seed):
    h = total.hist
    need = ["sub=trees", "sub=tabletrees", "base=0", "base=1", "base=2", "base=4", "sub=widths", "sub=layout", "sub=literals", "sub=tables", "sub=comments", "sub=sequences", "history=2", "history=3", "seq=same-text-again", "seq=same-program-other-layout",
            "seq=other-program-before", "seq=nested-table-again", "seq-entry=string", "seq-entry=file", "entry=string", "entry=file", "feature=dedent>=2",
            "feature=dotted-name", "feature=blank-line", "feature=comment-line", "feature=trailing-comment",
            "feature=table", "feature=array", "feature=block"]
    missing = [k for k in need if not h.get(k)]
    if missing:
        raise HarnessError("vacuous run, nothing executed for: %s" % missing)
    b = BOUNDS[tier]
    return dict(bounds=dict(tree_lines_all_kinds=b["tree_all"], tree_lines_without_dotted_groups=b["tree_full"],
                            tree_lines_group_def=b["tree_plain"], max_depth=4,
                            widths_lines=b["widths_alt"], layout_two_decorations_lines=b["layout2"],
                            layout_one_decoration_lines=b["layout1_plain"]),
                literal_alphabet=len(literals()), table_alphabet=len(table_literals()),
                comment_shapes=len(COMMENT_TEXTS),
                sequences=dict(pair_pool=len(seq_pool(SEQ_BOUNDS[tier]["kinds"], SEQ_BOUNDS[tier]["pair_lines"])),
                               triple_pool=len(seq_pool(SEQ_BOUNDS[tier]["kinds"], SEQ_BOUNDS[tier]["triple_lines"])),
                               kinds=list(SEQ_BOUNDS[tier]["kinds"]), histories=h.get("sub=sequences", 0),
                               state_isolated_between_cases=True),
                pair_alphabet=len(pair_subset()) if b["pairs"] else 0, caps_hit=[])

MANIFEST = dict(
    text="Bounded exhaustive enumeration of DIP texts on the real parser against a reference interpretation of the "
         "generating AST: every ordered tree of depth <= 4 with <= 4 lines (thorough 5) over groups, dotted groups, typed "
         "definitions and dotted names (own prefix / prefix of the preceding sibling), <= 5 (6) lines without dotted "
         "groups, <= 6 (7) lines of plain groups and definitions, with value forms rotating over bool/int/float/str, "
         "quoting and units; tables as leaves of such trees (<= 4 (5) lines); every assignment of 1/2/4 blanks to the "
         "children of each parent x uniform base indentation 0/1/2/4 x add_string/add_file for trees of <= 5 (6) "
         "lines; every way of adding <= 2 decorations (blank line, line of blanks, comment line at 3 indentations, "
         "trailing comment with 4 texts) to trees of <= 2 (3) lines and 1 decoration up to 4 (5) lines; ~300 literal "
         "forms (all type spellings, number notations, 64-bit integers at 2**53+-1, 2**63-1, 2**64-1 compared as exact "
         "Python ints, strings incl. their own quote character inside, none, inline / quoted / block arrays with 5 dimension "
         "notations) and 468 tables at root, below a group and behind a dotted name; every literal form x 18 shapes of trailing "
         "comment (quotes of both kinds at every position in the comment); histories of parses in ONE process (each "
         "parse by its own DIP object, each compared with its own reference): every ordered pair of the 103 trees of "
         "<= 3 lines over group / definition / table (thorough: 268 trees, also dotted definitions; all tables with "
         "equal blocks, so equal names, lines and table blocks recur at other places of the hierarchy), every such "
         "tree followed by itself in 6 width assignments x 4 base indentations x 2 entry points, and every ordered "
         "triple of the trees of <= 2 lines (quick ~1.6e4 histories, thorough ~1.1e5), with the class- and "
         "module-level state of scinumtools.dip restored to its import-time content between cases "
         "(quick ~1.7e5 cases, thorough ~1.8e6). Coverage statement: paths, order, type, precision, sign, unit and value equal what was written for "
         "every program in these bounds, also when it is parsed after one or two other (or the same) programs of the "
         "history pool in the same process.",
    note="Reference never parses text (interprets the AST); a per-case self-check ties the AST to the statement's "
         "indentation rule. Not covered: tabs, escapes, single-quoted JSON, indented block content, nodes below a "
         "table, deeper or longer programs, histories longer than 3 parses or over larger programs, state kept "
         "outside the classes / modules of scinumtools.dip (small-scope hypothesis).",
    technique="bounded grammar enumeration, reference interpreter over the generator AST, differential over layouts, "
              "bounded histories of parses with process state isolated between cases",
)
