"""C04 - linear unit conversion is exact, reversible and dimension-safe.

E2 bounded enumeration on the real Quantity.value(unit) / Quantity.to(unit) against the R-units reference model
(mc/refmodels/units_ref.py).  Units are generated from derivations (spelling = prefix + symbol from the tables, or a
product/quotient tree of such terms); the expected value x*f(u)/f(v) is computed with exact rational arithmetic from
the table columns (float pow only for fractional exponents), never from the library's parser.

Sub-spaces
  pair        every ordered pair (u, v) of linear spellings sharing a dimension vector (every table unit and system
              unit with every admissible prefix), identity pairs included, x in XS and one array:
              value(v); in-place to(v) (value, units now mean v); to(v).to(u) returns x           (complete)
  triple      every triple (u, w, v) inside every dimension group: Quantity(x,u).to(w).value(v) against the direct
              conversion and against the reference, x in {2.5, -3.7e-7}
              (quick: the intermediates w of window seed%4, thorough: all)
  compound    product/quotient expressions over 17 leaves grouped by dimension, every ordered pair in a group
              (km/h <-> m/s, kg*m2/s2 <-> J <-> erg <-> eV ...; quick: the source expressions of window seed%4,
              thorough: all), and the Gaussian units with fractional exponents against their definitions
  reciprocal  every ordered pair of linear spellings of exactly negated dimension (s<->Hz, m<->Ka, Ohm<->S ...) and
              every spelling against representative^-1 of its own group; bare number -> rad
  refuse      representatives (<= 2 per dimension group + compound expressions differing only in the rad exponent
              + the bare number): every ordered pair of different, non-reciprocal dimension must raise from both
              value() and to() and leave value and units of the quantity as they were

  power       every linear table symbol (units, constants and system-of-quantities units #...) raised to the powers
              1:2, -3:2 and 2: S^e <-> R^e (R another spelling of the same dimension), through the intermediate R^e,
              and refusal of S^e <-> R^e' for the neighbouring exponents e' (dimension = table dimension x exponent)

  unreduced   exponents that are written unreduced or only combine to an integer (added after seed C04-r7s3: dimension
              vectors compared in an unreduced form): for every table unit S carrying a fractional dimension (statC,
              abA, Fr ...) and the first spelling of every other dimension group, R another spelling of its dimension:
              S2:2 <-> R, S6:2 <-> R3, S1:2*S1:2 <-> R, S3:2*S1:2 <-> R2 (all magnitudes, both directions, back); the
              fractional units and their squares against their own expansion in base units (statC <-> m1:2*g1:2*s-1
              x factor, statC2 <-> m*g*s-2 ...); and the quantity a root operator returns - np.sqrt(q), q**0.5,
              q**(1,2), np.power(q, 0.5) of Quantity(x, S2) - must convert from the value and units it reports to R,
              S and back (only the conversion is judged, not the root itself: C06)

  nounit      the target "no unit" given as an empty BaseUnits() object (value(None) / value('') mean "no conversion" in
              the API and are left out): every dimensionless spelling (%, ppth, [pi] ...) converts to it with its
              factor (value(BaseUnits()), to(BaseUnits()), to(Quantity(1))); every refusal representative of non-zero
              dimension must be refused by the same three forms
  dtype       how the magnitude is handed in: float64/float32/float16/int64/int32 arrays, a list, numpy scalars of
              those types, incl. magnitudes at the edge of the narrow types (2.5e30, 1e-30 in float32; 6e4, 6e-5 in
              float16): all ordered pairs inside 4 small groups (ym, mm, m, Tm, Ym | J, eV, MeV | g, [M_sol] | %, ppth)
              and s <-> kHz; the result must be the double-precision x*f(u)/f(v) of the value the input holds
  uncertainty with an uncertainty attached (abse=0.5 or rele=2) the converted VALUE is the same as without: every
              reciprocal pair and all pairs of the 4 small dtype groups, x in {2.5, 50}, value(v) and to(v)
  history     ONE live quantity taken through every sequence of 3 (thorough: 4) steps out of { value(t) out of place,
              to(t) in place, rebase() } with the oracle applied after every step (value(), units() and the answer of
              every value(t) are the original amount in the unit the quantity now reports): 69 start expressions -
              a*b, a2/b, a*b/F for every ordered pair of different units of one dimension (km m cm | h s | kg g |
              J erg eV | N dyn), a*b*c in every order, and km, J, km/h - each with the targets "every unit of the
              family to the total exponent" + the start expression itself; x = 2.5 and one array
              (added after seed C04-r6s1: an answer memoised on the object surviving rebase())
  shared      TWO quantities of common origin (q and q[key] for 9 keys: slices, reversed / strided slice, Ellipsis,
              integer, index list, mask; two quantities built from one caller-owned float64 ndarray with units given
              as BaseUnits objects / one shared BaseUnits object / text; Quantity(p.value(), p.baseunits)): one of
              them (either) converted in place u -> w, then the other must still report x in u, convert u -> v by
              value(v) and to(v), and leave the first one at x*f(u)/f(w) in w; the ndarray keeps its numbers.  All
              u != w, all v inside the 4 small dtype groups and s/kHz (reciprocal rule)
              (added after seed C04-r6s3: array storage shared between quantities and rewritten by to())
  table       schema validation of the tables (see units_ref.SCHEMA); malformed rows are reported, not adopted

Not demanded (left out): logarithmic and offset units (C05); numeric factors inside a target expression; x = 0 under
a reciprocal conversion; a bare number to angle units other than the table symbol 'rad' (deg, mrad, #SPAN: the
statement names radians only); the targets None and '' (API: no conversion); results whose exact value or intermediate leaves
1e-300..1e300 are only required to have the right sign.
"""
import math
from fractions import Fraction as F

import numpy as np

from ..common import Shard, failure, outcome, HarnessError
from .. import isolation
from ..refmodels import units_ref

PROPERTY = "C04"
LEVEL = "exploration"
RULE = ("a case is one (source unit, target unit[, intermediate unit]) combination generated from the tables, executed "
        "for every magnitude of the stated list; combinations are distinct by construction (ordered pairs/triples of "
        "distinct spellings or expression texts); non-trivial = everything except identity pairs u == v; a history "
        "case is one (start expression, sequence of value/to/rebase steps of the stated length), a shared-origin case "
        "one (construction, converted object, u, w, v), an unreduced-exponent case one ordered pair (expression with "
        "unreduced / combining exponents, plain target) and a rooted case one (unit, root operator) - all distinct by "
        "construction")
ASSUMPTIONS = [
    "the magnitude and dimensions columns of the published tables are the specification of factor(u) and of 'same "
    "dimension'",
    "agreement is relative 1e-12 (float rounding of at most a handful of operations is ~1e-15)",
    "logarithmic units and the offset temperature units Cel/degF are outside this property (C05)",
]

XS = [0.0, 1.0, -1.0, 2.5, -3.7e-7, 1e200, 1e-200]
ARRAY = [0.0, 1.0, -2.5]
RARRAY = [4.0, 1.0, -2.5]
TRIPLE_XS = [2.5, -3.7e-7]
NWIN = 4
RTOL = 1e-12

_REF = None
_GROUPS = None      # list of (dims, [spellings]) sorted


def init_worker():
    global _REF, _GROUPS
    _REF = units_ref.load()
    g = _REF.groups()
    _GROUPS = [(d, g[d]) for d in sorted(g, key=lambda d: (-len(g[d]), g[d][0]))]
    isolation.tables_snapshot()


def _lib():
    from scinumtools.units import Quantity
    return Quantity


# ----------------------------------------------------------------------------------------------- unit operands
def U(text, terms=None):
    """unit operand: text given to the library + derivation [(spelling, exponent)]"""
    if terms is None:
        terms = [[text, "1"]]
    return dict(text=text, terms=[[t, str(F(e))] for t, e in terms])


def _terms(u):
    return [(t, F(e)) for t, e in u["terms"]]


def _utags(*units):
    """features of the unit operands (input features for failure records)"""
    out = set()
    for u in units:
        if u is None:
            continue
        for t, _ in u["terms"]:
            sp = _REF.spellings[t]
            if sp.prefix is not None and len(sp.prefix) > 1:
                out.add("two-letter-prefix")
            if sp.system:
                out.add("system-unit")
    return sorted(out)


_FEXACT = {}


def _fexact(u):
    """(exact Fraction | None, float) factor of a unit operand (pure function of the derivation; memoised)"""
    key = tuple((t, e) for t, e in u["terms"])
    r = _FEXACT.get(key)
    if r is None:
        r = _FEXACT[key] = _fexact_compute(u)
    return r


def _fexact_compute(u):
    ex, fl, integral = F(1), 1.0, True
    for t, e in _terms(u):
        sp = _REF.spellings[t]
        if e.denominator == 1:
            ex *= sp.exact ** int(e)
        else:
            integral = False
            fl *= math.pow(sp.factor, e.numerator / e.denominator)
    if integral:
        return ex, float(ex)
    return None, float(ex) * fl


def _expected(x, u, v, reciprocal=False):
    """-> (value, extreme) ; extreme: exact value or an intermediate outside 1e-300..1e300 (only the sign is demanded)"""
    eu, fu = _fexact(u)
    ev, fv = _fexact(v)
    if x == 0:
        return 0.0, False
    if eu is not None and ev is not None:
        inter = F(x) * eu
        res = (1 / inter if reciprocal else inter) / ev
        lg = [_log10(inter), _log10(res)]
        if any(abs(l) > 300 for l in lg):
            return math.copysign(1.0, x), True
        return float(res), False
    inter = x * fu
    if inter == 0 or math.isinf(inter) or abs(math.log10(abs(inter))) > 300:
        return math.copysign(1.0, x), True
    res = (1 / inter if reciprocal else inter) / fv
    if res == 0 or math.isinf(res) or abs(math.log10(abs(res))) > 300:
        return math.copysign(1.0, x), True
    return res, False


def _log10(fr):
    fr = abs(fr)
    return math.log10(fr.numerator) - math.log10(fr.denominator)


def _agree(obs, exp, extreme, rtol=RTOL):
    try:
        obs = float(obs)
    except (TypeError, ValueError):
        return False
    if math.isnan(obs):
        return False
    if extreme:
        return obs == 0 or (obs > 0) == (exp > 0)
    return units_ref.close(obs, exp, rtol)


def _means(text, u):
    """does the rendered units text of the library mean the unit operand u (by the tables)?"""
    rd = _REF.split_expression(text)
    return rd is not None and rd == _REF.merge(_terms(u))


# ----------------------------------------------------------------------------------------------- scenarios
def _scalar_or_array(x):
    return list(x) if isinstance(x, (list, tuple)) else x


def check_convert(case):
    """sub in {pair, compound, reciprocal}: value(v), to(v), to(v).to(u) for one x (scalar or list)."""
    Quantity = _lib()
    u, v, x = case["u"], case["v"], case["x"]
    rec = case.get("reciprocal", False)
    xs = x if isinstance(x, list) else [x]
    exp = [_expected(xi, u, v, rec) for xi in xs]
    tags = list(case.get("tags", [])) + (["array"] if isinstance(x, list) else ["scalar"]) + _utags(u, v)

    def cmp(obs, what):
        """compare an observed scalar/array with exp; returns failure or None"""
        if isinstance(x, list):
            if not isinstance(obs, np.ndarray) or obs.shape != (len(xs),):
                return failure(case["sub"], case, [e[0] for e in exp], repr(obs), tags=tags,
                               behaviour=what + ":not-elementwise")
            vals = [float(o) for o in obs]
        else:
            if isinstance(obs, np.ndarray) and obs.shape != ():
                return failure(case["sub"], case, exp[0][0], repr(obs), tags=tags, behaviour=what + ":not-scalar")
            vals = [obs]
        for o, (e, ext) in zip(vals, exp):
            if not _agree(o, e, ext):
                return failure(case["sub"], case, [e_[0] for e_ in exp] if isinstance(x, list) else e,
                               [float(v_) for v_ in vals] if isinstance(x, list) else _num(o), tags=tags,
                               behaviour=what + ":wrong-value")
        return None

    # out-of-place: asked twice of the same object (the answer must not depend on an earlier query) and the
    # source must report its own value and units unchanged afterwards
    def _twice():
        q0 = Quantity(_scalar_or_array(x), u["text"])
        units0 = q0.units()
        a = q0.value(v["text"])
        a = a.copy() if isinstance(a, np.ndarray) else a
        b = q0.value(v["text"])
        return a, b, q0.value(), q0.units() == units0
    o = outcome(_twice)
    if o[0] == "err":
        return failure(case["sub"], case, [e[0] for e in exp], dict(error=o[1], message=o[2]), tags=tags,
                       behaviour="value:raises:" + o[1])
    f = cmp(o[1][0], "value") or cmp(o[1][1], "value-second-query")
    if f:
        return f
    src = o[1][2]
    src = [float(s_) for s_ in src] if isinstance(src, np.ndarray) and src.shape else [float(src)]
    if src != [float(xi) for xi in xs] or not o[1][3]:
        return failure(case["sub"], case, x, dict(value=src, units_unchanged=o[1][3]), tags=tags,
                       behaviour="value:source-changed-by-query")
    # in place
    oq = outcome(lambda: Quantity(_scalar_or_array(x), u["text"]))
    if oq[0] == "err":
        return failure(case["sub"], case, "quantity", dict(error=oq[1], message=oq[2]), tags=tags,
                       behaviour="construct:raises:" + oq[1])
    q = oq[1]
    o = outcome(lambda: q.to(v["text"]))
    if o[0] == "err":
        return failure(case["sub"], case, [e[0] for e in exp], dict(error=o[1], message=o[2]), tags=tags,
                       behaviour="to:raises:" + o[1])
    if o[1] is not q:
        return failure(case["sub"], case, "to() returns the quantity itself", repr(o[1]), tags=tags,
                       behaviour="to:not-in-place")
    o = outcome(lambda: (q.value(), q.units()))
    if o[0] == "err":
        return failure(case["sub"], case, "readable quantity", dict(error=o[1], message=o[2]), tags=tags,
                       behaviour="to:unreadable:" + o[1])
    f = cmp(o[1][0], "to")
    if f:
        return f
    if not _means(o[1][1], v):
        return failure(case["sub"], case, v["text"], o[1][1], tags=tags, behaviour="to:units-not-target")
    # the target given as an object instead of a string: Quantity(1, v) and BaseUnits(v) name the same unit
    if case.get("objtargets"):
        from scinumtools.units import BaseUnits
        for form in ("quantity1", "baseunits"):
            o = outcome(lambda: Quantity(_scalar_or_array(x), u["text"]).to(
                Quantity(1, v["text"]) if form == "quantity1" else BaseUnits(v["text"])))
            if o[0] == "err":
                return failure(case["sub"], case, [e[0] for e in exp], dict(error=o[1], message=o[2]), tags=tags,
                               behaviour="to-" + form + ":raises:" + o[1])
            o = outcome(lambda: o[1].value())
            if o[0] == "err":
                return failure(case["sub"], case, "readable quantity", dict(error=o[1], message=o[2]), tags=tags,
                               behaviour="to-" + form + ":unreadable:" + o[1])
            f = cmp(o[1], "to-" + form)
            if f:
                return f
        o = outcome(lambda: Quantity(_scalar_or_array(x), u["text"]).value(BaseUnits(v["text"])))
        if o[0] == "err":
            return failure(case["sub"], case, [e[0] for e in exp], dict(error=o[1], message=o[2]), tags=tags,
                           behaviour="value-baseunits:raises:" + o[1])
        f = cmp(o[1], "value-baseunits")
        if f:
            return f
    # and back
    if any(e[1] for e in exp) or (rec and any(xi == 0 for xi in xs)):
        return None
    o = outcome(lambda: (q.to(u["text"]).value(), q.units()))
    if o[0] == "err":
        return failure(case["sub"], case, x, dict(error=o[1], message=o[2]), tags=tags, behaviour="back:raises:" + o[1])
    back = o[1][0]
    vals = [float(b) for b in back] if isinstance(x, list) and isinstance(back, np.ndarray) else [back]
    if len(vals) != len(xs) or not all(_agree(b, xi, False) for b, xi in zip(vals, xs)):
        return failure(case["sub"], case, x, [_num(b) for b in vals], tags=tags, behaviour="back:wrong-value")
    if not _means(o[1][1], u):
        return failure(case["sub"], case, u["text"], o[1][1], tags=tags, behaviour="back:units-not-source")
    return None


def _num(o):
    try:
        return float(o)
    except (TypeError, ValueError):
        return repr(o)


def check_number_to_rad(case):
    Quantity = _lib()
    x = case["x"]
    xs = x if isinstance(x, list) else [x]
    tags = ["bare-number-source", "array" if isinstance(x, list) else "scalar"]
    o = outcome(lambda: Quantity(_scalar_or_array(x)).value("rad"))
    if o[0] == "err":
        return failure("number-to-rad", case, x, dict(error=o[1], message=o[2]), tags=tags,
                       behaviour="value:raises:" + o[1])
    vals = [float(b) for b in o[1]] if isinstance(o[1], np.ndarray) and o[1].shape else [o[1]]
    if len(vals) != len(xs) or not all(_num(a) == b for a, b in zip(vals, xs)):
        return failure("number-to-rad", case, x, [_num(b) for b in vals], tags=tags, behaviour="value:changed")
    o = outcome(lambda: Quantity(_scalar_or_array(x)).to("rad"))
    if o[0] == "err":
        return failure("number-to-rad", case, x, dict(error=o[1], message=o[2]), tags=tags,
                       behaviour="to:raises:" + o[1])
    q = o[1]
    o = outcome(lambda: (q.value(), q.units()))
    if o[0] == "err":
        return failure("number-to-rad", case, x, dict(error=o[1], message=o[2]), tags=tags, behaviour="to:unreadable")
    vals = [float(b) for b in o[1][0]] if isinstance(o[1][0], np.ndarray) and o[1][0].shape else [o[1][0]]
    if len(vals) != len(xs) or not all(_num(a) == b for a, b in zip(vals, xs)):
        return failure("number-to-rad", case, x, [_num(b) for b in vals], tags=tags, behaviour="to:changed")
    if o[1][1] != "rad":
        return failure("number-to-rad", case, "rad", o[1][1], tags=tags, behaviour="to:units-not-target")
    return None


def _make(Quantity, x, u):
    if u is None:
        return Quantity(_scalar_or_array(x))
    return Quantity(_scalar_or_array(x), u["text"])


def _state(q):
    v = q.value()
    return ([float(a) for a in v] if isinstance(v, np.ndarray) and v.shape else float(v)), q.units()


def check_refuse(case):
    """different, non-reciprocal dimensions: value(v) and to(v) must raise; the quantity stays as it was."""
    Quantity = _lib()
    u, v, x = case["u"], case["v"], case["x"]
    tags = list(case.get("tags", [])) + (["array"] if isinstance(x, list) else ["scalar"]) + _utags(u, v)
    oq = outcome(lambda: _make(Quantity, x, u))
    if oq[0] == "err":
        return failure("refuse", case, "quantity", dict(error=oq[1], message=oq[2]), tags=tags,
                       behaviour="construct:raises:" + oq[1])
    q = oq[1]
    before = outcome(_state, q)
    if before[0] == "err":
        return failure("refuse", case, "readable quantity", dict(error=before[1], message=before[2]), tags=tags,
                       behaviour="unreadable-before")
    from scinumtools.units import BaseUnits
    if v["text"] is None:        # the target "no unit" as an object
        targets = dict(value_baseunits=lambda: q.value(BaseUnits()), to_baseunits=lambda: q.to(BaseUnits()),
                       to_quantity1=lambda: q.to(Quantity(1)))
    else:
        targets = dict(value=lambda: q.value(v["text"]), to=lambda: q.to(v["text"]),
                       to_quantity1=lambda: q.to(Quantity(1, v["text"])),
                       to_quantity4=lambda: q.to(Quantity(4, v["text"])),
                       to_baseunits=lambda: q.to(BaseUnits(v["text"])),
                       value_baseunits=lambda: q.value(BaseUnits(v["text"])))
    for how in targets:
        o = outcome(targets[how])
        if o[0] == "ok":
            got = o[1] if how.startswith("value") else o[1].value()
            return failure("refuse", case, "refused with an error",
                           dict(converted=[float(a) for a in got] if isinstance(got, np.ndarray) and got.shape
                                else _num(got)), tags=tags, behaviour=how + ":converted")
        if o[1] == "CaseTimeout":
            return failure("refuse", case, "refused with an error", dict(error=o[1]), tags=tags,
                           behaviour=how + ":timeout")
        after = outcome(_state, q)
        if after[0] == "err":
            return failure("refuse", case, dict(value=before[1][0], units=before[1][1]),
                           dict(error=after[1], message=after[2]), tags=tags,
                           behaviour=how + ":quantity-unreadable-after-refusal")
        if after[1][1] != before[1][1]:
            return failure("refuse", case, dict(value=before[1][0], units=before[1][1]),
                           dict(value=after[1][0], units=after[1][1]), tags=tags,
                           behaviour=how + ":units-changed-by-refused-conversion")
        if after[1][0] != before[1][0]:
            return failure("refuse", case, dict(value=before[1][0], units=before[1][1]),
                           dict(value=after[1][0], units=after[1][1]), tags=tags,
                           behaviour=how + ":value-changed-by-refused-conversion")
    return None


def check_nounit(case):
    """dimensionless source -> the target 'no unit' given as an object: x*f(u) by value(BaseUnits()), to(BaseUnits()),
    to(Quantity(1))"""
    Quantity = _lib()
    from scinumtools.units import BaseUnits
    u, x = case["u"], case["x"]
    xs = x if isinstance(x, list) else [x]
    exp = [_expected(xi, u, NOUNIT) for xi in xs]
    tags = ["no-unit-target", "dimensionless-source", "array" if isinstance(x, list) else "scalar"] + _utags(u)
    forms = dict(value_baseunits=lambda: Quantity(_scalar_or_array(x), u["text"]).value(BaseUnits()),
                 to_baseunits=lambda: Quantity(_scalar_or_array(x), u["text"]).to(BaseUnits()),
                 to_quantity1=lambda: Quantity(_scalar_or_array(x), u["text"]).to(Quantity(1)))
    for how, fn in forms.items():
        o = outcome(fn)
        if o[0] == "err":
            return failure("nounit", case, [e[0] for e in exp], dict(error=o[1], message=o[2]), tags=tags,
                           behaviour=how + ":raises:" + o[1])
        got, units = o[1], None
        if not how.startswith("value"):
            o2 = outcome(lambda: (o[1].value(), o[1].units()))
            if o2[0] == "err":
                return failure("nounit", case, [e[0] for e in exp], dict(error=o2[1], message=o2[2]), tags=tags,
                               behaviour=how + ":unreadable:" + o2[1])
            got, units = o2[1]
        vals = [float(g) for g in got] if isinstance(got, np.ndarray) and got.shape else [got]
        if len(vals) != len(xs) or not all(_agree(g, e, ext) for g, (e, ext) in zip(vals, exp)):
            return failure("nounit", case, [e[0] for e in exp], [_num(g) for g in vals], tags=tags,
                           behaviour=how + ":wrong-value")
        if units is not None:
            return failure("nounit", case, "no unit", units, tags=tags, behaviour=how + ":units-not-target")
    return None


def _dtype_input(form, xs):
    kind, _, dt = form.partition(":")
    if kind == "list":
        return [list(xs)], [[float(x) for x in xs]]
    arr = np.array(xs, dtype=dt)
    held = [float(a) for a in arr]
    if kind == "array":
        return [arr], [held]
    return [np.dtype(dt).type(a) for a in arr], [[h] for h in held]      # numpy scalars, one conversion each


def check_dtype(case):
    """the magnitude handed in as list / numpy array / numpy scalar of a given dtype: value(v), to(v) and back must be
    the double-precision conversion of the values the container holds"""
    Quantity = _lib()
    u, v, form, rec = case["u"], case["v"], case["form"], case.get("reciprocal", False)
    tags = ["input:" + form] + (["reciprocal-dimension"] if rec else ["same-dimension"]) + _utags(u, v)
    inputs, helds = _dtype_input(form, case["xs"])
    for inp, held in zip(inputs, helds):
        exp = [_expected(h, u, v, rec) for h in held]

        def bad(obs):
            vals = [float(g) for g in obs] if isinstance(obs, np.ndarray) and obs.shape else [obs]
            if len(vals) != len(exp) or not all(_agree(g, e, ext) for g, (e, ext) in zip(vals, exp)):
                return [_num(g) for g in vals]
            return None
        keep = inp.copy() if isinstance(inp, np.ndarray) else inp
        o = outcome(lambda: Quantity(inp, u["text"]).value(v["text"]))
        if o[0] == "err":
            return failure("dtype", case, [e[0] for e in exp], dict(error=o[1], message=o[2]), tags=tags,
                           behaviour="value:raises:" + o[1])
        b = bad(o[1])
        if b is not None:
            return failure("dtype", case, [e[0] for e in exp], b, tags=tags, behaviour="value:wrong-value")
        o = outcome(lambda: Quantity(inp, u["text"]).to(v["text"]))
        if o[0] == "err":
            return failure("dtype", case, [e[0] for e in exp], dict(error=o[1], message=o[2]), tags=tags,
                           behaviour="to:raises:" + o[1])
        q = o[1]
        o = outcome(lambda: q.value())
        b = ["unreadable"] if o[0] == "err" else bad(o[1])
        if b is not None:
            return failure("dtype", case, [e[0] for e in exp], b, tags=tags, behaviour="to:wrong-value")
        if not any(ext for _, ext in exp) and not (rec and 0.0 in held):
            o = outcome(lambda: q.to(u["text"]).value())
            vals = None if o[0] == "err" else ([float(g) for g in o[1]] if isinstance(o[1], np.ndarray) and o[1].shape
                                               else [o[1]])
            if vals is None or len(vals) != len(held) or not all(_agree(g, h, False) for g, h in zip(vals, held)):
                return failure("dtype", case, held, "error" if vals is None else [_num(g) for g in vals], tags=tags,
                               behaviour="back:wrong-value")
        if isinstance(inp, np.ndarray) and not (inp.dtype == keep.dtype and np.array_equal(inp, keep)):
            return failure("dtype", case, [float(k) for k in keep], [float(k) for k in inp], tags=tags,
                           behaviour="input-array-changed")
    return None


UNC_XS = [2.5, 50.0]
UNC_KW = [dict(abse=0.5), dict(rele=2)]


def check_uncertainty(case):
    """Quantity(x, u, abse=.. | rele=..): value(v) and to(v).value() are x*f(u)/f(v) (or the reciprocal rule) exactly as
    without an uncertainty; only the VALUE is compared here (uncertainties themselves: C08)"""
    Quantity = _lib()
    u, v, x, kw, rec = case["u"], case["v"], case["x"], case["kw"], case.get("reciprocal", False)
    e, ext = _expected(x, u, v, rec)
    tags = ["with-uncertainty:" + "+".join(sorted(kw))] + \
        (["reciprocal-dimension"] if rec else ["same-dimension"]) + _utags(u, v)
    for how, fn in (("value", lambda: Quantity(x, u["text"], **kw).value(v["text"])),
                    ("to", lambda: Quantity(x, u["text"], **kw).to(v["text"]).value())):
        o = outcome(fn)
        if o[0] == "err":
            return failure("uncertainty", case, e, dict(error=o[1], message=o[2]), tags=tags,
                           behaviour=how + ":raises:" + o[1])
        if not _agree(o[1], e, ext):
            return failure("uncertainty", case, e, _num(o[1]), tags=tags, behaviour=how + ":wrong-value")
    return None


def check_triple(case, direct=None):
    """Quantity(x,u).to(w).value(v) for every v of the group, against the direct conversion and the reference.

    case: dict(sub='triple', u, w, vs=[...], x).  One intermediate quantity serves every v (value() is out of place;
    that it leaves the quantity alone is re-checked at the end)."""
    Quantity = _lib()
    u, w, x = case["u"], case["w"], case["x"]
    tags = list(case.get("tags", []))
    oq = outcome(lambda: Quantity(x, u["text"]).to(w["text"]))
    if oq[0] == "err":
        return failure("triple", case, "conversion", dict(error=oq[1], message=oq[2]), tags=tags + _utags(u, w),
                       behaviour="to:raises:" + oq[1]), 0
    q = oq[1]
    st0 = outcome(_state, q)
    n = 0
    for v in case["vs"]:
        e, ext = _expected(x, u, v)
        o = outcome(lambda: q.value(v["text"]))
        n += 1
        c1 = dict(case, vs=[v])
        tags = list(case.get("tags", [])) + _utags(u, w, v)
        if o[0] == "err":
            return failure("triple", c1, e, dict(error=o[1], message=o[2]), tags=tags, behaviour="value:raises:" + o[1]), n
        if not _agree(o[1], e, ext, 2 * RTOL):
            return failure("triple", c1, e, _num(o[1]), tags=tags, behaviour="via-intermediate:wrong-value"), n
        d = direct.get(v["text"]) if direct is not None else None
        if d is None:
            od = outcome(lambda: Quantity(x, u["text"]).value(v["text"]))
            if od[0] == "err":
                return failure("triple", c1, e, dict(error=od[1], message=od[2]), tags=tags,
                               behaviour="direct:raises:" + od[1]), n
            d = od[1]
            if direct is not None:
                direct[v["text"]] = d
        if not ext and not units_ref.close(float(o[1]), float(d), 2 * RTOL):
            return failure("triple", c1, dict(direct=_num(d)), dict(via=_num(o[1])), tags=tags,
                           behaviour="via-intermediate:differs-from-direct"), n
    st1 = outcome(_state, q)
    if st0 != st1:
        return failure("triple", case, st0, st1, tags=tags, behaviour="value()-changed-the-quantity"), n
    return None, n


# ----------------------------------------------------------------------------------------------- histories
def _vals(v):
    return [float(a) for a in v] if isinstance(v, np.ndarray) and v.shape else [v]


def _all_agree(obs, exp, rtol=RTOL):
    vals = _vals(obs)
    return len(vals) == len(exp) and all(_agree(o, e, ext, rtol) for o, (e, ext) in zip(vals, exp))


def check_history(case):
    """sub 'history': ONE live quantity Quantity(x, u) taken through a sequence of steps
        ["value", i]  out-of-place query value(targets[i])            (string target)
        ["to", i]     in-place conversion to(targets[i])
        ["rebase"]    in-place merge of the units that repeat a dimension (a conversion u -> u' chosen by the library)
    After EVERY step the quantity is re-read: value() and units() must be the amount x*f(u) expressed in the unit the
    quantity now reports (the target of the last to(); after rebase() whatever unit of the same dimension it reports),
    and every value(v) must be x*f(u)/f(v) - whatever was asked of, or done to, the object before."""
    Quantity = _lib()
    u0, targets, ops, x = case["u"], case["targets"], case["ops"], case["x"]
    xs = x if isinstance(x, list) else [x]
    kinds = [o[0] for o in ops]
    tags = ["history", "array" if isinstance(x, list) else "scalar"] + \
        (["has-rebase"] if "rebase" in kinds else []) + (["has-to"] if "to" in kinds else []) + \
        (["has-value-query"] if "value" in kinds else []) + _utags(u0, *targets)
    oq = outcome(lambda: Quantity(_scalar_or_array(x), u0["text"]))
    if oq[0] == "err":
        return failure("history", case, "quantity", dict(error=oq[1], message=oq[2]), tags=tags,
                       behaviour="construct:raises:" + oq[1])
    q = oq[1]
    now = u0                 # the unit the quantity must report at this point
    last = "fresh"           # the latest in-place step
    d0 = _REF.terms_dims(_terms(u0))
    full = case
    for n, op in enumerate(ops):
        where = dict(step=n, op=op, after=last)
        case = dict(full, ops=ops[:n + 1])          # reported (and replayed) cut after the failing step
        if op[0] == "value":
            v = targets[op[1]]
            exp = [_expected(xi, u0, v) for xi in xs]
            o = outcome(lambda: q.value(v["text"]))
            if o[0] == "err":
                return failure("history", case, [e[0] for e in exp], dict(where, error=o[1], message=o[2]), tags=tags,
                               behaviour="value-after-%s:raises:%s" % (last, o[1]))
            if not _all_agree(o[1], exp, 2 * RTOL):
                return failure("history", case, [e[0] for e in exp], dict(where, value=[_num(g) for g in _vals(o[1])]),
                               tags=tags, behaviour="value-after-%s:wrong-value" % last)
        elif op[0] == "to":
            w = targets[op[1]]
            o = outcome(lambda: q.to(w["text"]))
            if o[0] == "err":
                return failure("history", case, "converted", dict(where, error=o[1], message=o[2]), tags=tags,
                               behaviour="to-after-%s:raises:%s" % (last, o[1]))
            now, last = w, "to"
        else:
            o = outcome(q.rebase)
            if o[0] == "err":
                return failure("history", case, "rebased", dict(where, error=o[1], message=o[2]), tags=tags,
                               behaviour="rebase-after-%s:raises:%s" % (last, o[1]))
            ou = outcome(q.units)
            rd = _REF.split_expression(ou[1]) if ou[0] == "ok" else None
            if not rd or _REF.terms_dims(list(rd.items())) != d0:
                return failure("history", case, "a unit of the dimension of " + u0["text"], dict(where, units=ou[1:]),
                               tags=tags, behaviour="rebase-after-%s:units-of-other-dimension" % last)
            now, last = U(ou[1], list(rd.items())), "rebase"
        # the quantity as it reports itself now
        st = outcome(lambda: (q.value(), q.units()))
        if st[0] == "err":
            return failure("history", case, "readable quantity", dict(where, error=st[1], message=st[2]), tags=tags,
                           behaviour="%s-after-%s:unreadable:%s" % (op[0], where["after"], st[1]))
        exp = [_expected(xi, u0, now) for xi in xs]
        if not _all_agree(st[1][0], exp, 2 * RTOL):
            return failure("history", case, dict(value=[e[0] for e in exp], units=now["text"]),
                           dict(where, value=[_num(g) for g in _vals(st[1][0])], units=st[1][1]), tags=tags,
                           behaviour="%s-after-%s:%s" % (op[0], where["after"], "quantity-changed-by-query"
                                                         if op[0] == "value" else "wrong-value"))
        if not _means(st[1][1], now):
            return failure("history", case, now["text"], dict(where, units=st[1][1]), tags=tags,
                           behaviour="%s-after-%s:%s" % (op[0], where["after"], "units-changed-by-query"
                                                         if op[0] == "value" else "units-not-target"))
    return None


def _key(k):
    kind = k[0]
    if kind == "slice":
        return slice(k[1], k[2], k[3])
    if kind == "int":
        return k[1]
    if kind == "index":
        return list(k[1])
    if kind == "mask":
        return np.array(k[1], dtype=bool)
    return Ellipsis


def _is_rec(a, b):
    return _REF.terms_dims(_terms(a)) != _REF.terms_dims(_terms(b))


def check_shared(case):
    """sub 'shared': TWO quantities holding the same numbers in the unit u (one is a slice / element selection of the
    other, or both were built from one caller-owned ndarray, or one was rebuilt from value() and the units object of
    the other).  The 'actor' is converted in place to w; the other one (the 'witness') was never converted: it must
    still report x in u, value(v) must be x*f(u)/f(v), its own to(v) must give that too - and must in turn leave the
    actor at x*f(u)/f(w) in w.  The caller's ndarray keeps its numbers."""
    Quantity = _lib()
    from scinumtools.units import BaseUnits
    u, w, v, x, build, actor = case["u"], case["w"], case["v"], case["x"], case["build"], case["actor"]
    tags = ["shared-origin", "build:" + build[0] + ("-" + build[1][0] if build[0] == "select" else ""),
            "actor:" + ("first" if actor == 0 else "second")] + _utags(u, w, v)
    arr = keep = None

    def make():
        nonlocal arr, keep
        if build[0] == "select":             # first = whole array quantity, second = first[key]
            a = Quantity(list(x), u["text"])
            return [a, a[_key(build[1])]], [list(x), _vals(np.array(x, dtype=float)[_key(build[1])])]
        arr = np.array(x, dtype=float)
        keep = arr.copy()
        if build[0] == "array-baseunits":    # one caller-owned ndarray, units as two BaseUnits objects
            return [Quantity(arr, BaseUnits(u["text"])), Quantity(arr, BaseUnits(u["text"]))], [list(x), list(x)]
        if build[0] == "array-one-baseunits":  # ... and as one BaseUnits object handed to both
            bu = BaseUnits(u["text"])
            return [Quantity(arr, bu), Quantity(arr, bu)], [list(x), list(x)]
        if build[0] == "array-string":       # ... units as text
            return [Quantity(arr, u["text"]), Quantity(arr, u["text"])], [list(x), list(x)]
        if build[0] == "rebuilt":            # second = Quantity(first.value(), first.baseunits)
            a = Quantity(arr, u["text"])
            return [a, Quantity(a.value(), a.baseunits)], [list(x), list(x)]
        raise HarnessError("unknown build %r" % (build,))
    o = outcome(make)
    if o[0] == "err":
        return failure("shared", case, "two quantities", dict(error=o[1], message=o[2]), tags=tags,
                       behaviour="construct:raises:" + o[1])
    (qs, held) = o[1]
    A, W = qs[actor], qs[1 - actor]
    xa, xw = held[actor], held[1 - actor]

    def read(q, xs_, unit, src, what, rec=False):
        st = outcome(lambda: (q.value(), q.units()))
        if st[0] == "err":
            return failure("shared", case, "readable quantity", dict(error=st[1], message=st[2]), tags=tags,
                           behaviour=what + ":unreadable:" + st[1])
        exp = [_expected(xi, src, unit, rec) for xi in xs_]
        if not _all_agree(st[1][0], exp):
            return failure("shared", case, dict(value=[e[0] for e in exp], units=unit["text"]),
                           dict(value=[_num(g) for g in _vals(st[1][0])], units=st[1][1]), tags=tags,
                           behaviour=what + ":wrong-value")
        if not _means(st[1][1], unit):
            return failure("shared", case, unit["text"], st[1][1], tags=tags, behaviour=what + ":wrong-units")
        return None
    f = read(A, xa, u, u, "actor-before") or read(W, xw, u, u, "witness-before")
    if f:
        return f
    o = outcome(lambda: A.to(w["text"]))
    if o[0] == "err":
        return failure("shared", case, "converted", dict(error=o[1], message=o[2]), tags=tags,
                       behaviour="actor-to:raises:" + o[1])
    f = read(A, xa, w, u, "actor-to", _is_rec(u, w)) or read(W, xw, u, u, "witness-after-actor-to")
    if f:
        return f
    rv = _is_rec(u, v)
    exp = [_expected(xi, u, v, rv) for xi in xw]
    o = outcome(lambda: W.value(v["text"]))
    if o[0] == "err":
        return failure("shared", case, [e[0] for e in exp], dict(error=o[1], message=o[2]), tags=tags,
                       behaviour="witness-value:raises:" + o[1])
    if not _all_agree(o[1], exp):
        return failure("shared", case, [e[0] for e in exp], [_num(g) for g in _vals(o[1])], tags=tags,
                       behaviour="witness-value:wrong-value")
    o = outcome(lambda: W.to(v["text"]))
    if o[0] == "err":
        return failure("shared", case, [e[0] for e in exp], dict(error=o[1], message=o[2]), tags=tags,
                       behaviour="witness-to:raises:" + o[1])
    f = read(W, xw, v, u, "witness-to", rv) or read(A, xa, w, u, "actor-after-witness-to", _is_rec(u, w))
    if f:
        return f
    if arr is not None and not (arr.dtype == keep.dtype and np.array_equal(arr, keep)):
        return failure("shared", case, [float(k) for k in keep], [float(k) for k in arr], tags=tags,
                       behaviour="input-array-changed")
    return None


# ----------------------------------------------------------------------------------------------- alphabets
_LEAVES = [("m", 1), ("km", 1), ("cm", 1), ("m", 2), ("s", 1), ("h", 1), ("s", 2), ("kg", 1), ("g", 1),
           ("J", 1), ("erg", 1), ("eV", 1), ("N", 1), ("dyn", 1), ("W", 1), ("Pa", 1), ("Hz", 1)]

GBU = [  # Gaussian units with fractional exponents against their definitions (hand-written derivations)
    ("statC", [("dyn", F(1, 2)), ("cm", 1)], "dyn1:2*cm"),
    ("statA", [("dyn", F(1, 2)), ("cm", 1), ("s", -1)], "dyn1:2*cm/s"),
    ("statV", [("erg", 1), ("dyn", F(-1, 2)), ("cm", -1)], "erg/(dyn1:2*cm)"),
    ("statG", [("cm", F(-1, 2)), ("g", F(1, 2)), ("s", -1)], "cm-1:2*g1:2/s"),
    ("statOe", [("cm", F(-1, 2)), ("g", F(1, 2)), ("s", -1)], "cm-1:2*g1:2/s"),
    ("abC", [("g", F(1, 2)), ("cm", F(1, 2))], "g1:2*cm1:2"),
    ("abA", [("g", F(1, 2)), ("cm", F(1, 2)), ("s", -1)], "g1:2*cm1:2/s"),
    ("Fr", [("g", F(1, 2)), ("cm", F(3, 2)), ("s", -1)], "g1:2*cm3:2/s"),
    ("[esu_e]", [("g", F(1, 2)), ("m", F(3, 2)), ("s", -1)], "g1:2*m3:2/s"),
    ("[emu_mu_B]", [("erg", 1), ("statG", -1)], "erg/statG"),
]

_COMPOUND = None


def _compound_groups():
    """[(dims, [unit operand, ...])] : canonical expressions over _LEAVES (no symbol twice), >= 2 per group"""
    global _COMPOUND
    if _COMPOUND is not None:
        return _COMPOUND
    lt = lambda l: l[0] + units_ref.exp_text(l[1])
    L = _LEAVES
    ex = {}

    def add(text, terms):
        syms = [_REF.spellings[t].symbol for t, _ in terms]
        if len(set(syms)) == len(syms):
            ex.setdefault(text, terms)
    for i, a in enumerate(L):
        add(lt(a), [(a[0], a[1])])
        for j, b in enumerate(L):
            if i < j:
                add(lt(a) + "*" + lt(b), [(a[0], a[1]), (b[0], b[1])])
            add(lt(a) + "/" + lt(b), [(a[0], a[1]), (b[0], -b[1])])
            for k, c in enumerate(L):
                if i < j:
                    add(lt(a) + "*" + lt(b) + "/" + lt(c), [(a[0], a[1]), (b[0], b[1]), (c[0], -c[1])])
                if j < k:
                    add(lt(a) + "/(" + lt(b) + "*" + lt(c) + ")", [(a[0], a[1]), (b[0], -b[1]), (c[0], -c[1])])
    g = {}
    for text, terms in ex.items():
        d = _REF.terms_dims(terms)
        if any(x != 0 for x in d):
            g.setdefault(d, []).append(U(text, terms))
    _COMPOUND = [(d, g[d]) for d in sorted(g, key=lambda d: (-len(g[d]), g[d][0]["text"])) if len(g[d]) > 1]
    return _COMPOUND


def _neg(d):
    return tuple(-x for x in d)


def _reciprocal_pairs():
    """[(u, v)] ordered pairs of unit operands of exactly negated (non-zero) dimension"""
    out = []
    gd = dict(_GROUPS)
    for d, names in _GROUPS:
        if any(x != 0 for x in d) and _neg(d) in gd:
            for a in names:
                for b in gd[_neg(d)]:
                    out.append((U(a), U(b)))
    # every spelling against the inverse of a representative of its own group, both directions
    for d, names in _GROUPS:
        if all(x == 0 for x in d):
            continue
        rep = names[0]
        inv = U(rep + "-1", [(rep, -1)])
        for a in names:
            out.append((U(a), inv))
            out.append((inv, U(a)))
    return out


NOUNIT = dict(text=None, terms=[])       # the target "no unit", handed over as an empty BaseUnits() object
DTYPE_GROUPS = [["ym", "mm", "m", "Tm", "Ym"], ["J", "eV", "MeV"], ["g", "[M_sol]"], ["%", "ppth"]]
DTYPE_RECIPROCAL = [("s", "kHz"), ("kHz", "s")]
DTYPE_FORMS = {   # how the magnitude is handed in -> value sets (exactly the values the container holds are expected)
    "array:float64": [[2.5, -0.75, 0.0], [2.5e30, 1e-30, 1e200]],
    "array:float32": [[2.5, -0.75, 0.0], [2.5e30, 1e-30]],
    "array:float16": [[2.5, -0.75, 0.0], [6e4, 6e-5]],
    "array:int64": [[3, -2, 0], [10 ** 15]],
    "array:int32": [[3, -2, 0], [2 ** 31 - 1]],
    "list": [[2.5, -0.75, 0.0], [2.5e30, 1e-30, 1e200]],
    "scalar:float64": [[2.5, 2.5e30]],
    "scalar:float32": [[2.5, 2.5e30, 1e-30]],
    "scalar:float16": [[2.5, 6e4, 6e-5]],
    "scalar:int64": [[3, -2]],
}
POWERS = [F(1, 2), F(-3, 2), F(2)]
POWER_NEIGHBOURS = {F(1, 2): [F(1)], F(-3, 2): [F(-1), F(-2)], F(2): [F(1), F(3)]}     # never -e (reciprocal)


def _pow(name, e):
    return U(name + units_ref.exp_text(e), [(name, e)])


def _power_cases():
    """[(S, R, e)]: every linear table symbol S (no prefix) with another spelling R of its dimension (S itself if it
    is alone) and every exponent of POWERS"""
    gd = dict(_GROUPS)
    out = []
    for name in _REF.linear_spellings():
        sp = _REF.spellings[name]
        if sp.prefix is not None:
            continue
        others = [n for n in gd[sp.dims] if n != name]
        plain = [n for n in others if not _REF.spellings[n].system]
        partner = (plain or others or [name])[0]
        for e in POWERS:
            out.append((name, partner, e))
    return out


_RAD_ONLY = [  # compound representatives that differ from a table group only in the rad exponent
    ("rad/s", [("rad", 1), ("s", -1)]), ("rad*m", [("rad", 1), ("m", 1)]), ("rad2", [("rad", 2)]),
    ("cd/m2", [("cd", 1), ("m", -2)]), ("cd*rad", [("cd", 1), ("rad", 1)]), ("m/rad", [("m", 1), ("rad", -1)]),
    ("m*s", [("m", 1), ("s", 1)]), ("kg*m2/s2", [("kg", 1), ("m", 2), ("s", -2)]), ("rad-1", [("rad", -1)]),
]


def _refusal_reps():
    """[(unit operand | None, dims)] ; None = bare number"""
    reps = [(None, tuple([F(0)] * 8))]
    for d, names in _GROUPS:
        pick = [names[0]]
        if len(names) > 1:
            pick.append(names[-1])
        for n in pick:
            reps.append((U(n), d))
    for text, terms in _RAD_ONLY:
        reps.append((U(text, terms), _REF.terms_dims([(t, F(e)) for t, e in terms])))
    return reps


def _refusal_pairs():
    reps = _refusal_reps()
    rad1 = tuple(F(1) if i == 7 else F(0) for i in range(8))
    out = []
    for u, du in reps:
        for v, dv in reps:
            if v is None:
                continue                      # a target without any unit: not demanded
            if du == dv or du == _neg(dv):
                continue
            if u is None and dv == rad1:
                continue                      # bare number -> rad converts; other angle units: not demanded
            tags = []
            if u is None:
                tags.append("bare-number-source")
            if du[:7] == dv[:7]:
                tags.append("differs-only-in-rad")
            if u is None and dv[7] != 0:
                tags.append("target-contains-rad")
            out.append((u, v, tags))
    for u, du in reps:
        if u is not None and any(x != 0 for x in du):
            out.append((u, NOUNIT, ["no-unit-target"]))
    return out


# histories on one live quantity: start units that repeat a dimension in different units (rebase() really converts)
HIST_FAMILIES = [(["km", "m", "cm"], "s"), (["h", "s"], "kg"), (["kg", "g"], "s"), (["J", "erg", "eV"], "s"),
                 (["N", "dyn"], "s")]         # (units of one dimension, a unit of a foreign dimension)
HIST_PLAIN = [("km", [("km", 1)], ["km", "m", "cm"]), ("J", [("J", 1)], ["J", "erg", "eV"]),
              ("km/h", [("km", 1), ("h", -1)], None)]          # rebase() is the identity here
HIST_XS = [2.5, [4.0, 1.0, -2.5]]
HIST_DEPTH = dict(quick=3, thorough=4)
_HIST = None


def _hist_starts():
    """[(start operand, [target operands])]: a*b, a2/b, a*b/F for every ordered pair a != b of a family, a*b*c for
    every order of a three-unit family, and three plain units; targets = every family member to the total exponent
    (with the foreign factor kept) + the start expression itself"""
    global _HIST
    if _HIST is not None:
        return _HIST
    out = []
    et = units_ref.exp_text

    def entry(text, terms, fam, e, foreign=None):
        tg = []
        for m in fam:
            tt = [(m, e)] + ([(foreign, -1)] if foreign else [])
            tg.append(U(m + et(e) + ("/" + foreign if foreign else ""), tt))
        start = U(text, terms)
        out.append((start, tg + [start]))
    for fam, foreign in HIST_FAMILIES:
        for a in fam:
            for b in fam:
                if a == b:
                    continue
                entry(a + "*" + b, [(a, 1), (b, 1)], fam, 2)
                entry(a + "2/" + b, [(a, 2), (b, -1)], fam, 1)
                entry(a + "*" + b + "/" + foreign, [(a, 1), (b, 1), (foreign, -1)], fam, 2, foreign)
        if len(fam) == 3:
            for a in fam:
                for b in fam:
                    for c in fam:
                        if len({a, b, c}) == 3:
                            entry(a + "*" + b + "*" + c, [(a, 1), (b, 1), (c, 1)], fam, 3)
    for text, terms, fam in HIST_PLAIN:
        if fam is None:
            start = U(text, terms)
            out.append((start, [U("m/s", [("m", 1), ("s", -1)]), U("cm/h", [("cm", 1), ("h", -1)]), start]))
        else:
            out.append((U(text, terms), [U(m) for m in fam]))
    _HIST = out
    return out


def _hist_ops(ntargets):
    return [["value", i] for i in range(ntargets)] + [["to", i] for i in range(ntargets)] + [["rebase"]]


def _hist_sequences(ntargets, depth):
    """every sequence of exactly depth steps (the oracle is applied after every step, so every shorter history is
    checked as a prefix; a failure is reported with the history cut after the failing step)"""
    import itertools
    ops = _hist_ops(ntargets)
    for h in itertools.product(ops, repeat=depth):
        yield list(h)


# two quantities of common origin
SHARED_X = [4.0, 1.0, -2.5, 0.5]
SHARED_BUILDS = [["select", ["slice", 1, 3, None]], ["select", ["slice", None, None, None]],
                 ["select", ["slice", None, 1, None]], ["select", ["slice", None, None, 2]],
                 ["select", ["slice", None, None, -1]], ["select", ["ellipsis"]], ["select", ["int", 1]],
                 ["select", ["index", [0, 2]]], ["select", ["mask", [True, False, True, True]]],
                 ["array-baseunits"], ["array-one-baseunits"], ["array-string"], ["rebuilt"]]


def _shared_triples():
    """[(u, w, v)]: u != w inside a small group (actor u -> w), v every member of the group (witness u -> v);
    s/kHz: the reciprocal rule"""
    out = []
    for g in DTYPE_GROUPS + [list(DTYPE_RECIPROCAL[0])]:
        for a in g:
            for b in g:
                if a != b:
                    out += [(U(a), U(b), U(c)) for c in g]
    return out


# exponents written unreduced / combining to an integer
BASE_SYMBOLS = ["m", "g", "s", "K", "C", "cd", "mol", "rad"]       # table symbols of the 8 base dimensions, in order
ROOT_FORMS = ["np.sqrt", "pow-0.5", "pow-(1,2)", "np.power-0.5"]
ROOT_XS = [4.0, [4.0, 2.25]]


def _unreduced_units():
    """[(S, R, fractional)]: every prefix-less linear table symbol with a fractional dimension + the first spelling
    of every other dimension group (not dimensionless); R = another spelling of the dimension (S if it is alone)"""
    gd = dict(_GROUPS)
    picked, out = set(), []

    def add(name, fractional):
        if name in picked:
            return
        picked.add(name)
        sp = _REF.spellings[name]
        others = [n for n in gd[sp.dims] if n != name]
        plain = [n for n in others if not _REF.spellings[n].system]
        out.append((name, (plain or others or [name])[0], fractional))
    for name in _REF.linear_spellings():
        sp = _REF.spellings[name]
        if sp.prefix is None and any(F(c).denominator != 1 for c in sp.dims):
            add(name, True)
    for d, names in _GROUPS:
        if any(c != 0 for c in d):
            add(names[0], any(F(c).denominator != 1 for c in d))
    return out


def _base_expansion(name, power):
    """unit operand: the dimension vector of the table unit, to the given power, written in base-unit symbols"""
    terms = [(b, F(c) * power) for b, c in zip(BASE_SYMBOLS, _REF.spellings[name].dims) if c != 0]
    return U("*".join(b + units_ref.exp_text(e) for b, e in terms), terms)


def _unreduced_pairs(S, R, fractional):
    """[(u, v)] string-route pairs of one unit (each is run in both directions)"""
    out = [(U(S + "2:2", [(S, 1)]), U(R)),
           (U(S + "6:2", [(S, 3)]), _pow(R, F(3))),
           (U(S + "1:2*" + S + "1:2", [(S, F(1, 2)), (S, F(1, 2))]), U(R)),
           (U(S + "3:2*" + S + "1:2", [(S, F(3, 2)), (S, F(1, 2))]), _pow(R, F(2)))]
    if fractional:
        out += [(U(S), _base_expansion(S, 1)), (_pow(S, F(2)), _base_expansion(S, 2))]
    return out


def _rooted(Quantity, form, x, S):
    q = Quantity(_scalar_or_array(x), S + "2")
    if form == "np.sqrt":
        return np.sqrt(q)
    if form == "pow-0.5":
        return q ** 0.5
    if form == "pow-(1,2)":
        return q ** (1, 2)
    if form == "np.power-0.5":
        return np.power(q, 0.5)
    raise HarnessError("unknown root form " + form)


def check_rooted(case):
    """sub 'rooted': q = root(Quantity(x, S2)) by one of ROOT_FORMS.  Whatever value y and units t the result reports
    (t must read as a unit of the dimension of S, otherwise the case is left to C06 and returns 'skipped'), it is a
    quantity of the dimension of S: value(v) and to(v) must give y*f(t)/f(v) for v in case['vs'], and to(t) back y."""
    Quantity = _lib()
    S, form, x = case["s"], case["form"], case["x"]
    tags = ["root-of-squared-unit", "root:" + form, "array" if isinstance(x, list) else "scalar"] + \
        _utags(U(S), *case["vs"])
    o = outcome(lambda: _rooted(Quantity, form, x, S))
    if o[0] == "err":
        return "skipped"                       # the root itself is not this property
    q = o[1]
    st = outcome(lambda: (q.value(), q.units()))
    if st[0] == "err":
        return "skipped"
    ys = _vals(st[1][0])
    rd = _REF.split_expression(st[1][1]) if isinstance(st[1][1], str) else None
    if not rd or _REF.terms_dims(list(rd.items())) != _REF.spellings[S].dims \
            or not all(isinstance(y, (int, float, np.number)) and math.isfinite(y) for y in ys):
        return "skipped"
    t = U(st[1][1], list(rd.items()))
    for v in case["vs"]:
        exp = [_expected(float(y), t, v) for y in ys]
        c1 = dict(case, vs=[v])
        o = outcome(lambda: q.value(v["text"]))
        if o[0] == "err":
            return failure("rooted", c1, [e[0] for e in exp], dict(error=o[1], message=o[2], units=t["text"]),
                           tags=tags, behaviour="value:raises:" + o[1])
        if not _all_agree(o[1], exp):
            return failure("rooted", c1, [e[0] for e in exp], dict(value=[_num(g) for g in _vals(o[1])],
                                                                    units=t["text"]), tags=tags,
                           behaviour="value:wrong-value")
        o = outcome(lambda: _rooted(Quantity, form, x, S).to(v["text"]))
        if o[0] == "err":
            return failure("rooted", c1, [e[0] for e in exp], dict(error=o[1], message=o[2], units=t["text"]),
                           tags=tags, behaviour="to:raises:" + o[1])
        q2 = o[1]
        o = outcome(lambda: (q2.value(), q2.units()))
        if o[0] == "err" or not _all_agree(o[1][0], exp):
            return failure("rooted", c1, [e[0] for e in exp],
                           dict(error=o[1], message=o[2]) if o[0] == "err" else
                           dict(value=[_num(g) for g in _vals(o[1][0])], units=o[1][1]), tags=tags,
                           behaviour="to:wrong-value")
        if not _means(o[1][1], v):
            return failure("rooted", c1, v["text"], o[1][1], tags=tags, behaviour="to:units-not-target")
        o = outcome(lambda: q2.to(t["text"]).value())
        if o[0] == "err" or not _all_agree(o[1], [(float(y), False) for y in ys]):
            return failure("rooted", c1, [float(y) for y in ys],
                           dict(error=o[1], message=o[2]) if o[0] == "err" else [_num(g) for g in _vals(o[1])],
                           tags=tags, behaviour="back:" + ("raises:" + o[1] if o[0] == "err" else "wrong-value"))
    return None


# ----------------------------------------------------------------------------------------------- engine
def _table_failure(case, exp, obs):
    return failure("table", case, exp, obs, tags=["table:" + case["table"], "column:" + case["column"]],
                   behaviour="malformed-row")


def _fixed_alphabet_missing():
    need = [a for a, _ in _LEAVES] + [g[0] for g in GBU] + [t for g in GBU for t, _ in g[1]] \
        + [t for _, terms in _RAD_ONLY for t, _ in terms] + [a for p in DTYPE_GROUPS for a in p] \
        + [a for fam, fo in HIST_FAMILIES for a in fam + [fo]] + [a for p in DTYPE_RECIPROCAL for a in p] \
        + BASE_SYMBOLS
    return sorted(set(n for n in need if n not in _REF.spellings))


def plan(tier, seed):
    init_worker()
    if _fixed_alphabet_missing():
        return [("table",)]
    shards = [("table",)]
    for gi, (d, names) in enumerate(_GROUPS):
        for ui in range(len(names)):
            if len(names) >= 20:
                shards.append(("pair", gi, ui, ui + 1))
            elif ui % 8 == 0:
                shards.append(("pair", gi, ui, min(ui + 8, len(names))))
    wins = [seed % NWIN] if tier == "quick" else list(range(NWIN))
    for gi, (d, names) in enumerate(_GROUPS):
        if len(names) < 2:
            continue
        step = 1 if len(names) >= 20 else 8
        for ui in range(0, len(names), step):
            shards.append(("triple", gi, ui, min(ui + step, len(names)), tuple(wins)))
    cg = _compound_groups()
    for gi, (d, ops) in enumerate(cg):
        step = 8 if len(ops) >= 24 else len(ops)
        for ui in range(0, len(ops), step):
            shards.append(("compound", gi, ui, min(ui + step, len(ops)), tuple(wins)))
    shards.append(("gbu",))
    for k in range(16):
        shards.append(("reciprocal", k, 16))
    for k in range(16):
        shards.append(("refuse", k, 16))
    shards.append(("number-to-rad",))
    for k in range(8):
        shards.append(("power", k, 8))
    shards.append(("nounit",))
    for k in range(8):
        shards.append(("unreduced", k, 8))
    for k in range(8):
        shards.append(("uncertainty", k, 8))
    for gi in range(len(DTYPE_GROUPS) + 1):
        shards.append(("dtype", gi))
    nh = len(_hist_starts())
    hstep = 4 if tier == "quick" else 1
    for lo in range(0, nh, hstep):
        shards.append(("history", lo, min(lo + hstep, nh), HIST_DEPTH[tier]))
    for k in range(4):
        shards.append(("shared", k, 4))
    order = {"history": -1 if tier != "quick" else 0, "shared": 0, "table": 0, "dtype": 0, "nounit": 0, "uncertainty": 0, "refuse": 0, "number-to-rad": 0, "gbu": 0, "power": 0, "unreduced": 0, "reciprocal": 1, "pair": 2, "compound": 3,
             "triple": 4}
    shards.sort(key=lambda s: order[s[0]])
    return shards


def _guard(sh):
    d = isolation.tables_restore()
    if d:
        sh.count("unit-tables-restored")
        sh.add_extra("table_leaks", [str(d)[:200]])


def _conv_cases(sh, sub, u, v, xs, arr, reciprocal=False, tags=(), nontrivial=True):
    """run one (u, v) combination for all magnitudes; counts one distinct case"""
    bad = None
    for i, x in enumerate(list(xs) + [list(arr)]):
        c = dict(sub=sub, u=u, v=v, x=x, reciprocal=reciprocal, tags=list(tags))
        if x == 2.5:
            c["objtargets"] = True         # one magnitude per (u, v): also targets given as Quantity / BaseUnits objects
        r = check_convert(c)
        sh.evaluations += 1
        if r is not None and bad is None:
            bad = r
    if nontrivial:
        sh.nontrivial += 1
    sh.count(sub + (":identity" if not nontrivial else ":converted"))
    if bad is not None:
        sh.fail(bad)
    if sh.evaluations % 4000 < len(xs) + 1:
        _guard(sh)


def run_shard(desc):
    sh = Shard(PROPERTY)
    kind = desc[0]
    if kind == "table":
        # a malformed table row is never adopted as specification (units_ref leaves it out): report it
        sh.evaluations += _REF.rows_validated
        sh.count("table:rows-validated", _REF.rows_validated)
        for case, exp, obs in _REF.schema_cases():
            sh.nontrivial += 1
            sh.fail(_table_failure(case, exp, obs))
        if _fixed_alphabet_missing():
            sh.count("table:fixed-alphabet-unavailable")
            sh.add_extra("fixed_alphabet_missing", _fixed_alphabet_missing())
    elif kind == "pair":
        _, gi, lo, hi = desc
        names = _GROUPS[gi][1]
        for a in names[lo:hi]:
            for b in names:
                tags = ["same-dimension"] + (["identity"] if a == b else [])
                _conv_cases(sh, "pair", U(a), U(b), XS, ARRAY, tags=tags, nontrivial=(a != b))
        if lo == 0:
            sh.sample(dict(sub="pair", u=names[0], v=names[-1], xs=XS), limit=1)
    elif kind == "compound":
        _, gi, lo, hi, wins = desc
        ops = _compound_groups()[gi][1]
        for ui in range(lo, hi):
            if ui % NWIN not in wins:
                continue                      # quick: the source expressions of the seed window, thorough: all
            u = ops[ui]
            for v in ops:
                if u["text"] == v["text"]:
                    continue
                _conv_cases(sh, "compound", u, v, [2.5], ARRAY, tags=["compound-expression"])
        if lo == 0:
            sh.sample(dict(sub="compound", u=ops[wins[0] % len(ops)]["text"], v=ops[-1]["text"]), limit=1)
        for w in wins:
            sh.add_to_set("compound_windows", w)
    elif kind == "gbu":
        for sym, terms, text in GBU:
            a, b = U(sym), U(text, terms)
            if _REF.terms_dims(_terms(a)) != _REF.terms_dims(_terms(b)):
                raise HarnessError("GBU derivation of %s has other dimensions than the table row" % sym)
            _conv_cases(sh, "compound", a, b, XS, ARRAY, tags=["fractional-exponents"])
            _conv_cases(sh, "compound", b, a, XS, ARRAY, tags=["fractional-exponents"])
    elif kind == "reciprocal":
        pairs = _reciprocal_pairs()
        for n, (u, v) in enumerate(pairs[desc[1]::desc[2]]):
            _conv_cases(sh, "reciprocal", u, v, [x for x in XS if x != 0], RARRAY, reciprocal=True,
                        tags=["reciprocal-dimension"])
            if n == 5 and desc[1] == 0:
                sh.sample(dict(sub="reciprocal", u=u["text"], v=v["text"], xs=[x for x in XS if x != 0]), limit=1)
    elif kind == "power":
        for n, (S, R, e) in enumerate(_power_cases()[desc[1]::desc[2]]):
            tags = ["unit-power", "fractional-exponent" if e.denominator != 1 else "integer-exponent"]
            u, v = _pow(S, e), _pow(R, e)
            _conv_cases(sh, "power", u, v, XS, ARRAY, tags=tags, nontrivial=(S != R))
            if S != R:
                _conv_cases(sh, "power", v, u, XS, ARRAY, tags=tags)
                for x in TRIPLE_XS:
                    r, k = check_triple(dict(sub="triple", u=u, w=v, vs=[u, v], x=x, tags=tags), {})
                    sh.evaluations += k
                    sh.count("triple", 2)
                    if r is not None:
                        sh.fail(r)
            if any(c != 0 for c in _REF.spellings[S].dims):
                for e2 in POWER_NEIGHBOURS[e]:
                    for a, b in ((u, _pow(R, e2)), (_pow(R, e2), u)):
                        bad = None
                        for x in (2.5, [1.0, -2.5]):
                            r = check_refuse(dict(sub="refuse", u=a, v=b, x=x, tags=tags))
                            sh.evaluations += 1
                            if r is not None and bad is None:
                                bad = r
                        sh.nontrivial += 1
                        sh.count("refuse:unit-power")
                        if bad is not None:
                            sh.fail(bad)
            if n == 2 and desc[1] == 0:
                sh.sample(dict(sub="power", u=u["text"], v=v["text"], xs=XS), limit=1)
    elif kind == "unreduced":
        for n, (S, R, fractional) in enumerate(_unreduced_units()[desc[1]::desc[2]]):
            tags = ["unreduced-exponent"] + (["fractional-dimension-unit"] if fractional else [])
            for u, v in _unreduced_pairs(S, R, fractional):
                if _REF.terms_dims(_terms(u)) != _REF.terms_dims(_terms(v)):
                    raise HarnessError("unreduced pair of different dimension: %s %s" % (u["text"], v["text"]))
                _conv_cases(sh, "unreduced", u, v, XS, ARRAY, tags=tags)
                _conv_cases(sh, "unreduced", v, u, XS, ARRAY, tags=tags)
            vs = [U(R)] + ([U(S)] if R != S else [])
            for form in ROOT_FORMS:
                bad, done = None, False
                for x in ROOT_XS:
                    r = check_rooted(dict(sub="rooted", s=S, form=form, x=x, vs=vs))
                    sh.evaluations += 1
                    if r == "skipped":
                        continue
                    done = True
                    if r is not None and bad is None:
                        bad = r
                if done:
                    sh.nontrivial += 1
                sh.count("rooted:converted" if done else "rooted:root-not-available")
                if bad is not None:
                    sh.fail(bad)
            if n == 0 and desc[1] == 0:
                sh.sample(dict(sub="unreduced", u=S + "1:2*" + S + "1:2", v=R, xs=XS), limit=1)
                sh.sample(dict(sub="rooted", s=S, form=ROOT_FORMS[0], vs=[R], xs=ROOT_XS), limit=1)
    elif kind == "uncertainty":
        pairs = [(a, b, True) for a, b in _reciprocal_pairs()]
        pairs += [(U(a), U(b), False) for g in DTYPE_GROUPS for a in g for b in g]
        for n, (a, b, rec) in enumerate(pairs[desc[1]::desc[2]]):
            bad = None
            for x in UNC_XS:
                for kw in UNC_KW:
                    r = check_uncertainty(dict(sub="uncertainty", u=a, v=b, x=x, kw=kw, reciprocal=rec))
                    sh.evaluations += 1
                    if r is not None and bad is None:
                        bad = r
            sh.nontrivial += 1
            sh.count("uncertainty:reciprocal" if rec else "uncertainty:linear")
            if bad is not None:
                sh.fail(bad)
            if n == 1 and desc[1] == 0:
                sh.sample(dict(sub="uncertainty", u=a["text"], v=b["text"], xs=UNC_XS, kw=UNC_KW), limit=1)
    elif kind == "nounit":
        zero = tuple([F(0)] * 8)
        for name in dict(_GROUPS).get(zero, []):
            bad = None
            for x in XS + [ARRAY]:
                r = check_nounit(dict(sub="nounit", u=U(name), x=x))
                sh.evaluations += 1
                if r is not None and bad is None:
                    bad = r
            sh.nontrivial += 1
            sh.count("nounit:converted")
            if bad is not None:
                sh.fail(bad)
        sh.sample(dict(sub="nounit", u="%", v="BaseUnits()", xs=XS), limit=1)
    elif kind == "dtype":
        gi = desc[1]
        if gi < len(DTYPE_GROUPS):
            pairs = [(a, b, False) for a in DTYPE_GROUPS[gi] for b in DTYPE_GROUPS[gi]]
        else:
            pairs = [(a, b, True) for a, b in DTYPE_RECIPROCAL]
        for a, b, rec in pairs:
            for form, sets in DTYPE_FORMS.items():
                for xs in sets:
                    if rec:
                        xs = [x for x in xs if x != 0]
                    r = check_dtype(dict(sub="dtype", u=U(a), v=U(b), form=form, xs=xs, reciprocal=rec))
                    sh.evaluations += 1
                    sh.nontrivial += 1
                    sh.count("dtype:" + form.split(":")[-1])
                    if r is not None:
                        sh.fail(r)
        if gi == 0:
            sh.sample(dict(sub="dtype", u="Tm", v="mm", form="array:float32", xs=DTYPE_FORMS["array:float32"][1]), limit=1)
    elif kind == "history":
        _, lo, hi, depth = desc
        for start, targets in _hist_starts()[lo:hi]:
            for ops in _hist_sequences(len(targets), depth):
                bad = None
                for x in HIST_XS:
                    r = check_history(dict(sub="history", u=start, targets=targets, ops=ops, x=x))
                    sh.evaluations += 1
                    if r is not None and bad is None:
                        bad = r
                sh.nontrivial += 1
                sh.count("history:len%d" % len(ops))
                kinds = set(o[0] for o in ops)
                if "rebase" in kinds and "value" in kinds:
                    sh.count("history:query+rebase")
                if "to" in kinds and "value" in kinds:
                    sh.count("history:query+to")
                if bad is not None:
                    sh.fail(bad)
            _guard(sh)
        sh.max_depth = max(sh.max_depth, depth)
        if lo == 0:
            st, tg = _hist_starts()[0]
            sh.sample(dict(sub="history", u=st["text"], targets=[t["text"] for t in tg],
                           ops=[["value", 2], ["rebase"], ["value", 2]], xs=HIST_XS), limit=1)
    elif kind == "shared":
        for n, (u, w, v) in enumerate(_shared_triples()[desc[1]::desc[2]]):
            for build in SHARED_BUILDS:
                for actor in (0, 1):
                    r = check_shared(dict(sub="shared", u=u, w=w, v=v, x=SHARED_X, build=build, actor=actor))
                    sh.evaluations += 1
                    sh.nontrivial += 1
                    sh.count("shared:" + build[0])
                    if r is not None:
                        sh.fail(r)
            if n == 0 and desc[1] == 0:
                sh.sample(dict(sub="shared", u=u["text"], w=w["text"], v=v["text"], build=SHARED_BUILDS[0], actor=1,
                               x=SHARED_X), limit=1)
    elif kind == "number-to-rad":
        for x in XS + [ARRAY]:
            r = check_number_to_rad(dict(sub="number-to-rad", x=x))
            sh.evaluations += 1
            sh.nontrivial += 1
            sh.count("number-to-rad")
            if r is not None:
                sh.fail(r)
    elif kind == "refuse":
        pairs = _refusal_pairs()
        for n, (u, v, tags) in enumerate(pairs[desc[1]::desc[2]]):
            bad = None
            for x in (1.0, 2.5, [1.0, -2.5]):
                r = check_refuse(dict(sub="refuse", u=u, v=v, x=x, tags=tags))
                sh.evaluations += 1
                if r is not None and bad is None:
                    bad = r
            sh.nontrivial += 1
            sh.count("refuse" + (":differs-only-in-rad" if "differs-only-in-rad" in tags else "")
                     + (":bare-number" if u is None else "") + (":no-unit-target" if v["text"] is None else ""))
            if bad is not None:
                sh.fail(bad)
            if n == 3 and desc[1] in (0, 7):
                sh.sample(dict(sub="refuse", u=None if u is None else u["text"], v=v["text"] or "BaseUnits()"), limit=1)
    elif kind == "triple":
        _, gi, lo, hi, wins = desc
        names = _GROUPS[gi][1]
        vs = [U(n) for n in names]
        for a in names[lo:hi]:
            for x in TRIPLE_XS:
                direct = {}
                for wi, w in enumerate(names):
                    if wi % NWIN not in wins:
                        continue
                    r, n = check_triple(dict(sub="triple", u=U(a), w=U(w), vs=vs, x=x,
                                             tags=["same-dimension"]), direct)
                    sh.evaluations += n
                    if x == TRIPLE_XS[0]:
                        sh.nontrivial += len(vs) - (1 if w == a else 0)      # u == w == v is the identity
                    sh.count("triple", len(vs))
                    if r is not None:
                        sh.fail(r)
            _guard(sh)
        for w in wins:
            sh.add_to_set("windows", w)
        if lo == 0 and gi < 2:
            sh.sample(dict(sub="triple", u=names[0], w=names[wins[0] % len(names)], v=names[-1], xs=TRIPLE_XS), limit=1)
    else:
        raise HarnessError("unknown shard %r" % (desc,))
    _guard(sh)
    return sh


def replay(rec):
    init_worker()
    isolation.tables_restore()
    c = rec["case"]
    sub = c["sub"]
    if sub == "table":
        got = units_ref.UnitsRef.replay_schema_case(c)
        r = None if got is None else _table_failure(c, got[0], got[1])
    elif sub in ("pair", "compound", "reciprocal", "power", "unreduced"):
        r = check_convert(c)
    elif sub == "rooted":
        r = check_rooted(c)
        r = None if r == "skipped" else r
    elif sub == "number-to-rad":
        r = check_number_to_rad(c)
    elif sub == "nounit":
        r = check_nounit(c)
    elif sub == "uncertainty":
        r = check_uncertainty(c)
    elif sub == "dtype":
        r = check_dtype(c)
    elif sub == "refuse":
        r = check_refuse(c)
    elif sub == "history":
        r = check_history(c)
    elif sub == "shared":
        r = check_shared(c)
    elif sub == "triple":
        r, _ = check_triple(c, None)
    else:
        raise HarnessError("unknown sub-check " + sub)
    isolation.tables_restore()
    return r


def finish(total, tier, seed):
    h = total.hist
    if h.get("table:fixed-alphabet-unavailable"):
        return dict(caps_hit=["only the table schema was checked: fixed alphabet unavailable"], exhaustive=False)
    if h.get("table:rows-validated", 0) < 200:
        raise HarnessError("table schema not validated: %r" % (h,))
    need = {"pair:converted": 10000, "pair:identity": 500, "triple": 10000, "compound:converted": 5000,
            "reciprocal:converted": 1000, "refuse": 1000, "refuse:differs-only-in-rad": 4, "refuse:bare-number": 20,
            "number-to-rad": 8, "power:converted": 500, "refuse:unit-power": 500,
            "refuse:no-unit-target": 50, "nounit:converted": 4, "dtype:float32": 50, "dtype:float16": 50,
            "dtype:int64": 50, "dtype:list": 40, "uncertainty:reciprocal": 1000, "uncertainty:linear": 40,
            "history:len%d" % HIST_DEPTH.get(tier, 3): 40000, "history:query+rebase": 9000, "history:query+to": 25000,
            "shared:select": 2000, "shared:array-baseunits": 200, "shared:array-one-baseunits": 200,
            "shared:array-string": 200, "shared:rebuilt": 200, "unreduced:converted": 500, "rooted:converted": 200}
    for k, n in need.items():
        if h.get(k, 0) < n:
            raise HarnessError("vacuous sub-space %s: %r" % (k, h))
    return dict(
        linear_spellings=sum(len(n) for _, n in _GROUPS), dimension_groups=len(_GROUPS),
        largest_groups=[[n[0], len(n)] for _, n in _GROUPS[:6]],
        ordered_pairs_same_dimension=sum(len(n) ** 2 for _, n in _GROUPS),
        triples_total=sum(len(n) ** 3 for _, n in _GROUPS if len(n) > 1),
        triple_windows_total=NWIN, triple_windows_explored=sorted(total.sets.get("windows", [])),
        compound_windows_total=NWIN, compound_windows_explored=sorted(total.sets.get("compound_windows", [])),
        compound_expressions=sum(len(o) for _, o in _compound_groups()), compound_groups=len(_compound_groups()),
        reciprocal_pairs=len(_reciprocal_pairs()), refusal_representatives=len(_refusal_reps()),
        refusal_pairs=len(_refusal_pairs()), power_cases=len(_power_cases()),
        powers=[units_ref.exp_text(e) for e in POWERS], input_forms=sorted(DTYPE_FORMS),
        dtype_groups=DTYPE_GROUPS + [list(p) for p in DTYPE_RECIPROCAL], table_rows_validated=_REF.rows_validated,
        magnitudes=XS, array=ARRAY, triple_magnitudes=TRIPLE_XS, relative_tolerance=RTOL, caps_hit=[],
        history_start_expressions=len(_hist_starts()), history_depth=HIST_DEPTH.get(tier, 3),
        history_steps="value(t) | to(t) | rebase(), t in family units to the total exponent + the start expression",
        histories=h.get("history:len%d" % HIST_DEPTH.get(tier, 3), 0),
        histories_query_and_rebase=h.get("history:query+rebase", 0), histories_query_and_to=h.get("history:query+to", 0),
        history_magnitudes=HIST_XS,
        shared_origin_constructions=[b[0] + (":" + b[1][0] if len(b) > 1 else "") for b in SHARED_BUILDS],
        shared_origin_unit_triples=len(_shared_triples()),
        shared_origin_cases=sum(v for k, v in h.items() if k.startswith("shared:")),
        unreduced_exponent_units=len(_unreduced_units()),
        unreduced_exponent_fractional_dimension_units=sum(1 for u in _unreduced_units() if u[2]),
        unreduced_exponent_forms=["S2:2<->R", "S6:2<->R3", "S1:2*S1:2<->R", "S3:2*S1:2<->R2",
                                  "S<->base expansion, S2<->base expansion (fractional-dimension units)"],
        unreduced_exponent_pairs=h.get("unreduced:converted", 0),
        root_forms=ROOT_FORMS, root_magnitudes=ROOT_XS, rooted_cases=h.get("rooted:converted", 0),
        rooted_root_not_available=h.get("rooted:root-not-available", 0),
    )


MANIFEST = dict(
    text="Complete enumeration on the real Quantity.value()/to(): all 25 070 ordered pairs of the 812 linear spellings "
         "(table units and system units x admissible prefixes) sharing a dimension x 7 magnitudes (0, +-1, 2.5, "
         "-3.7e-7, 1e+-200) + one array, out-of-place, in-place and back; all 978 254 triples u->w->v x 2 magnitudes "
         "(quick: one quarter of the intermediates, chosen by the seed); 110 000 pairs of compound expressions (quick: "
         "one quarter of the sources) and the Gaussian fractional-exponent units against their definitions; every linear table symbol incl. "
         "system-of-quantities units to the powers 1:2, -3:2, 2 (convert, via intermediate, refuse neighbouring "
         "exponents); all pairs of exactly reciprocal dimension; bare "
         "number -> rad; 15 467 ordered pairs of 126 representatives of different dimension (incl. pairs that differ only "
         "in the rad exponent) must be refused by value() and to() (string, BaseUnits and Quantity targets, incl. the empty "
         "BaseUnits() target) and leave value and units untouched; dimensionless spellings -> empty BaseUnits() target; "
         "44 pairs x 10 input forms (float64/32/16, int64/32 arrays, list, numpy scalars) x edge magnitudes; "
         "histories on ONE live quantity: every sequence of 3 (thorough: 4) steps out of value(t) / in-place to(t) / "
         "rebase() from 69 start expressions that repeat a dimension in different units (a*b, a2/b, a*b/F, a*b*c over "
         "km m cm | h s | kg g | J erg eV | N dyn, plus km, J, km/h), 42 195 histories (thorough 365 349) x scalar and "
         "array, value, units and every value(t) compared after every step; two quantities of common origin (9 "
         "slicings/selections of an array quantity, one caller-owned ndarray given to two quantities, a quantity "
         "rebuilt from value() and the units object of another): either one converted in place, the other must still "
         "report and convert its own x in u (3 380 cases); exponents written unreduced or "
         "combining to an integer (S2:2, S6:2, S1:2*S1:2, S3:2*S1:2 against R, R3, R, R2 in both directions, and every "
         "fractional-dimension table unit and its square against its expansion in base units) for the 14 table units "
         "with fractional dimensions + one spelling of each of the other 56 dimension groups (616 ordered pairs x 7 "
         "magnitudes + array), and the result of np.sqrt / **0.5 / **(1,2) / np.power(.,0.5) of Quantity(x, S2) "
         "converted to R, S and back (280 unit x operator cases); table "
         "schema validated. Oracle: "
         "x*f(u)/f(v) in exact rational arithmetic over the published tables, rel 1e-12.",
    note="Float magnitudes are covered by 7 boundary representatives only; compound expressions have <= 3 terms over "
         "17 leaves; refusal uses <= 2 representatives per dimension group; histories are bounded by the stated depth and "
         "the 69 start expressions, shared-origin cases by one in-place conversion per object over 5 small unit groups "
         "(further operand-immutability checks: C07). Logarithmic and offset units belong to C05. "
         "Trusted: the magnitude/dimension columns of the tables, Python Fraction arithmetic.",
    technique="exhaustive pair/triple enumeration over the unit tables, bounded call histories on one object, Fraction reference model, refusal + state-unchanged invariant",
)
