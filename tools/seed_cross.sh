#!/bin/bash
# usage: tools/seed_cross.sh <seed-id> <Cyy> [tier]  -> runs the check of ANOTHER property against the stored seed; prints result only
id=$1; prop=$2; tier=${3:-quick}
d=/dev/shm/cross-$$-$RANDOM; mkdir -p $d
rsync -a --exclude .git /repo/ $d/repo/
if ! (cd $d/repo && patch -p1 -s < /verif/seeded/$id/patch.diff); then echo "CROSS $id PATCH-FAILED"; rm -rf $d; exit 2; fi
res=$(cd /verif && VERIF_REPO=$d/repo VERIF_EVIDENCE_DIR=$d/evidence VERIF_REPLAY_DIR=$d/replays ./run $prop --tier $tier --workers ${WORKERS:-8} 2>&1 | grep -v conda)
viol=$(echo "$res" | grep -c '^VIOLATION')
first=$(echo "$res" | grep -B1 '^VIOLATION' | head -1 | cut -c1-300)
echo "CROSS $id by=$prop violations=$viol harness=$(echo "$res" | grep -c HARNESS) :: $first"
rm -rf $d
