"""C07 - operations on quantities never alter their operands.

E1 explicit-state exploration on live Quantity objects.  A *state* is a pool of objects: the 2-3 operands a pool
starts with plus every Quantity produced so far.  A *transition* applies one operation of the alphabet to objects of
the pool: a pure operation (operator, comparison, NumPy function, value-in-other-unit query; a Quantity result joins
the pool) or an in-place method (to, rebase, abse, rele) on one object.  Every history is executed from freshly
constructed operands (no copying of library objects), every step is checked:

  * after a pure operation every object that existed before reports the identical value(), units() and abse();
  * after an in-place method on object k every object other than k reports the identical value(), units(), abse()
    (so converting a result never moves an operand, and converting an operand never moves a result).

Breadth first: all histories of length 1, then 2 (the complete alphabet at both levels), thorough adds a third level
with the probing alphabet (every in-place method and value query on every object, == and + on every ordered pair).
A state is identified by the canonical form of everything later operations read: per object value/units/uncertainty
(bits), the unit-exponent table, the Python types of the stored numbers, and the sharing pattern of the Magnitude /
BaseUnits / exponent-dict / array objects inside the pool.  A history that violates the invariant is reported and not
extended (so reported histories are minimal); a history whose last step leads to an already known state of the same
shard is not extended either.

Augmented assignments (x = a; x op= b with +=, *= on quantities and +=, -=, *=, /=, **= with a plain number) are pure
operations of the alphabet: the name x is rebound to the result while the pool keeps the old object as an alias, which
must be unchanged.  In addition every run executes, per pool, the differential histories P, S, P (P a value query or
+, -, *, /, == on the initial operands, S an in-place method on one of them): the second P must give exactly what P
gives on fresh operands after S alone, so a result remembered from the first P (a conversion cache keyed on object
identity) cannot survive an in-place change of the operand.

Not demanded (left out on purpose)
  * *structural* sharing that no in-place method of the statement can make visible (a result holding the same
    BaseUnits object as its operand while nothing mutates it; NumPy buffers): the statement defines sharing by its
    effect ("converting the result afterwards does not change the operand, and vice versa"), the check does the same.
    The sharing pattern is part of the explored state and its frequency is reported in the evidence;
  * what an in-place method does to its own object (C04/C08), and whether results are numerically right (C06);
  * Quantity.to(<Quantity>) and direct writes into arrays handed out by value().
Cached read-outs are not trusted: units() and value() return strings/numbers computed when the unit object was
built, so an operation can rewrite the exponent table or another internal of an operand without these changing.  After
every step a fingerprint of EVERY attribute of each untouched object's Magnitude and BaseUnits is compared; when it
changed although value/units/uncertainty read the same, the object's *recomputed* reports (value(u) in the pool's
units; value/units/uncertainty of q*1, q*q, sqrt(q) and of q after rebase(), each on a private deep copy) are compared
with those of the same object in the same history without the last step; a difference is a violation (behaviour
value-query-answer-changed / derived-result-changed).
"Reporting the same value" includes the answers to value(<unit>): when an untouched object reports the same
value/units/uncertainty but the numbers a conversion reads from it changed (cheap structural fingerprint), its
value(u) answers for the pool's units are compared with those of the same object in the same history without the
last step; only a difference in the answers is a violation (behaviour value-query-answer-changed).
A float that comes back as decimal.Decimal counts as altered (the operand reports Decimal('2') instead of 2.0 and
float arithmetic on it starts to raise); float vs numpy.float64 with equal bits does not.
"""
import os
import copy
import operator
import struct
import hashlib
from decimal import Decimal

import numpy as np

from ..common import Shard, failure, HarnessError, case_timeout, CaseTimeout
from .. import isolation

PROPERTY = "C07"
LEVEL = "model_checking"
RULE = ("history = sequence of operations on a pool of live Quantity objects built fresh for every history; all "
        "histories of length 1 and 2 over the complete alphabet, thorough: length 3 with the probing alphabet at the "
        "last position, from every pool; a history is executed once (shards are disjoint by pool and first operation, "
        "extensions of violating or state-repeating histories are pruned); non-trivial = the last operation did not "
        "raise (it really computed or converted something)")
ASSUMPTIONS = [
    "observation = value(), units(), abse() compared bit-wise (arrays: dtype, shape, bytes; Decimal: its string); "
    "these three accessors are read-only (they return stored attributes)",
    "canonical state = observations + unit-exponent table + Python types of stored numbers + sharing pattern of the "
    "Magnitude/BaseUnits/dict/array objects in the pool: everything Quantity methods read from their operands",
    "operands are built through the public constructor for every history; nothing is deep-copied; computing the "
    "canonical state prints the unit exponents, which lets the library normalise its Fraction objects in place "
    "(value-preserving, the library does the same whenever it prints or converts a unit)",
    "sharing is judged by its effect through the in-place methods named in the statement, not structurally",
]

# ------------------------------------------------------------------------------------------------ pools
# object spec: (kind, value, unit, abse, rele)   kind: f float, d Decimal (string), a array (list)
POOLS = {
    "same_unit":     dict(objs=[("f", 2.0, "m", None, None), ("f", 3.0, "m", None, None)], units=["m", "cm", "cm2"]),
    "diff_unit":     dict(objs=[("f", 1.0, "m", None, None), ("f", 50.0, "cm", None, None)], units=["m", "cm", "cm2"]),
    "compound":      dict(objs=[("f", 3.0, "kg*m2/s2", None, None), ("f", 5.0, "erg", None, None)],
                          units=["J", "erg", "J2"]),
    "log_dB":        dict(objs=[("f", 3.0, "dB", None, None), ("f", 2.0, "dB", None, None)], units=["dB", "B", "AR"]),
    "log_dBm":       dict(objs=[("f", 23.0, "dBm", None, None), ("f", 20.0, "dBm", None, None)],
                          units=["dBm", "mW", "dBW"]),
    # documented fraction form of logarithmic units (level per Hz): conversion, + and - go through the special
    # two-unit path of LogarithmicUnitType
    "log_fraction":       dict(objs=[("f", 10.0, "dBmW/Hz", None, None), ("f", 13.0, "dBmW/Hz", None, None)],
                               units=["W/Hz", "dBmW/Hz", "mW/Hz"]),
    "log_fraction_mixed": dict(objs=[("f", 20.0, "dBm/Hz", None, None), ("f", 2.0, "BW/Hz", None, None)],
                               units=["W/Hz", "dBm/Hz", "dBW/Hz"]),
    "angle":         dict(objs=[("f", 30.0, "deg", None, None), ("f", 0.5, "rad", None, None)],
                          units=["rad", "deg", "mrad"]),
    "percent":       dict(objs=[("f", 50.0, "%", None, None), ("f", 0.25, None, None, None)], units=["%", "ppth", "rad"]),
    "plain":         dict(objs=[("f", 3.0, None, None, None), ("f", 0.5, None, None, None)], units=["rad", "%", "ppth"]),
    "decimal_left":  dict(objs=[("d", "1.5", "m", None, None), ("f", 2.0, "cm", None, None)], units=["m", "cm", "cm2"]),
    "decimal_right": dict(objs=[("f", 2.0, "m", None, None), ("d", "1.5", "cm", None, None)], units=["m", "cm", "cm2"]),
    "decimal_both":  dict(objs=[("d", "2.5", "m", None, None), ("d", "1.5", "cm", None, None)],
                          units=["m", "cm", "cm2"]),
    "array":         dict(objs=[("a", [1.0, 2.0, 3.0], "m", None, None), ("a", [10.0, 20.0, 30.0], "cm", None, None)],
                          units=["m", "cm", "cm2"]),
    # arrays mixing zero and non-zero elements (comparisons treat zeros specially)
    "array_zeros":   dict(objs=[("a", [0.0, 2.0, 3.0], "m", None, None), ("a", [10.0, 0.0, 30.0], "cm", None, None)],
                          units=["m", "cm", "cm2"]),
    "array_scalar":  dict(objs=[("a", [1.0, 2.0, 3.0], "m", None, None), ("f", 50.0, "cm", None, None)],
                          units=["m", "cm", "cm2"]),
    "uncertainty":   dict(objs=[("f", 1.0, "m", 0.1, None), ("f", 30.0, "cm", None, 10.0)], units=["m", "cm", "cm2"]),
    # arrays with one uncertainty per element; the partner is exact in the first pool (a+exact, a-exact hand the
    # uncertainty of a through) and carries a relative uncertainty in the second
    "array_uncertainty":      dict(objs=[("a", [1.0, 2.0, 3.0], "m", [0.1, 0.2, 0.4], None),
                                         ("a", [10.0, 20.0, 30.0], "cm", None, None)], units=["m", "cm", "cm2"]),
    "array_uncertainty_both": dict(objs=[("a", [1.0, 2.0, 3.0], "m", [0.1, 0.2, 0.4], None),
                                         ("a", [10.0, 20.0, 30.0], "cm", None, 10.0)], units=["m", "cm", "cm2"]),
    # unit expressions that repeat a dimension: rebase() really merges units and rescales here (everywhere else it is
    # a no-op), so the in-place rebase step on results / operands can show a shared unit object
    "repeated_dim":             dict(objs=[("f", 2.0, "m*cm", None, None), ("f", 3.0, "km*m", None, None)],
                                     units=["m2", "cm2", "m*cm"]),
    "repeated_dim_array":       dict(objs=[("a", [1.0, 2.0, 3.0], "m*cm", None, None),
                                           ("a", [10.0, 20.0, 30.0], "km*m", None, None)], units=["m2", "cm2", "km*m"]),
    "repeated_dim_uncertainty": dict(objs=[("f", 2.0, "cm*m*dm", 0.1, None), ("f", 5.0, "m*cm*dm", None, 10.0)],
                                     units=["m3", "cm3", "dm3"]),
    "temperature":   dict(objs=[("f", 20.0, "Cel", None, None), ("f", 300.0, "K", None, None)],
                          units=["K", "Cel", "degF"]),
    "three":         dict(objs=[("f", 2.0, "m", None, None), ("f", 50.0, "cm", None, None), ("f", 4.0, "s", None, None)],
                          units=["m", "cm", "s"]),
}
# twins: two separately constructed quantities that merely hold the same number in the same unit.  Everything the
# library remembers under a key made of values and units (instead of object identity) is shared by such twins; they
# are explored with the probing alphabet (in-place methods, value queries, == and +) at every level, one level deeper
# than the other pools, so "convert both the same way, then set an uncertainty on one" is a history of the space.
TWIN_POOLS = {
    "twin_scalar":      dict(objs=[("f", 5.0, "km", None, None), ("f", 5.0, "km", None, None)], units=["m", "km", "cm"]),
    "twin_uncertainty": dict(objs=[("f", 5.0, "km", 0.5, None), ("f", 5.0, "km", 0.5, None)], units=["m", "km", "cm"]),
    "twin_array":       dict(objs=[("a", [1.0, 2.0, 3.0], "m", None, None), ("a", [1.0, 2.0, 3.0], "m", None, None)],
                             units=["m", "cm", "km"]),
    "twin_temperature": dict(objs=[("f", 20.0, "Cel", None, None), ("f", 20.0, "Cel", None, None)],
                             units=["K", "Cel", "degF"]),
    "twin_level":       dict(objs=[("f", 23.0, "dBm", None, None), ("f", 23.0, "dBm", None, None)],
                             units=["dBm", "mW", "dBW"]),
}
# two quantities built from ONE caller-owned ndarray object (kind "s"): neither may use that storage as its own
TWIN_POOLS["twin_shared_ndarray"] = dict(objs=[("s", [1.0, 2.0, 3.0], "m", None, None),
                                               ("s", [1.0, 2.0, 3.0], "m", None, None)], units=["m", "cm", "km"])
POOLS.update(TWIN_POOLS)

FEATURES = {
    "twin_scalar": ["twins", "same-unit"], "twin_uncertainty": ["twins", "same-unit", "uncertainty"],
    "twin_array": ["twins", "same-unit", "array"], "twin_temperature": ["twins", "same-unit", "temperature"],
    "twin_level": ["twins", "same-unit", "logarithmic"],
    "twin_shared_ndarray": ["twins", "same-unit", "array", "shared-input-ndarray"],
    "same_unit": ["same-unit"], "diff_unit": ["different-unit"], "compound": ["different-unit", "compound-unit"],
    "log_dB": ["logarithmic"], "log_dBm": ["logarithmic"],
    "log_fraction": ["logarithmic", "fraction-form"], "log_fraction_mixed": ["logarithmic", "fraction-form", "different-unit"], "angle": ["angle", "different-unit"],
    "percent": ["dimensionless-unit"], "plain": ["no-unit"], "decimal_left": ["decimal", "different-unit"],
    "decimal_right": ["decimal", "different-unit"], "decimal_both": ["decimal", "different-unit"],
    "array": ["array", "different-unit"], "array_zeros": ["array", "zero-elements", "different-unit"], "array_scalar": ["array", "different-unit"],
    "uncertainty": ["uncertainty", "different-unit"],
    "array_uncertainty": ["array", "uncertainty", "different-unit"],
    "array_uncertainty_both": ["array", "uncertainty", "different-unit"],
    "repeated_dim": ["repeated-dimension", "different-unit"],
    "repeated_dim_array": ["repeated-dimension", "array", "different-unit"],
    "repeated_dim_uncertainty": ["repeated-dimension", "uncertainty", "different-unit"], "temperature": ["temperature", "different-unit"],
    "three": ["different-unit", "three-operands"],
}

BIN = {
    "add": lambda a, b: a + b, "sub": lambda a, b: a - b, "mul": lambda a, b: a * b, "div": lambda a, b: a / b,
    "eq": lambda a, b: a == b, "ne": lambda a, b: a != b,
    "linspace": lambda a, b: np.linspace(a, b, 3), "logspace": lambda a, b: np.logspace(a, b, 3),
    # augmented assignment x = a; x op= b : the name x is rebound to the result, the pool keeps the old object a as an
    # alias, which must be unchanged
    # (a -= b and a /= b with a Quantity on the right are left to the plain-number forms below: quick-tier budget)
    "iadd": operator.iadd, "imul": operator.imul,
}
UNA = {
    "mul_num": lambda a: a * 2, "rmul_num": lambda a: 2 * a, "div_num": lambda a: a / 2, "rdiv_num": lambda a: 2 / a,
    "add_num": lambda a: a + 2, "radd_num": lambda a: 2 + a, "sub_num": lambda a: a - 2, "rsub_num": lambda a: 2 - a,
    # identity elements: the places where an implementation is tempted to return the operand itself
    "add_zero": lambda a: a + 0, "radd_zero": lambda a: 0 + a, "sub_zero": lambda a: a - 0,
    "mul_one": lambda a: a * 1, "rmul_one": lambda a: 1 * a, "div_one": lambda a: a / 1, "sum_builtin": lambda a: sum([a]),
    "eq_num": lambda a: a == 2, "pow2": lambda a: a ** 2, "pow1": lambda a: a ** 1, "pow_half": lambda a: a ** (1, 2), "neg": lambda a: -a,
    "linspace_num": lambda a: np.linspace(a, 2, 3), "rlinspace_num": lambda a: np.linspace(2, a, 3),
    "index": lambda a: a[0], "slice": lambda a: a[1:3], "slice_full": lambda a: a[:],
    "imul_num": lambda a: operator.imul(a, 2), "idiv_num": lambda a: operator.itruediv(a, 2),
    "iadd_num": lambda a: operator.iadd(a, 2), "isub_num": lambda a: operator.isub(a, 2),
    "ipow_num": lambda a: operator.ipow(a, 2),
    "np.sqrt": np.sqrt, "np.cbrt": np.cbrt, "np.power": lambda a: np.power(a, 2),
    "np.sin": np.sin, "np.cos": np.cos, "np.tan": np.tan,
    "np.arcsin": np.arcsin, "np.arccos": np.arccos, "np.arctan": np.arctan,
    "np.abs": np.abs, "np.absolute": np.absolute, "np.round": np.round, "np.floor": np.floor, "np.ceil": np.ceil,
    "np.sum": np.sum, "np.isnan": np.isnan,
}
INPLACE = ("to", "rebase", "abse", "rele")


def alphabet(pname, n, probe=False):
    """all operations applicable to a pool of n objects (ops are JSON-able lists)"""
    units = POOLS[pname]["units"]
    ops = []
    rng = range(n)
    if not probe:
        for name in BIN:
            for i in rng:
                for j in rng:
                    ops.append(["bin", name, i, j])
        for name in UNA:
            for i in rng:
                ops.append(["una", name, i])
    else:
        for name in ("eq", "add"):
            for i in rng:
                for j in rng:
                    if i != j:
                        ops.append(["bin", name, i, j])
    for i in rng:
        ops.append(["value", i, None])
        for u in units:
            ops.append(["value", i, u])
    for i in rng:
        for u in units:
            ops.append(["to", i, u])
        ops.append(["rebase", i])
        ops.append(["abse", i, 0.25])
        ops.append(["rele", i, 10.0])
    return ops


def opname(op):
    return op[1] if op[0] in ("bin", "una") else op[0]


# ------------------------------------------------------------------------------------------------ execution
def make(spec, shared=None):
    from scinumtools.units import Quantity
    kind, val, unit, abse, rele = spec
    if kind == "s":
        shared = {} if shared is None else shared
        val = shared.setdefault(tuple(val), np.array(val, dtype=float))
    elif kind == "d":
        val = Decimal(val)
    elif kind == "a":
        val = list(val)
    kw = {}
    if abse is not None:
        kw["abse"] = list(abse) if isinstance(abse, (list, tuple)) else abse
    if rele is not None:
        kw["rele"] = rele
    return Quantity(val, unit, **kw)


def _num(v):
    if v is None:
        return ("none",)
    if isinstance(v, np.ndarray):
        return ("nd", str(v.dtype), v.shape, v.tobytes().hex())
    if isinstance(v, Decimal):
        return ("dec", str(v.normalize()) if v.is_finite() else str(v))      # 1.5 and 1.500 are the same value
    if isinstance(v, (bool, np.bool_)):
        return ("bool", bool(v))
    if isinstance(v, (float, np.floating)):
        return ("f", struct.pack(">d", float(v)).hex())
    if isinstance(v, (int, np.integer)):
        return ("i", int(v))
    return (type(v).__name__, repr(v))


def observe(q):
    """what the object reports: value, units, uncertainty (canonical, comparable)"""
    return (_num(q.value()), q.units(), _num(q.abse()))


def show(q):
    return [repr(q.value()), q.units(), repr(q.abse())]


def _fp(v):
    if isinstance(v, np.ndarray):
        return ("nd", str(v.dtype), v.shape, v.tobytes().hex())
    if isinstance(v, dict):
        return tuple((repr(k), repr(x)) for k, x in v.items())
    return (type(v).__name__, repr(v))


def fingerprint(q):
    """structural summary of EVERY attribute of the object's Magnitude and BaseUnits (the internals that later
    operations recompute from, not only the cached read-outs units()/value() return).  Never judged by itself:
    a change only triggers the behavioural comparison of derived_report() below"""
    m, bu = q.magnitude, q.baseunits
    return (tuple((k, _fp(v)) for k, v in sorted(vars(m).items())),
            tuple((k, _fp(v)) for k, v in sorted(vars(bu).items())))


PROBES = {
    "mul_one": lambda d: d * 1,            # rebuilds the units from the exponent table
    "self_product": lambda d: d * d,
    "np.sqrt": np.sqrt,
    "rebase": lambda d: d.rebase(),
}


def derived_report(pname, q):
    """what the object answers when its reports are RECOMPUTED from its internals: value(u) in the units of its pool,
    and value/units/uncertainty of q*1, q*q, sqrt(q) and of q after rebase().  Every probe runs on its own deep copy
    of the object, so a probe can neither disturb the pool nor another probe"""
    out = []
    for u in POOLS[pname]["units"]:
        o = outcome(copy.deepcopy(q).value, u)
        out.append(("value:%s" % u, _num(o[1]) if o[0] == "ok" else ("err", o[1])))
    for name, fn in PROBES.items():
        o = outcome(fn, copy.deepcopy(q))
        out.append((name, observe(o[1]) if o[0] == "ok" else ("err", o[1])))
    return out


def outcome(fn, *args):
    """like common.outcome, but an exception whose str() itself raises (library exceptions carry Quantity objects
    whose repr can fail) is still an observation"""
    try:
        with case_timeout(20):
            return ("ok", fn(*args))
    except CaseTimeout:
        return ("err", "CaseTimeout", "")
    except RecursionError:
        return ("err", "RecursionError", "")
    except Exception as e:
        try:
            msg = str(e)[:200]
        except Exception:
            msg = "<unprintable>"
        return ("err", type(e).__name__, msg)


def apply(pname, pool, op):
    """run one operation on the pool; returns the outcome tuple"""
    kind = op[0]
    if kind == "bin":
        return outcome(BIN[op[1]], pool[op[2]], pool[op[3]])
    if kind == "una":
        return outcome(UNA[op[1]], pool[op[2]])
    if kind == "value":
        return outcome(pool[op[1]].value, op[2])
    if kind == "to":
        return outcome(pool[op[1]].to, op[2])
    if kind == "rebase":
        return outcome(pool[op[1]].rebase)
    if kind == "abse":
        return outcome(pool[op[1]].abse, op[2])
    if kind == "rele":
        return outcome(pool[op[1]].rele, op[2])
    raise HarnessError("unknown op %r" % (op,))


def _classify(before, after):
    (v0, u0, e0), (v1, u1, e1) = before, after
    if u0 != u1:
        return "units-converted"
    if v0 != v1:
        if v0[0] != v1[0] and "dec" in (v0[0], v1[0]):
            return "number-type-changed"
        return "value-overwritten"
    return "uncertainty-changed"


_LAST = [None]          # outcome of the most recent operation executed by run_history (used by the differential check)


def _result(o):
    from scinumtools.units import Quantity
    if o[0] != "ok":
        return ("err", o[1])
    if isinstance(o[1], Quantity):
        return ("quantity",) + observe(o[1])
    return _num(o[1])


def diff3_ops(pname):
    """(P, S) pairs: P a pure operation that converts / combines the initial operands, S an in-place method on one of
    the initial operands"""
    n0 = len(POOLS[pname]["objs"])
    units = POOLS[pname]["units"]
    P = [["value", i, u] for i in range(n0) for u in units]
    P += [["bin", name, i, j] for name in ("add", "sub", "mul", "div", "eq") for i in range(n0) for j in range(n0)]
    S = []
    for k in range(n0):
        S += [["abse", k, 0.25], ["rele", k, 10.0], ["rebase", k]] + [["to", k, u] for u in units]
    return [(p, s_) for p in P for s_ in S]


def check_diff3(pname, P, S):
    """history P, S, P: the second P must give what P gives on fresh operands after S alone (P is pure, so the operands
    are in the same condition in both histories)"""
    pool, rec, last, _ = run_history(pname, [P, S, P])
    if rec is not None:
        return rec, 3                      # an ordinary violation on the way is reported as such
    got = _result(_LAST[0])
    pool2, rec2, last2, _ = run_history(pname, [S, P])
    if rec2 is not None:
        return rec2, 5
    want = _result(_LAST[0])
    if got != want:
        return failure("repeated-op-differs-from-fresh", dict(pool=pname, mode="diff3", history=[list(P), list(S), list(P)]),
                       repr(want), repr(got),
                       tags=["op=" + opname(P), "inplace=" + opname(S), "pool=" + pname] + FEATURES[pname],
                       behaviour="stale-result-after-inplace-change"), 5
    return None, 5


def run_history(pname, hist):
    """Execute hist on a fresh pool, checking every step.
    Returns (pool, failure-or-None, last outcome kind 'ok'/'err', index of the violating step or None)."""
    from scinumtools.units import Quantity
    shared = {}
    pool = [make(s, shared) for s in POOLS[pname]["objs"]]
    n0 = len(pool)
    last = "ok"
    for k, op in enumerate(hist):
        before = [observe(q) for q in pool]
        shown = [show(q) for q in pool]
        fps = [fingerprint(q) for q in pool]
        o = apply(pname, pool, op)
        last = o[0]
        _LAST[0] = o
        inplace = op[0] in INPLACE
        target = op[1] if inplace else None
        args = [] if inplace else ([op[2], op[3]] if op[0] == "bin" else [op[2]] if op[0] == "una" else [op[1]])
        for i, b in enumerate(before):
            if i == target:
                continue
            a = observe(pool[i])
            hidden = None
            if a == b:
                if fingerprint(pool[i]) == fps[i]:
                    continue
                # value/units/uncertainty are reported as before, but something conversions read has changed:
                # does the object still answer value(u) as it did before this step?  (before = same history
                # without the last step, re-executed from fresh operands)
                ref_pool, _, _, _ = run_history(pname, hist[:k])
                was, now = derived_report(pname, ref_pool[i]), derived_report(pname, pool[i])
                if was == now:
                    continue
                hidden = (was, now)
            if inplace:
                sub, role = "inplace-alters-other-object", "other-object"
            elif i in args:
                sub = "pure-op-alters-operand"
                if len(args) == 1:
                    role = "sole-operand"
                elif args[0] == args[1]:
                    role = "both-sides"
                else:
                    role = "left-operand" if i == args[0] else "right-operand"
            else:
                sub, role = "pure-op-alters-bystander", "bystander"
            tags = ["op=" + opname(op), "changed=" + role, "pool=" + pname, "step=%d" % (k + 1),
                    "object=" + ("initial" if i < n0 else "result")] + FEATURES[pname]
            if inplace:
                tags.append("target=" + ("initial" if target < n0 else "result"))
            if o[0] == "err":
                tags.append("op-raised")
            if hidden:
                diff = [(w, n) for w, n in zip(*hidden) if w != n][0]
                probe = diff[0][0]
                rec = failure(sub, dict(pool=pname, history=[list(h) for h in hist[:k + 1]]),
                              dict(object=i, reports=shown[i], probe=probe, answer=repr(diff[0][1])),
                              dict(object=i, reports=show(pool[i]), probe=probe, answer=repr(diff[1][1])),
                              tags=tags + ["reported-value-unchanged", "probe=" + probe.split(":")[0]],
                              behaviour="value-query-answer-changed" if probe.startswith("value:")
                              else "derived-result-changed")
            else:
                rec = failure(sub, dict(pool=pname, history=[list(h) for h in hist[:k + 1]]),
                              dict(object=i, reports=shown[i]), dict(object=i, reports=show(pool[i])),
                              tags=tags, behaviour=_classify(b, a))
            return pool, rec, last, k
        if o[0] == "ok" and isinstance(o[1], Quantity) and not inplace:
            # a result that *is* one of the operands joins the pool as well: the next in-place step on either
            # index then shows up as a change of the other one
            pool.append(o[1])
    return pool, None, last, None


def canon(pname, pool):
    """canonical state: everything later operations read from the pool"""
    ids = {}

    def cls(x):
        return ids.setdefault(id(x), len(ids))
    arrays = []
    items = []
    for q in pool:
        m, bu = q.magnitude, q.baseunits
        share = [cls(m), cls(bu), cls(bu.baseunits)]
        for v in (m.value, m.error):
            if isinstance(v, np.ndarray):
                hit = None
                for idx, w in arrays:
                    if np.shares_memory(v, w):
                        hit = idx
                        break
                if hit is None:
                    hit = len(arrays)
                    arrays.append((hit, v))
                share.append(hit)
            else:
                share.append(-1)
        items.append((observe(q), type(m.value).__name__ == "Decimal", type(m.error).__name__,
                      repr(bu), type(bu.magnitude).__name__, repr(float(bu.magnitude)), repr(bu.dimensions),
                      tuple(share)))
    return hashlib.blake2b(repr((pname, items)).encode(), digest_size=10).hexdigest()


def shares_units_object(pool, n0):
    """does any result hold the very BaseUnits object of another pool member? (reported, not judged)"""
    for i, q in enumerate(pool):
        for j, r in enumerate(pool):
            if j > i and j >= n0 and q.baseunits is r.baseunits:
                return True
    return False


# ------------------------------------------------------------------------------------------------ engine
def init_worker():
    isolation.tables_snapshot()


def plan(tier, seed):
    shards = []
    for pname, p in POOLS.items():
        nops = len(alphabet(pname, len(p["objs"]), probe=pname in TWIN_POOLS))
        for k in range(nops):
            shards.append((pname, k, tier))
    shards += [(pname, "diff3", tier) for pname in POOLS]
    # interleave pools so that the expensive ones are spread over the run
    shards.sort(key=lambda s: (-1 if s[1] == "diff3" else s[1], s[0]))
    return shards


def _account(sh, pname, hist, pool, rec, last, n0):
    op = hist[-1]
    sh.evaluations += 1
    sh.transitions += 1
    sh.traces += 1
    sh.max_depth = max(sh.max_depth, len(hist))
    sh.count("%s:%s" % (opname(op), last))
    if last == "ok":
        sh.nontrivial += 1
        if op[0] in INPLACE:
            sh.count("probe:inplace-on-%s" % ("initial" if op[1] < n0 else "result"))
    if rec is not None:
        sh.fail(rec)
        sh.count("violations:" + pname)


def run_shard(desc):
    pname, k, tier = desc
    sh = Shard(PROPERTY)
    n0 = len(POOLS[pname]["objs"])
    if k == "diff3":
        for P, S in diff3_ops(pname):
            rec, nsteps = check_diff3(pname, P, S)
            sh.evaluations += 2
            sh.transitions += nsteps
            sh.traces += 2
            sh.nontrivial += 1
            sh.max_depth = max(sh.max_depth, 3)
            sh.count("diff3:" + ("fail" if rec else "ok"))
            if rec is not None:
                sh.fail(rec)
        isolation.tables_restore()
        return sh
    _sh0 = {}
    init_pool = [make(s, _sh0) for s in POOLS[pname]["objs"]]
    s0 = canon(pname, init_pool)
    seen = {s0}
    if k == 0:
        sh.add_to_set("states", s0)
    twin = pname in TWIN_POOLS
    op1 = alphabet(pname, n0, probe=twin)[k]
    frontier = []
    pool, rec, last, _ = run_history(pname, [op1])
    _account(sh, pname, [op1], pool, rec, last, n0)
    if rec is None:
        s1 = canon(pname, pool)
        sh.add_to_set("states", s1)
        if s1 not in seen:
            seen.add(s1)
            frontier.append(([op1], len(pool)))
    depth = 3 if tier == "thorough" else 2
    if twin:
        depth += 1
    nleaves = 0
    only = os.environ.get("C07_POOLS")                  # development aid: restrict the run to some pools
    if only and pname not in only.split(","):
        depth = 1
    for level in range(2, depth + 1):
        nxt = []
        probe = level == 3 or twin
        for hist, n in frontier:
            for op in alphabet(pname, n, probe=probe):
                h = hist + [op]
                pool, rec, last, _ = run_history(pname, h)
                _account(sh, pname, h, pool, rec, last, n0)
                if rec is not None:
                    continue
                s = canon(pname, pool)
                if level <= 2 or (twin and level <= 3 and tier != "thorough"):
                    sh.add_to_set("states", s)          # merged over all shards: exact number of distinct states
                elif s not in seen:
                    nleaves += 1                        # level-3 states are only de-duplicated inside the shard
                if shares_units_object(pool, n0):
                    sh.count("info:state-with-shared-units-object")
                if s not in seen:
                    seen.add(s)
                    nxt.append((h, len(pool)))
                    if len(h) == 2 and len(sh.samples) < 1 and op[0] in INPLACE and last == "ok" and hist[0][0] == "bin":
                        sh.sample(dict(pool=pname, history=h))
        frontier = nxt
    if tier == "thorough":
        sh.add_extra("level3_states_counted_per_shard", nleaves)
    elif not twin:
        sh.add_extra("level3_transitions_left_to_thorough",
                     sum(len(alphabet(pname, n, probe=True)) for _, n in frontier))
    leak = isolation.tables_restore()
    if leak:
        sh.add_extra("table_leaks", 1)
    return sh


def replay(rec):
    isolation.tables_restore()
    c = rec["case"]
    if c.get("mode") == "diff3":
        bad, _ = check_diff3(c["pool"], list(c["history"][0]), list(c["history"][1]))
        isolation.tables_restore()
        return bad
    _, bad, _, _ = run_history(c["pool"], [list(h) for h in c["history"]])
    isolation.tables_restore()
    return bad


def finish(total, tier, seed):
    states = total.sets.get("states", set())
    total.states = len(states)
    h = total.hist
    nok = sum(v for k, v in h.items() if k.endswith(":ok"))
    nerr = sum(v for k, v in h.items() if k.endswith(":err"))
    if nok < 1000 or nerr < 100:
        raise HarnessError("vacuous exploration: %d succeeding and %d raising operations" % (nok, nerr))
    for key in ("probe:inplace-on-initial", "probe:inplace-on-result"):
        if h.get(key, 0) < 100:
            raise HarnessError("aliasing probe not exercised: %s=%d" % (key, h.get(key, 0)))
    missing = [o for o in list(BIN) + list(UNA) + ["value"] + list(INPLACE) if h.get(o + ":ok", 0) == 0]
    if missing:
        raise HarnessError("operations that never succeeded anywhere: %r" % missing)
    if os.environ.get("C07_POOLS"):
        print("NOTE: C07_POOLS set - partial development run, evidence is not a full run")
    return dict(states=len(states), states_note="distinct canonical states reached within 2 steps (twin pools: 3), merged over all "
                "shards; states first reached by a third step are counted per shard in "
                "level3_states_counted_per_shard (an upper bound of their distinct number)",
                pools=sorted(POOLS) if not os.environ.get("C07_POOLS") else os.environ["C07_POOLS"].split(","),
                depth=3 if tier == "thorough" else 2,
                alphabet=dict(binary=sorted(BIN), unary=sorted(UNA), inplace=list(INPLACE), value_query=True,
                              level3="in-place methods and value queries on every object, == and + on every ordered pair"
                              if tier == "thorough" else "not explored in the quick tier"),
                deviation_bound_completed=0, distinct_outcomes=len(h), caps_hit=[],
                states_with_result_sharing_units_object=h.get("info:state-with-shared-units-object", 0))


MANIFEST = dict(
    text="Explicit-state exploration on live Quantity objects: from 24 operand pools (same unit, different unit, "
         "compound, dB, dBm, dBmW/Hz and dBm/Hz + BW/Hz fraction forms, angle, percent, plain numbers, Decimal left/right/both, arrays, array+scalar, uncertainties, "
         "arrays with per-element uncertainties (exact / uncertain partner), unit expressions repeating a dimension "
         "(m*cm, km*m, cm*m*dm; scalar, array, with uncertainty) so that rebase() does real work, "
         "temperatures, three operands) every history of length 1 and 2 over the complete alphabet (8 binary operators "
         "and comparisons incl. linspace/logspace on every ordered pair, 32 unary forms incl. reflected arithmetic with "
         "plain numbers, powers, indexing and 16 NumPy functions, value queries in 3 units, and the in-place methods "
         "to/rebase/abse/rele on every object, operands and results alike) is executed on freshly built operands "
         "(about 6e5 histories, 9.5e4 distinct states); the thorough tier adds a third step from every distinct state "
         "(in-place methods and value queries on every object, == and + on all ordered pairs; about 8e6 more histories). "
         "After every step all objects that are not the target of an in-place method must report bit-identical value, "
         "units and uncertainty, and - whenever any attribute of its Magnitude/BaseUnits changed - the same recomputed "
         "reports (value(unit), q*1, q*q, sqrt(q), rebase() on deep copies) as before the step.  Augmented assignments "
         "are part of the alphabet (the old object must stay unchanged), and per pool the differential histories "
         "P,S,P vs S,P (P pure, S in-place) must give identical results.  Twin pools (two separately built quantities holding the same number in the same unit: scalar, with uncertainty, array, temperature, level, and two quantities built from one caller-owned ndarray) are explored one level deeper with the probing alphabet at every level; slicing (a[1:3], a[:]) is an operation of the alphabet.",
    note="Sharing between result and operand is judged by its effect through the in-place methods (as the statement "
         "defines it), not structurally; operand magnitudes are one representative per pool; histories longer than the "
         "bound rely on the small-scope hypothesis; trusted: value()/units()/abse() are read-only accessors; the "
         "value(unit) answers are compared only when a cheap structural fingerprint of the object changed.",
    technique="explicit-state BFS over operation histories on real objects, invariant = observations of untouched objects",
)
