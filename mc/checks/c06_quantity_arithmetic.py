"""C06 - quantity arithmetic agrees with arithmetic on base-dimension values.

E2 bounded enumeration on the real `Quantity`: every ordered pair of operands over a unit alphabet (fixed core +
seed-selected window of the linear table units; every table unit in thorough) and a magnitude alphabet, under
+ - * /, with a plain number on either side, negation, and powers in every exponent form (int, (n,d) pair, float,
library Fraction).  Oracle = R-quantity: a quantity is (base value = x * factor, dimension vector); factors and
dimension vectors come from the published tables read as data (mc/refmodels/quantity_ref.py).

What is compared for every case (first disagreement is reported):
  raises      an operation the statement defines raised / a sum of different dimensions was accepted
  dimensions  result.baseunits.dimensions and the dimensions of the reported units() == dims(a) (+|-|*p) dims(b)
  base-value  result.value() * factor(result.units()) == base(a) op base(b)       (rel 1e-12)
  units       units bookkeeping: sum/difference -> left operand's units; product/quotient -> per-unit exponent
              sum/difference; power -> exponents * p; all dimensions vanish -> dimensional units dropped.

Not demanded (left out of the oracle, see DESIGN C06 and the guide's rule 2):
  * units bookkeeping of a product/quotient/power whose expected units have linearly DEPENDENT dimension vectors
    without vanishing altogether (km*s/m, Hz*s2, anything with a dimensionless unit such as %): "units whose
    dimensions cancel are dropped" and "a product adds exponents" can both be read into the statement there.
    Base value and dimensions are still checked.
  * units reported by a negation (statement is silent);
  * division by a zero magnitude, 0**negative, negative**non-integer; arrays of different shape;
    numpy scalars / arrays as the "plain number"; Decimal magnitudes; temperature and logarithmic units.

Round-2 additions: (1) a bare number / unit-less quantity +- an angle (rad, mrad, deg, sr ...) MUST be refused like
any other sum of different dimension (rad is one of the eight base dimensions); (2) compound operands that carry a
dimensionless unit with a table factor != 1 next to a dimensional one (%*m, ppth*km, [pi]*s), so that quotients whose
dimensional units cancel while %/ppth/[pi] stays are enumerated; (3) CHAINS: an operand may itself be the result of
earlier arithmetic - ((a*|/ b) op c), (c op (a*|/ b)), ((a**p) op c), (c op (a**p)) over a small unit alphabet -
because results can differ from freshly built quantities (kept dimensionless units, unreduced exponents).  The inner
operation of a chain is never a sum (no cancellation), so the 1e-12 tolerance stays meaningful.

Round-4 additions: (4) the plain numbers 0 and 0.0 on either side of every operator and the builtin sum() over lists of
1-3 quantities (sum() starts from the plain number 0: a list containing a dimensional quantity must be refused, a list
of dimensionless ones gives the arithmetic sum without units); (5) a COMPLETE sweep over every linear table unit
(plain and prefixed spelling) in every tier - 1/q, 2/q, q/2, q*2, q**p for p in {-1,-2,2,1/2,-1/2}, q/q', q*q', q+q',
q-q', -q - so that no table row is outside the quick tier whatever the seed; (6) NumPy scalars as exponents
(np.int32/int64 for whole exponents, np.float64 for all, np.float32/float16 where the exponent is exactly
representable, so that the numeric power itself is unaffected by the narrower type).

Round-7 additions: (7) the reported units are read back WITH their zero-exponent terms: where the units bookkeeping is
demanded, a term such as 'm0' / 'km0*s0' is a unit that cancelled and was not dropped (behaviour
"units-zero-exponent"); the zero exponent now also comes as the unreduced pair (0,3) and in the per-unit table sweep;
(8) HISTORIES: the operands of the judged operation are LIVE objects that already took part in an earlier operation
c = a op1 b (op1 in * / + - or c = a**2, c = -a) whose result was then left alone, rebased in place (c.rebase()) or
converted in place to its own units (c.to(c.units())); afterwards a op b, b op a, a op a, b op b, a**p, b**p, -a,
a*2, 2/b are judged by the same oracle as for freshly built operands (the statement quantifies over all quantities,
not only fresh ones; a quantity that still reports 2 m must multiply like 2 m).  The earlier operation and the
in-place method are part of the ONE case, so replay rebuilds the whole history.  The result c itself and whether the
operands still REPORT the same value/units is C07's business and is not judged here; an earlier step that raises
makes the case "not demanded".
"""
import math
from fractions import Fraction as F

import numpy as np

from ..common import Shard, failure, outcome, HarnessError
from ..refmodels import quantity_ref as R
from .. import isolation

PROPERTY = "C06"
LEVEL = "exploration"
RULE = ("case = (operation, left operand (unit, magnitude), right operand | exponent+form | plain number and its "
        "side | history: live operand pair, earlier operation, in-place method on its result, judged operation); "
        "every case of the stated alphabet is enumerated exactly once (shards partition the operand-pair "
        "list); non-trivial = at least one operand carries a unit (cases of two bare numbers are counted as "
        "evaluations only)")
ASSUMPTIONS = [
    "UNIT_PREFIXES / UNIT_STANDARD rows (factor, dimension vector, admissible prefixes) are the specification of "
    "every unit; they are copied as data before the first case",
    "base values are compared in float64 with relative tolerance 1e-12 (sums: relative to the larger operand)",
    "the text returned by units() is read back through the dictionary of valid spellings (prefix+symbol), which is "
    "unambiguous for the published tables (asserted at start-up)",
]
TOL = 1e-12

# ------------------------------------------------------------------------------------------------ alphabets
CORE = [
    (),                                                       # bare quantity, no unit
    (("", "m", 1),), (("k", "m", 1),), (("m", "m", 1),), (("c", "m", 2),),
    (("", "s", 1),), (("k", "g", 1),), (("", "g", 1),),
    (("", "J", 1),), (("", "erg", 1),), (("", "eV", 1),), (("", "N", 1),),
    (("k", "g", 1), ("", "m", 2), ("", "s", -2)),             # kg*m2/s2
    (("k", "m", 1), ("", "h", -1)),                           # km/h
    (("", "Hz", 1),), (("", "rad", 1),),
    (("", "statC", 1),),                                      # fractional dimensions
    (("", "dyn", F(1, 2)), ("c", "m", 1)),                    # dyn1:2*cm  (definition of statC)
    (("", "%", 1),),                                          # dimensionless unit with a factor
    (("m", "rad", 1),),                                       # prefixed angle (number +- mrad must be refused)
    (("", "%", 1), ("", "m", 1)),                             # %*m, ppth*km, [pi]*s: a dimensionless unit with a
    (("", "ppth", 1), ("k", "m", 1)),                         #   factor next to a dimensional unit that can cancel
    (("", "[pi]", 1), ("", "s", 1)),
]
WINDOW_SIZE = 12          # upper bound; windows are balanced
SCALARS = [0.0, 2.0, -3.0, 0.5, 1e10]
ARR_A = [1.0, -2.0, 4.0]
ARR_B = [0.5, 4.0, -8.0]
CORE_MAGS = [(a, b) for a in SCALARS for b in SCALARS] + [(ARR_A, ARR_B), (ARR_A, 2.0), (-3.0, ARR_B)]
WIN_MAGS = [(2.0, 0.5), (-3.0, 1e10), (ARR_A, 2.0), (0.5, ARR_B)]
WIN_MAGS_THOROUGH = WIN_MAGS + [(0.0, -3.0), (1e10, 0.5), (0.5, 2.0), (ARR_A, ARR_B)]
# a refusal depends on the units only: sums of core units of different dimension get 4 magnitude pairs, not the grid
REFUSAL_MAGS = [(2.0, 0.5), (-3.0, 1e10), (ARR_A, 2.0), (-3.0, ARR_B)]
NUMBERS = [2, -0.5, 0, 0.0]                                   # plain int and float, incl. the zero sum() starts from
NUM_MAGS = [2.0, -3.0, 0.5, ARR_A]
OPS = ["add", "sub", "mul", "div"]
# exponents n/d ("small d") ; every one is tried in all applicable forms
EXPONENTS = [(2, 1), (3, 1), (1, 1), (0, 1), (-1, 1), (-2, 1),
             (1, 2), (3, 2), (-1, 2), (5, 2), (1, 3), (2, 3), (-2, 3), (1, 4), (3, 4),
             (2, 4), (4, 2), (-3, 6), (0, 3)]                 # unreduced pairs (incl. an unreduced zero)
POW_MAGS = [2.0, 0.5, 1e10, -3.0, 0.0, [1.0, 2.0, 4.0], ARR_A]
# chains: operands that are results of earlier arithmetic
PLAIN2 = "plain"                                               # marker: the plain number 2 as third operand
CHAIN_UNITS = [(("", "%", 1),), (("", "ppth", 1),), (("", "[pi]", 1),), (("", "m", 1),), (("c", "m", 1),),
               (("k", "m", 1),), (("", "s", 1),), (("m", "s", 1),), (("", "m", 2),), ()]
CHAIN_UNITS_THOROUGH = CHAIN_UNITS + [(("", "[alpha]", 1),), (("", "[euler]", 1),), (("m", "m", 1),),
                                      (("", "Hz", 1),), (("", "min", 1),), (("", "J", 1),), (("", "erg", 1),),
                                      (("", "m", -1),)]
CHAIN_MAGS = [(50.0, 2.0, 4.0), ([1.0, 2.0, 4.0], [2.0, 4.0, 8.0], [0.5, -3.0, 2.0])]
CHAIN_POW_UNITS = [(("", "m", 2),), (("", "m", 4),), (("c", "m", 2),), (("", "s", 2),), (("", "m", 3),),
                   (("", "m", 1),), (("", "%", 1),), (("", "J", 2),)]
CHAIN_POWERS = [((1, 2), "pair"), ((1, 2), "float"), ((1, 2), "Fraction"), ((1, 3), "pair"), ((1, 3), "float"),
                ((2, 1), "int"), ((-1, 1), "int")]
CHAIN_POW_THIRD = [(("", "m", 1),), (("c", "m", 1),), (("", "s", 1),), (("", "m", 2),), (), (("", "%", 1),),
                   (("", "J", 1),)]
CHAIN_POW_MAGS = [(4.0, 1.0), ([1.0, 4.0, 9.0], [2.0, -1.0, 0.5])]
# builtin sum(): lists of 1..3 quantities over these units
SUM_LIST_UNITS = [(("", "m", 1),), (("c", "m", 1),), (), (("", "%", 1),), (("", "rad", 1),),
                  (("k", "g", 1), ("", "m", 2), ("", "s", -2))]
SUM_LIST_MAGS = [(1.0, 20.0, 0.5), ([1.0, 2.0], [20.0, -4.0], [0.5, 8.0])]
# complete sweep over the table (every tier): magnitudes that occur nowhere else, so no case is enumerated twice
SWEEP_X, SWEEP_Y, SWEEP_ARR = 4.0, 3.0, [3.0, 0.25, 5.0]
SWEEP_POWERS = [((-1, 1), "int"), ((-2, 1), "int"), ((2, 1), "int"), ((1, 2), "pair"), ((-1, 2), "pair"),
                ((-1, 2), "float"), ((-1, 1), "float"), ((0, 1), "int"), ((0, 1), "float")]
# histories: live operands a, b that already took part in  c = a op1 b  (+ an in-place method on c) are used again
HIST_UNITS = CHAIN_UNITS + [(("k", "g", 1), ("", "m", 2), ("", "s", -2)), (("k", "m", 1), ("", "h", -1)),
                            (("", "J", 1),)]
HIST_UNITS_THOROUGH = CHAIN_UNITS_THOROUGH + [(("k", "g", 1), ("", "m", 2), ("", "s", -2)),
                                              (("k", "m", 1), ("", "h", -1)), (("", "statC", 1),)]
HIST_MAGS = [(6.0, 1.5), ([1.0, 2.0, 4.0], [0.5, 4.0, -8.0])]
HIST_FIRST = ["mul", "div", "add", "sub", "pow2", "neg"]     # c = a op1 b | a**2 | -a   (sums only of equal dimension)
HIST_METHODS = ["none", "rebase", "to-own-units"]            # in-place method called on the earlier result c
_A, _B = dict(ref="a"), dict(ref="b")
HIST_THEN = ([dict(k="bin", op=op, a=x, b=y) for x, y in ((_A, _B), (_B, _A), (_A, _A), (_B, _B)) for op in OPS] +
             [dict(k="pow", a=_A, p=[2, 1], form="int"), dict(k="pow", a=_A, p=[1, 2], form="pair"),
              dict(k="pow", a=_B, p=[2, 1], form="int"), dict(k="pow", a=_B, p=[-1, 1], form="int"),
              dict(k="neg", a=_A),
              dict(k="bin", op="mul", a=_A, b=dict(plain=2)), dict(k="bin", op="div", a=dict(plain=2), b=_B)])
NP_FORMS = ["np.float64", "np.float32", "np.float16", "np.int64", "np.int32"]

_UNITS = None          # list of unit tuples: CORE first, then the window entries
_NCORE = len(CORE)
_GUARD = None


def _all_entries():
    """core + every linear table unit not in the core (plain, and one prefixed spelling where admitted)."""
    core = [R.unit(*u) for u in CORE]
    seen = set(core)
    extra = []
    for i, s in enumerate(R.linear_symbols()):
        u = R.unit(("", s, 1))
        if u not in seen:
            seen.add(u)
            extra.append(u)
        prefs = [p for p in R.admissible_prefixes(s) if p != "da"]      # 'da' spelling is C03's business
        if prefs:
            p = prefs[i % len(prefs)]
            u = R.unit((p, s, 1))
            if u not in seen:
                seen.add(u)
                extra.append(u)
    return core, extra


def init_worker():
    global _GUARD
    R.load()
    if any(v is None for v in R.SPELL.values()):
        raise HarnessError("ambiguous unit spellings in the tables: units() text cannot be read back")
    isolation.tables_snapshot()
    _GUARD = _guard_state()


def _guard_state():
    from scinumtools.units import settings as st
    return (len(st.UNIT_STANDARD._keys), len(st.UNIT_PREFIXES._keys), len(st.UNIT_TYPES))


def _windows():
    core, extra = _all_entries()
    nwin = (len(extra) + WINDOW_SIZE - 1) // WINDOW_SIZE
    return core, extra, nwin


def _window(extra, nwin, w):
    """window w of nwin, sizes balanced (differ by at most one)"""
    lo, hi = (len(extra) * w) // nwin, (len(extra) * (w + 1)) // nwin
    return extra[lo:hi]


def _alphabet(tier, seed):
    core, extra, nwin = _windows()
    if tier == "thorough":
        return core + extra, None, nwin
    w = seed % nwin
    return core + _window(extra, nwin, w), w, nwin


# ------------------------------------------------------------------------------------------------ case <-> json
def _ju(u):
    return [[p, s, "%d/%d" % (e.numerator, e.denominator)] for p, s, e in u]


def _uj(j):
    return R.unit(*[(p, s, F(e)) for p, s, e in j])


def _opnd(u, x):
    return dict(u=_ju(u), x=x)


def _plain(c):
    return dict(plain=c)


def _mk(o, env=None):
    from scinumtools.units import Quantity
    if "plain" in o:
        return o["plain"]
    if "ref" in o:                                 # a live operand of a history case
        return env[o["ref"]]
    if "k" in o:                                   # operand = result of earlier arithmetic (chain)
        return _execute(o, env)
    u = _uj(o["u"])
    x = o["x"]
    x = list(x) if isinstance(x, (list, tuple)) else x
    if u:
        return Quantity(x, R.render(u))
    return Quantity(x)


class _NotDemanded(Exception):
    pass


def _ref(o):
    """(natural unit map, dims, base value as ndarray, is_plain, units_known)

    units_known is False when the operand is an earlier result whose reported units the statement does not pin."""
    if "plain" in o:
        return {}, tuple([F(0)] * R.NDIM), np.asarray(float(o["plain"])), True, True
    if "k" in o:
        if o.get("op") in ("add", "sub"):
            raise HarnessError("a sum as inner operation of a chain is outside the tolerance model")
        e = _expect_inner(o)
        if e is None or e.get("refuse"):
            raise _NotDemanded()
        return e["natural"], tuple(e["dims"]), np.asarray(e["base"], dtype=float), False, e["units"] is not None
    m = R.umap(_uj(o["u"]))
    return m, R.map_dims(m), np.asarray(o["x"], dtype=float) * R.map_factor(m), False, True


def _natural(em, ed):
    """per-unit exponent map of a result; when all dimensions vanish the dimensional units are gone"""
    if R.nodim(ed):
        return {key: e for key, e in em.items() if R.nodim(R.UNIT[key[1]]["dims"])}
    return dict(em)


# ------------------------------------------------------------------------------------------------ oracle
def _close(got, exp, scale):
    got = np.asarray(got, dtype=float)
    exp = np.asarray(exp, dtype=float)
    if got.shape != exp.shape:
        return False
    scale = np.maximum(np.abs(exp), np.asarray(scale, dtype=float))
    with np.errstate(all="ignore"):
        return bool(np.all(np.isfinite(got)) and np.all(np.abs(got - exp) <= TOL * scale))


def _tolist(v):
    a = np.asarray(v, dtype=float)
    return a.tolist()


def _expect(case):
    """-> dict(refuse=bool) or dict(base, scale, dims, units|None (None = bookkeeping not demanded), natural, tags)
    or None when the case is outside what the statement demands."""
    try:
        return _expect_inner(case)
    except _NotDemanded:
        return None


def _expect_inner(case):
    k = case["k"]
    if k == "hist":
        e = _expect_inner(_subst(case["then"], case))
        if e is not None:
            e["tags"] = sorted(set(e["tags"]) | {"history", "first:" + case["first"], "method:" + case["method"]})
        return e
    tags = ["kind:" + k]
    if any("k" in case[x] for x in ("a", "b") if x in case):
        tags.append("chained")
    if k == "bin":
        op = case["op"]
        ma, da, ba, pa, ka = _ref(case["a"])
        mb, db, bb, pb, kb = _ref(case["b"])
        tags += ["op:" + op]
        if pa:
            tags.append("left:plain")
        if pb:
            tags.append("right:plain")
        if ba.ndim or bb.ndim:
            tags.append("array")
        if not pa and not pb:
            tags.append("same-units" if ma == mb else "mixed-units")
        if op in ("add", "sub"):
            if da != db:
                # includes a bare number / unit-less quantity +- an angle: rad is a base dimension
                if (not ma and R.nodim(da)) or (not mb and R.nodim(db)):
                    tags.append("number-vs-dimensional")
                return dict(refuse=True, tags=tags + ["different-dimension"])
            base = ba + bb if op == "add" else ba - bb
            scale = np.maximum(np.abs(ba), np.abs(bb))
            if not ka:
                tags.append("units-not-demanded")
            return dict(base=base, scale=scale, dims=da, units=dict(ma) if ka else None, natural=dict(ma), tags=tags)
        if op == "div" and np.any(bb == 0):
            return None
        sign = 1 if op == "mul" else -1
        em = R.map_add(ma, mb, sign)
        ed = tuple(x + sign * y for x, y in zip(da, db))
        with np.errstate(all="ignore"):
            base = ba * bb if op == "mul" else ba / bb
        units = _bookkeeping(em, ed, tags)
        if not (ka and kb):
            if units is not None:
                tags.append("units-not-demanded")
            units = None
        return dict(base=base, scale=0.0, dims=ed, units=units, natural=_natural(em, ed), tags=tags)
    if k == "sum":
        # builtin sum(items) == ((0 + q1) + q2) + ...: the plain 0 has no dimension, so every item must be
        # dimensionless; the result carries the left-most operand's units, i.e. none
        tags += ["op:sum", "items:%d" % len(case["items"])]
        total = np.asarray(0.0)
        scale = np.asarray(0.0)
        for o in case["items"]:
            m, d, b, _, _ = _ref(o)
            if b.ndim:
                tags.append("array")
            if not R.nodim(d):
                return dict(refuse=True, tags=sorted(set(tags + ["different-dimension", "number-vs-dimensional"])))
            total = total + b
            scale = np.maximum(scale, np.abs(b))
        return dict(base=total, scale=scale, dims=tuple([F(0)] * R.NDIM), units={}, natural={},
                    tags=sorted(set(tags)))
    if k == "neg":
        ma, da, ba, _, _ = _ref(case["a"])
        return dict(base=-ba, scale=0.0, dims=da, units=None, natural=dict(ma), tags=tags + ["op:neg"])
    if k == "pow":
        ma, da, ba, _, ka = _ref(case["a"])
        n, d = case["p"]
        p = F(n, d)
        tags += ["op:pow", "exp-form:" + case["form"],
                 "exp-integral" if p.denominator == 1 else "exp-nonintegral"]
        if p < 0:
            tags.append("exp-negative")
        if ba.ndim:
            tags.append("array")
        if p.denominator != 1 and np.any(ba < 0):
            return None
        if p < 0 and np.any(ba == 0):
            return None
        with np.errstate(all="ignore"):
            base = np.power(ba, float(p)) if p.denominator != 1 else ba ** int(p)
        if not np.all(np.isfinite(base)):
            return None
        em = R.map_scale(ma, p)
        ed = tuple(x * p for x in da)
        units = _bookkeeping(em, ed, tags)
        if not ka:
            if units is not None:
                tags.append("units-not-demanded")
            units = None
        return dict(base=base, scale=0.0, dims=ed, units=units, natural=_natural(em, ed), tags=tags)
    raise HarnessError("unknown case kind %r" % (k,))


def _bookkeeping(em, ed, tags):
    """expected unit map, or None where the statement does not pin it (see module docstring)"""
    dimensional = {key: e for key, e in em.items() if not R.nodim(R.UNIT[key[1]]["dims"])}
    if R.nodim(ed):
        if len(dimensional) == len(em):
            if em:
                tags.append("fold")
            return {}                      # every unit is dimensional and all dimensions cancel: all dropped
        tags.append("units-not-demanded")
        if dimensional and any(R.UNIT[key[1]]["factor"] != 1.0 for key in em if key not in dimensional):
            tags.append("fold-keeps-dimensionless")       # e.g. 50 % * 2 m / 4 cm
        return None
    if R.independent(em):
        return dict(em)
    tags.append("units-not-demanded")
    return None


def _power_arg(case):
    n, d = case["p"]
    form = case["form"]
    if form == "int":
        return int(n)
    if form == "float":
        return n / d
    if form == "pair":
        return (n, d)
    if form == "Fraction":
        from scinumtools.units import Fraction as LF
        return LF(n, d)
    if form in ("np.float64", "np.float32", "np.float16"):
        return getattr(np, form[3:])(n / d)
    if form in ("np.int64", "np.int32"):
        return getattr(np, form[3:])(n)
    raise HarnessError("unknown exponent form " + form)


def _subst(o, case):
    """the judged operation of a history case with the references replaced by the operand descriptions"""
    if "ref" in o:
        return case[o["ref"]]
    if "k" in o:
        return {key: (_subst(v, case) if key in ("a", "b") else v) for key, v in o.items()}
    return o


def _history(case):
    """build the live operands, run the earlier operation and the in-place method on its result"""
    a, b = _mk(case["a"]), _mk(case["b"])
    first = case["first"]
    try:
        if first == "mul":
            c = a * b
        elif first == "div":
            c = a / b
        elif first == "add":
            c = a + b
        elif first == "sub":
            c = a - b
        elif first == "pow2":
            c = a ** 2
        elif first == "neg":
            c = -a
        else:
            raise HarnessError("unknown first operation %r" % (first,))
        m = case["method"]
        if m == "rebase":
            c.rebase()
        elif m == "to-own-units":
            if c.units() is not None:
                c.to(c.units())
        elif m != "none":
            raise HarnessError("unknown method %r" % (m,))
    except HarnessError:
        raise
    except Exception as e:          # the earlier steps are judged by their own cases, not here
        raise _NotDemanded("history step raised %s" % type(e).__name__)
    return dict(a=a, b=b, c=c)


def _execute(case, env=None):
    """build fresh operands (the library may alter operands, which is C07's business) and run the operation"""
    k = case["k"]
    if k == "hist":
        return _execute(case["then"], _history(case))
    if k == "bin":
        a, b = _mk(case["a"], env), _mk(case["b"], env)
        op = case["op"]
        if op == "add":
            return a + b
        if op == "sub":
            return a - b
        if op == "mul":
            return a * b
        return a / b
    if k == "neg":
        return -_mk(case["a"], env)
    if k == "sum":
        return sum([_mk(o, env) for o in case["items"]])
    return _mk(case["a"], env) ** _power_arg(case)


def _umap_json(m):
    return {p + s: str(e) for (p, s), e in sorted(m.items())}


def check_case(case):
    """-> (failure|None, label for the outcome histogram)"""
    exp = _expect(case)
    if exp is None:
        return None, "not-demanded"
    tags = exp["tags"]
    out = outcome(_execute, case)
    if out[0] == "err" and out[1] == "_NotDemanded":
        isolation.tables_restore()
        return None, "not-demanded"
    if _guard_state() != _GUARD or out[0] == "err" and not exp.get("refuse"):
        isolation.tables_restore()
    if exp.get("refuse"):
        if out[0] == "ok":
            return failure("refusal", case, "an error (operands of different dimension)", repr(out[1]),
                           tags=tags, behaviour="accepted"), "refusal:accepted"
        if out[1] in ("CaseTimeout", "RecursionError"):
            return failure("refusal", case, "an error raised by the library", list(out[1:]), tags=tags,
                           behaviour="raises:" + out[1]), "refusal:hang"
        return None, "refused"
    sub = "power" if case["k"] == "pow" else ("negation" if case["k"] == "neg" else "arithmetic")
    if case["k"] == "sum":
        sub = "builtin-sum"
    if case["k"] == "hist":
        sub = "after-history"
    if out[0] == "err":
        return failure(sub, case, "a result", list(out[1:]), tags=tags, behaviour="raises:" + out[1]), "raised"
    res = out[1]
    got = outcome(_observe, res)
    if got[0] == "err":
        return failure(sub, case, "a Quantity with readable value/units/dimensions", list(got[1:]), tags=tags,
                       behaviour="unreadable:" + got[1]), "unreadable"
    value, rm, ld, zero = got[1]
    edims = tuple(exp["dims"])
    if ld != edims or R.map_dims(rm) != edims:
        return failure(sub, case, dict(dims=[str(x) for x in edims]),
                       dict(dims=[str(x) for x in ld], units=_umap_json(rm), value=_tolist(value)),
                       tags=tags, behaviour="dimensions"), "bad:dimensions"
    base = np.asarray(value, dtype=float) * R.map_factor(rm)
    if not _close(base, exp["base"], exp["scale"]):
        return failure(sub, case, dict(base_value=_tolist(exp["base"])),
                       dict(base_value=_tolist(base), value=_tolist(value), units=_umap_json(rm)),
                       tags=tags, behaviour="base-value"), "bad:base-value"
    if exp["units"] is not None and rm != exp["units"]:
        return failure(sub, case, dict(units=_umap_json(exp["units"])),
                       dict(units=_umap_json(rm), value=_tolist(value)), tags=tags, behaviour="units"), "bad:units"
    if exp["units"] is not None and zero:
        # a unit whose exponent (hence dimension) cancelled is reported with exponent 0 instead of being dropped
        return failure(sub, case, dict(units=_umap_json(exp["units"])),
                       dict(units_text=zero[0], zero_exponent_terms=zero[1], value=_tolist(value)), tags=tags,
                       behaviour="units-zero-exponent"), "bad:units-zero-exponent"
    label = "ok"
    if "fold" in tags:
        label = "ok:folded"
    elif "fold-keeps-dimensionless" in tags:
        label = "ok:fold-keeps-dimensionless"
    elif exp["units"] is None:
        label = "ok:units-not-demanded"
    return None, label


def _observe(res):
    from scinumtools.units import Quantity
    if not isinstance(res, Quantity):
        raise TypeError("result is %s, not a Quantity" % type(res).__name__)
    value = res.value()
    text = res.units()
    full = R.parse_units(text, keep_zero=True)
    rm = {key: e for key, e in full.items() if e != 0}
    zero = [text, sorted(p + s for (p, s), e in full.items() if e == 0)] if len(rm) != len(full) else None
    ld = R.lib_dims(res.baseunits.dimensions)
    return value, rm, ld, zero


# ------------------------------------------------------------------------------------------------ enumeration
NBIN = 64
NUNA = 16
NCHAIN = 32
NSWEEP = 16
NHIST = 32


def plan(tier, seed):
    init_worker()
    return ([("bin", tier, seed, k) for k in range(NBIN)] +
            [("chain", tier, seed, k) for k in range(NCHAIN)] +
            [("sweep", tier, seed, k) for k in range(NSWEEP)] +
            [("hist", tier, seed, k) for k in range(NHIST)] +
            [("una", tier, seed, k) for k in range(NUNA)])


def _third(u, x):
    return _plain(2) if u == PLAIN2 else _opnd(R.unit(*u), x)


def _chain_cases(k, tier):
    """operands that are results: ((a op1 b) op2 c), (c op2 (a op1 b)), ((a**p) op2 c), (c op2 (a**p))"""
    units = CHAIN_UNITS_THOROUGH if tier == "thorough" else CHAIN_UNITS
    idx = 0
    for ua in units:
        for ub in units:
            for uc in list(units) + [PLAIN2]:
                mine = idx % NCHAIN == k
                idx += 1
                if not mine:
                    continue
                for xa, xb, xc in CHAIN_MAGS:
                    for op1 in ("mul", "div"):
                        inner = dict(k="bin", op=op1, a=_opnd(R.unit(*ua), xa), b=_opnd(R.unit(*ub), xb))
                        for op2 in OPS:
                            yield dict(k="bin", op=op2, a=inner, b=_third(uc, xc))
                            yield dict(k="bin", op=op2, a=_third(uc, xc), b=inner)
    for ua in CHAIN_POW_UNITS:
        for (n, d), form in CHAIN_POWERS:
            for uc in CHAIN_POW_THIRD + [PLAIN2]:
                mine = idx % NCHAIN == k
                idx += 1
                if not mine:
                    continue
                for xa, xc in CHAIN_POW_MAGS:
                    inner = dict(k="pow", a=_opnd(R.unit(*ua), xa), p=[n, d], form=form)
                    for op2 in OPS:
                        yield dict(k="bin", op=op2, a=inner, b=_third(uc, xc))
                        yield dict(k="bin", op=op2, a=_third(uc, xc), b=inner)


def _hist_cases(k, tier):
    """live operands re-used after an earlier operation (and an in-place method on its result)"""
    units = HIST_UNITS_THOROUGH if tier == "thorough" else HIST_UNITS
    idx = 0
    for ua in units:
        for ub in units:
            mine = idx % NHIST == k
            idx += 1
            if not mine:
                continue
            ua_, ub_ = R.unit(*ua), R.unit(*ub)
            samedim = R.dims(ua_) == R.dims(ub_)
            for xa, xb in HIST_MAGS:
                for first in HIST_FIRST:
                    if first in ("add", "sub") and not samedim:
                        continue
                    for method in HIST_METHODS:
                        for then in HIST_THEN:
                            yield dict(k="hist", a=_opnd(ua_, xa), b=_opnd(ub_, xb), first=first, method=method,
                                       then=then)


def _bin_cases(units, k, tier):
    """cases of shard k: operand pairs[k::NBIN] with their magnitude alphabet, plain-number cases by unit"""
    n = len(units)
    idx = 0
    for ia in range(n):
        for ib in range(n):
            mine = idx % NBIN == k
            idx += 1
            if not mine:
                continue
            mags = CORE_MAGS if (ia < _NCORE and ib < _NCORE) else (
                WIN_MAGS_THOROUGH if tier == "thorough" else WIN_MAGS)
            samedim = R.dims(units[ia]) == R.dims(units[ib])
            for xa, xb in mags:
                for op in OPS:
                    if op in ("add", "sub") and not samedim and mags is CORE_MAGS and (xa, xb) not in REFUSAL_MAGS:
                        continue
                    yield dict(k="bin", op=op, a=_opnd(units[ia], xa), b=_opnd(units[ib], xb))
    for iu in range(n):
        if iu % NBIN != k:
            continue
        for c in NUMBERS:
            for x in NUM_MAGS:
                for op in OPS:
                    yield dict(k="bin", op=op, a=_plain(c), b=_opnd(units[iu], x))
                    yield dict(k="bin", op=op, a=_opnd(units[iu], x), b=_plain(c))


def _forms(n, d):
    if d == 1:
        return ["int", "float", "pair", "Fraction"] + NP_FORMS
    out = ["pair", "float", "Fraction", "np.float64"]
    for f in ("np.float32", "np.float16"):          # only where the narrower type holds n/d exactly
        if float(getattr(np, f[3:])(n / d)) == n / d:
            out.append(f)
    return out


def _una_cases(units, k):
    for iu in range(len(units)):
        if iu % NUNA != k:
            continue
        for x in POW_MAGS:
            o = _opnd(units[iu], x)
            yield dict(k="neg", a=o)
            for n, d in EXPONENTS:
                for form in _forms(n, d):
                    yield dict(k="pow", a=o, p=[n, d], form=form)


def _sweep_cases(k):
    """every linear table unit (all windows), whatever the tier and seed; plus the builtin-sum lists"""
    core, extra, _ = _windows()
    units = core + extra
    for iu, u in enumerate(units):
        if iu % NSWEEP != k or not u:
            continue
        for x in (SWEEP_X, SWEEP_ARR):
            q = _opnd(u, x)
            yield dict(k="neg", a=q)
            for c in (1, 2):
                yield dict(k="bin", op="div", a=_plain(c), b=q)
            yield dict(k="bin", op="div", a=q, b=_plain(2))
            yield dict(k="bin", op="mul", a=q, b=_plain(2))
            yield dict(k="bin", op="mul", a=_plain(2), b=q)
            for (n, d), form in SWEEP_POWERS:
                yield dict(k="pow", a=q, p=[n, d], form=form)
            for op in OPS:
                yield dict(k="bin", op=op, a=q, b=_opnd(u, SWEEP_Y))
    idx = 0
    n = len(SUM_LIST_UNITS)
    for length in (1, 2, 3):
        for combo in range(n ** length):
            mine = idx % NSWEEP == k
            idx += 1
            if not mine:
                continue
            us = [SUM_LIST_UNITS[(combo // n ** i) % n] for i in range(length)]
            for mags in SUM_LIST_MAGS:
                yield dict(k="sum", items=[_opnd(R.unit(*u), mags[i]) for i, u in enumerate(us)])


def _leaves(o):
    if "plain" in o:
        return
    if "items" in o:
        for it in o["items"]:
            yield from _leaves(it)
        return
    if "ref" in o:
        return
    if "k" in o:
        for key in ("a", "b"):
            if key in o:
                yield from _leaves(o[key])
    else:
        yield o


def _trivial(case):
    return not any(leaf["u"] for leaf in _leaves(case))


def run_shard(desc):
    kind, tier, seed, k = desc
    sh = Shard(PROPERTY)
    units, w, nwin = _alphabet(tier, seed)
    gen = (_bin_cases(units, k, tier) if kind == "bin" else _chain_cases(k, tier) if kind == "chain"
           else _sweep_cases(k) if kind == "sweep" else _hist_cases(k, tier) if kind == "hist"
           else _una_cases(units, k))
    for case in gen:
        bad, label = check_case(case)
        if label == "not-demanded":
            sh.count("skipped:not-demanded")
            if kind == "hist":
                sh.count("hist-skipped:not-demanded")
            continue
        sh.evaluations += 1
        if not _trivial(case):
            sh.nontrivial += 1
        if kind == "hist":
            sh.count("hist:%s:%s:%s" % (case["first"], case["method"], label))
            sh.count("hist-then:" + case["then"]["k"] + (":" + case["then"]["op"] if "op" in case["then"] else "")
                     + ":" + label)
        else:
            sh.count((kind if kind in ("chain", "sweep") else case["k"]) + (":" + case["op"] if "op" in case else "")
                     + ":" + label)
        if kind == "sweep":
            sh.count("sweepkind:" + case["k"] + ":" + label)
        if case["k"] == "pow" and case["p"][0] == 0 and label != "ok:units-not-demanded":
            sh.count("pow-zero:units-demanded")
        if case["k"] == "pow":
            sh.count("pow-form:" + case["form"] + (":integral" if case["p"][1] == 1 else ":nonintegral"))
        if bad:
            sh.fail(bad)
        elif label in ("ok:folded", "refused") and len(sh.samples) < 1 and k % 16 == 0:
            sh.sample(case)
    d = isolation.tables_restore()
    if d:
        sh.add_extra("table_leaks_restored", 1)
    return sh


def replay(rec):
    init_worker()
    isolation.tables_restore()
    bad, _ = check_case(rec["case"])
    isolation.tables_restore()
    return bad


def finish(total, tier, seed):
    h = total.hist
    units, w, nwin = _alphabet(tier, seed)

    def tot(prefix, suffix=""):
        return sum(v for key, v in h.items() if key.startswith(prefix) and key.endswith(suffix))
    need = {
        "sums refused": tot("bin:add", ":refused") + tot("bin:add", ":refusal:accepted"),
        "sums computed": tot("bin:add:ok") + tot("bin:add:bad"),
        "quotients folded to a number": tot("bin:div", ":ok:folded") + tot("bin:div:bad"),
        "products with demanded units": h.get("bin:mul:ok", 0) + tot("bin:mul:bad"),
        "products with units not demanded": h.get("bin:mul:ok:units-not-demanded", 0) + tot("bin:mul:bad"),
        "float non-integral exponents": h.get("pow-form:float:nonintegral", 0),
        "pair exponents": h.get("pow-form:pair:nonintegral", 0),
        "negations": tot("neg:"),
        "quotients that fold but keep a dimensionless unit with a factor":
            tot("bin:div", ":ok:fold-keeps-dimensionless") + tot("bin:div:bad"),
        "chained quotients that fold but keep a dimensionless unit":
            tot("chain:div", ":ok:fold-keeps-dimensionless") + tot("chain:div:bad"),
        "chained sums computed": tot("chain:add:ok") + tot("chain:add:bad"),
        "chained sums refused": tot("chain:add", ":refused") + tot("chain:add", ":refusal:accepted"),
        "sweep quotients": tot("sweep:div:ok") + tot("sweep:div:bad") + tot("sweep:div:raised"),
        "sweep powers": tot("sweepkind:pow:"),
        "builtin sums refused": h.get("sweepkind:sum:refused", 0) + h.get("sweepkind:sum:refusal:accepted", 0),
        "builtin sums computed": h.get("sweepkind:sum:ok", 0) + tot("sweepkind:sum:bad") + tot("sweepkind:sum:raised"),
        "numpy float32 exponents": h.get("pow-form:np.float32:nonintegral", 0),
        "numpy integer exponents": h.get("pow-form:np.int64:integral", 0),
        "zero exponents with demanded units": h.get("pow-zero:units-demanded", 0),
        "operands re-used after a rebased product": tot("hist:mul:rebase:ok") + tot("hist:mul:rebase:bad")
            + tot("hist:mul:rebase:raised"),
        "operands re-used after a converted quotient": tot("hist:div:to-own-units:ok")
            + tot("hist:div:to-own-units:bad") + tot("hist:div:to-own-units:raised"),
        "operands re-used after a rebased sum": tot("hist:add:rebase:ok") + tot("hist:add:rebase:bad")
            + tot("hist:add:rebase:raised"),
        "re-used operands: quotients folded to a number": tot("hist-then:bin:div", ":ok:folded")
            + tot("hist-then:bin:div:bad"),
        "re-used operands: sums refused": tot("hist-then:bin:add", ":refused")
            + tot("hist-then:bin:add", ":refusal:accepted"),
        "re-used operands: powers": tot("hist-then:pow:ok") + tot("hist-then:pow:bad"),
    }
    empty = [name for name, v in need.items() if v == 0]
    if empty:
        raise HarnessError("vacuous run, no case of: " + ", ".join(empty))
    return dict(
        window=w, windows=nwin, window_size=WINDOW_SIZE, units_in_alphabet=len(units), core_units=_NCORE,
        bounds=dict(scalar_magnitudes=SCALARS, arrays=[ARR_A, ARR_B], plain_numbers=NUMBERS,
                    exponents=["%d/%d" % e for e in EXPONENTS],
                    exponent_forms=["int", "pair", "float", "Fraction"] + NP_FORMS,
                    sweep="every linear table unit (plain + prefixed spelling, %d units) in every tier: neg, 1/q, 2/q, "
                          "q/2, q*2, 2*q, 7 powers, q op q' for the four operators; magnitudes 4, 3, [3,0.25,5]"
                          % (len(_windows()[0]) + len(_windows()[1]) - 1),
                    builtin_sum="lists of 1..3 quantities over %d units, scalar and array" % len(SUM_LIST_UNITS),
                    operations=OPS + ["neg", "pow"], tolerance=TOL,
                    pairs="all ordered pairs of the unit alphabet; full magnitude grid on core x core (4 pairs for "
                          "sums that must be refused), %d magnitude pairs elsewhere"
                          % len(WIN_MAGS_THOROUGH if tier == "thorough" else WIN_MAGS)),
        chains=dict(units=[R.render(R.unit(*u)) for u in (CHAIN_UNITS_THOROUGH if tier == "thorough" else CHAIN_UNITS)],
                    shapes=["(a*|/b) op c", "c op (a*|/b)", "(a**p) op c", "c op (a**p)"],
                    third_operand="every chain unit or the plain number 2", magnitudes=CHAIN_MAGS,
                    power_bases=[R.render(R.unit(*u)) for u in CHAIN_POW_UNITS],
                    powers=["%d/%d as %s" % (n, d, f) for (n, d), f in CHAIN_POWERS]),
        histories=dict(units=[R.render(R.unit(*u)) for u in
                              (HIST_UNITS_THOROUGH if tier == "thorough" else HIST_UNITS)],
                       earlier_operation=["c = a %s b" % o for o in ("*", "/", "+", "-")] + ["c = a**2", "c = -a"],
                       in_place_method_on_c=HIST_METHODS, magnitudes=HIST_MAGS,
                       judged_afterwards=["a op b", "b op a", "a op a", "b op b (op in + - * /)", "a**2", "a**(1,2)",
                                          "b**2", "b**-1", "-a", "a*2", "2/b"],
                       cases=tot("hist:"), skipped_not_demanded=h.get("hist-skipped:not-demanded", 0)),
        zero_exponent_terms="units() is read back with zero-exponent terms; reported as units-zero-exponent "
                            "wherever the units bookkeeping is demanded",
        caps_hit=[],
        table_leaks_restored=total.extra.get("table_leaks_restored", 0),
    )

MANIFEST = dict(
    text="Bounded exhaustive comparison of Quantity + - * / neg ** with arithmetic on base-dimension values: all "
         "ordered operand pairs over 23 core units (prefixed, compound, fractional-dimension, dimensionless, %*m-like) plus a "
         "seed-selected window of 12-13 further linear table units (thorough: every linear table unit, plain and "
         "prefixed: 197 units, all 38 809 ordered pairs, ~1.47 million cases), magnitudes {0,2,-3,0.5,1e10} and arrays, a plain int/float on either side of every operator, "
         "18 exponents n/d (d<=6) in int/pair/float/Fraction/NumPy-scalar form, plain 0 and builtin sum(), a complete "
         "per-unit sweep of the whole unit table in every tier. Checked per case: base value (rel 1e-12), "
         "dimension vector, units bookkeeping (left units for sums, exponent sums, exponent*p, folding when all "
         "dimensions vanish), refusal of sums of different dimension (incl. number +- angle). Chains: operands that "
         "are results of * / ** ((a op1 b) op2 c, c op2 (a op1 b), (a**p) op2 c) over 10 units (18 in thorough). "
         "Zero exponents (0, 0.0, (0,1), (0,3), Fraction, NumPy) on every core/window unit and on every table unit: "
         "reported units are read back with their zero-exponent terms, so 'm0' is a unit that was not dropped. "
         "Histories: live operands a, b (13 units, 21 in thorough, all ordered pairs, scalar and array) that already "
         "took part in c = a*b, a/b, a+b, a-b, a**2 or -a, with c left alone, rebased in place or converted in place "
         "to its own units, are used again in a op b, b op a, a op a, b op b, a**p, b**p, -a, a*2, 2/b and judged like "
         "fresh operands.",
    note="Trusted: the published unit tables as data, float64 arithmetic of the reference, the reading of units() "
         "text through the table's spelling dictionary. Units bookkeeping is not demanded where the expected units "
         "have linearly dependent dimension vectors (partial cancellation, dimensionless units) and for negation; "
         "magnitudes outside the alphabet rely on the small-scope hypothesis.",
    technique="bounded exhaustive enumeration of operand pairs on the real class, reference model over base values",
)
