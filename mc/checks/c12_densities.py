"""C12 - densities, volume and masses of matter are mutually consistent.

E2 bounded enumeration on the real Element / Substance / Material classes.

  composite  Element B, O{17-2}, [p], [e], and B / O{17-2} with proportion 2 / 0.5; Substance H2O, Ca(OH)2, C2H5OH (formula string and dictionary input) and
             nucleon-first / nucleon-last substances [p][e], [e][p], [p]2O, O[n]2; materials starting / ending
             with a nucleon substance; Material by
             number fractions (string and dictionary input, 2 and 3 components) and by mass fractions (string and
             dictionary input);
  given      a mass density {0.997, 19.3, 1.2e-3 g/cm3} written in {g/cm3, kg/m3, kg/l}, or a number density
             {1e22, 2.5e19, 1e10 cm-3} written in {cm-3, m-3};
  volume     none, or {1, 2.5 l} written in {l, cm3, m3};  isotope mode natural / most abundant.

  history    E1 exploration on LIVE composites carrying a density: Substance H2O and Material by number / mass
             fractions (string and dictionary input) x given {rho, n} x volume {none, 2.5 l} x both isotope modes x
             every sequence of 1..2 (thorough 3) add() calls from {existing first, existing last, new component},
             unpruned; after the last step O1-O5 must hold for the final amounts (reference: a dict).

  operand    the density-carrying composite w as an operand: s = a + w, w + a, a += w, w * 2 (a shares a component
             with w or not), then 1 (thorough 2) add() calls on the RESULT, then w is re-read: O1-O5 must still hold
             for w with its own amounts.  Reads with a component selection (data_matter / data_composite, both
             `quantity` flags) are made between the steps of every history.

  live pool  TWO density-carrying objects alive at the same time (every ordered pair, twins included, of Element B,
             Substance H2O, Substance Ca(OH)2, Material by number fractions, Material by mass fractions; each object
             either {rho given, no volume} or {n given, volume}; the two objects hold different density values and
             volumes), both constructed BEFORE anything is read; then every schedule of 0..2 (thorough 3) steps
             from {read object i, add-existing on object i, add-new on object i} (i = 0, 1), then both objects are
             read (full read-out, then every selection).  Every read must satisfy O1-O5 for the amounts of the
             object that was asked: nothing a read or a modification of one object does may reach the other one.
             Class-level containers of the materials classes are restored between cases.

  selection  every selection (each single component, each pair) of data_matter() and data_composite(): exactly the
             selected rows, every column equal to the row of the full table (static cases with the first density
             value in canonical units, and the final object of every history).

Oracle (statement only; m_i = component mass the object reports itself, amounts a_i = what the caller gave):
  O1  the given density is reported back unchanged (it is the one "attached");
  O2  rho = n * M_formula with M_formula = sum a_i m_i            (number-type composites)
      rho = sum n_i m_i                                           (every composite; this is O2 and O5 combined and
                                                                   does not depend on how a formula unit of a
                                                                   mass-fraction material is normalised)
  O3  M = rho * V;   O4  sum rho_i = rho and sum M_i = M (both the 'sum' row and the sum of the rows);
  O5  n_i = a_i * n (number-type composites);  n_i : n_j = p_i/m_i : p_j/m_j (mass-fraction materials);
  O6  all reported numbers are the same (rel 1e-12) for every unit spelling of the same physical input.

Not demanded: the N column and the 'avg' row; what `obj.mass` of an Element means when no volume is given;
whether the caller's Quantity objects are converted in place (C07 territory); zero / negative inputs; both
densities given at once; the absolute normalisation of a formula unit of a mass-fraction material.
"""
import itertools

from ..common import Shard, failure, outcome, HarnessError
from ..refmodels import materials_ref as R

PROPERTY = "C12"
LEVEL = "exploration"
RULE = ("a case is one (composite, input form, isotope mode, given density kind/value/unit, volume value/unit); all "
        "distinct by construction; every case is non-trivial (a density is always attached); cases written in a "
        "non-canonical unit are additionally compared with the canonical spelling of the same physical input; "
        "history: every (start composite, isotope mode, given density, volume, add() sequence), none pruned; "
        "live pool: every (ordered pair of composites, per-object configuration, isotope mode, schedule of reads / "
        "add() calls on either object), none pruned")
ASSUMPTIONS = [
    "component masses are those the object reports (C10); the Dalton in grams is read from the unit table row 'Da'",
    "unit spellings are related by exact decimal factors (kg/m3 = 1e-3 g/cm3, kg/l = g/cm3, m-3 = 1e-6 cm-3, "
    "l = 1e3 cm3, m3 = 1e6 cm3) held in this file, not taken from the library",
    "relations hold to rel 1e-10, unit independence to rel 1e-12",
]

# value written in unit u  =  canonical value * FACTOR[u]
RHO_UNITS = {"g/cm3": 1.0, "kg/m3": 1000.0, "kg/l": 1.0}
N_UNITS = {"cm-3": 1.0, "m-3": 1e6}
V_UNITS = {"l": 1.0, "cm3": 1000.0, "m3": 0.001}
RHO_VALUES = [0.997, 19.3, 1.2e-3]          # g/cm3
N_VALUES = [1e22, 2.5e19, 1e10]             # cm-3
V_VALUES = [None, 1.0, 2.5]                 # l

# id -> (class, input form, constructor argument, amounts {component: a_i}, mode)
COMPOSITES = {
    "element:B": ("Element", "expr", "B", {"B": 1}, "number"),
    "element:O{17-2}": ("Element", "expr", "O{17-2}", {"O{17-2}": 1}, "number"),
    "substance:H2O:str": ("Substance", "str", "H2O", {"H": 2, "O": 1}, "number"),
    "substance:H2O:dict": ("Substance", "dict", {"H": 2, "O": 1}, {"H": 2, "O": 1}, "number"),
    "substance:Ca(OH)2:str": ("Substance", "str", "Ca(OH)2", {"Ca": 1, "O": 2, "H": 2}, "number"),
    "substance:Ca(OH)2:dict": ("Substance", "dict", {"Ca": 1, "O": 2, "H": 2}, {"Ca": 1, "O": 2, "H": 2}, "number"),
    "substance:C2H5OH:str": ("Substance", "str", "C2H5OH", {"C": 2, "H": 6, "O": 1}, "number"),
    "material:number:str": ("Material", "str", "0.2 <H2O> 0.3 <NaCl>", {"H2O": 0.2, "NaCl": 0.3}, "number"),
    "material:number:dict": ("Material", "dict", {"H2O": 0.2, "NaCl": 0.3}, {"H2O": 0.2, "NaCl": 0.3}, "number"),
    "material:number:dict3": ("Material", "dict", {"N2": 78.084, "O2": 20.946, "Ar": 0.934},
                              {"N2": 78.084, "O2": 20.946, "Ar": 0.934}, "number"),
    "material:number:single": ("Material", "dict", {"H2O": 1.0}, {"H2O": 1.0}, "number"),
    "material:mass:str": ("Material", "str", "0.2 <H2O> 0.3 <NaCl>", {"H2O": 0.2, "NaCl": 0.3}, "mass"),
    "material:mass:dict": ("Material", "dict", {"H2O": 0.2, "NaCl": 0.3}, {"H2O": 0.2, "NaCl": 0.3}, "mass"),
    "material:mass:dict3": ("Material", "dict", {"N2": 75.5, "O2": 23.2, "Ar": 1.3},
                            {"N2": 75.5, "O2": 23.2, "Ar": 1.3}, "mass"),
    # composites whose FIRST (or only, or last) component is a nucleon: their masses come from the unit table rows
    # [m_p], [m_e] instead of the isotope table, in both orders
    "element:[p]": ("Element", "expr", "[p]", {"[p]": 1}, "number"),
    "element:[e]": ("Element", "expr", "[e]", {"[e]": 1}, "number"),
    "substance:[p][e]:str": ("Substance", "str", "[p][e]", {"[p]": 1, "[e]": 1}, "number"),
    "substance:[e][p]:str": ("Substance", "str", "[e][p]", {"[e]": 1, "[p]": 1}, "number"),
    "substance:[e][p]:dict": ("Substance", "dict", {"[e]": 1, "[p]": 1}, {"[e]": 1, "[p]": 1}, "number"),
    "substance:[p]2O:str": ("Substance", "str", "[p]2O", {"[p]": 2, "O": 1}, "number"),
    "substance:O[n]2:str": ("Substance", "str", "O[n]2", {"O": 1, "[n]": 2}, "number"),
    "material:number:[p]-first:dict": ("Material", "dict", {"[p]": 0.2, "H2O": 0.3}, {"[p]": 0.2, "H2O": 0.3},
                                       "number"),
    "material:number:[p]-first:str": ("Material", "str", "0.2 <[p]> 0.3 <H2O>", {"[p]": 0.2, "H2O": 0.3}, "number"),
    "material:number:[p]-last:str": ("Material", "str", "0.3 <H2O> 0.2 <[p]>", {"H2O": 0.3, "[p]": 0.2}, "number"),
    "material:mass:[e]-first:dict": ("Material", "dict", {"[e]": 0.2, "H2O": 0.3}, {"[e]": 0.2, "H2O": 0.3}, "mass"),
}
# the `proportion` constructor option of a Substance (how many formula units it stands for as a component of a
# material) must not enter its own densities: n is per formula unit, the rows use the atom counts.
# Element(..., proportion != 1) is included since the repair "composite_mass = proportion x atomic mass" (before it
# the row used proportion * n while n was derived from the mass of ONE atom: rho_B = 1.994 for rho = 0.997).
COMPOSITE_KW = {}
COMPOSITES["element:B:proportion=2"] = ("Element", "expr", "B", {"B": 2}, "number")
COMPOSITES["element:O{17-2}:proportion=0.5"] = ("Element", "expr", "O{17-2}", {"O{17-2}": 0.5}, "number")
for _cid, _p in (("substance:H2O:str", 2), ("substance:H2O:dict", 0.5), ("substance:Ca(OH)2:str", 0.5),
                 ("substance:Ca(OH)2:dict", 2)):
    COMPOSITES[_cid + ":proportion=%s" % _p] = COMPOSITES[_cid]
    COMPOSITE_KW[_cid + ":proportion=%s" % _p] = dict(proportion=_p)
COMPOSITE_KW["element:B:proportion=2"] = dict(proportion=2)
COMPOSITE_KW["element:O{17-2}:proportion=0.5"] = dict(proportion=0.5)
NUCLEON_COMPOSITES = [c for c in COMPOSITES if "[" in c]      # isotope mode is irrelevant: natural=True only

# operation histories on live composites that carry a density (E1): every sequence of 1..HDEPTH add() calls; the
# operators + and * return a new composite WITHOUT the density (nothing of this statement can be observed on it),
# so only the in-place add() belongs to this property
HIST_STARTS = ["substance:H2O:str", "substance:H2O:dict", "material:number:str", "material:number:dict",
               "material:mass:str", "material:mass:dict"]
HIST_OPS = {
    "Substance": [["add", "H", 2], ["add", "O", 1], ["add", "C", 1]],
    "Material": [["add", "H2O", 0.5], ["add", "NaCl", 0.1], ["add", "KCl", 0.1]],
}
HIST_GIVEN = [("rho", 0.997), ("n", 1e22)]
HIST_VOLUMES = [None, 2.5]
HDEPTH = dict(quick=2, thorough=3)
# the density-carrying composite w as an OPERAND: s = a + w, s = w + a, a += w, s = w * 2 (2 * w for a material),
# then the RESULT s is modified with add() (1 call; thorough 2) and w is re-read: all relations must still hold for w
OPERAND_FORMS = ["a+w", "w+a", "a+=w", "w*2"]
OPERAND_PARTNERS = {      # the other operand a (no density): sharing a component with w / disjoint
    "Substance": {"shared": "CO", "disjoint": "N2"},
    "Material": {"shared": {"NaCl": 1, "KCl": 1}, "disjoint": {"O2": 1}},
}
ODEPTH = dict(quick=1, thorough=2)

# several density-carrying objects ALIVE AT THE SAME TIME: the statement speaks about each object's own densities,
# so whatever is read from / done to one object must not reach the other one.  Object 0 and object 1 of a pool hold
# different density values and volumes (a table of the other object is then numerically wrong for the one asked).
LIVE_COMPOSITES = ["element:B", "substance:H2O:str", "substance:Ca(OH)2:dict", "material:number:dict",
                   "material:mass:str"]
LIVE_CONFIGS = {"rho": ("rho", False), "n+V": ("n", True)}          # name -> (given kind, volume attached)
LIVE_VALUES = [dict(rho=0.997, n=1e22, vol=2.5), dict(rho=19.3, n=2.5e19, vol=1.0)]     # by position in the pool
LIVE_ADDS = {          # step name -> index into HIST_OPS[class]
    "add-existing": 0, "add-new": 2,
}
LDEPTH = dict(quick=2, thorough=3)
LIVE_NATURAL = dict(quick=[True], thorough=[True, False])

_DA = None


def _live_classes():
    from scinumtools.materials import Element, Substance, Material
    from scinumtools.materials.matter import Matter
    from scinumtools.materials.composite import Composite, Component
    return [Matter, Composite, Component, Element, Substance, Material]


def init_worker():
    global _DA
    from ..isolation import tables_snapshot, class_state_snapshot
    from scinumtools.units.settings import UNIT_STANDARD
    tables_snapshot()
    class_state_snapshot(_live_classes())
    _DA = UNIT_STANDARD["Da"].magnitude          # grams (the table's base mass unit is the gram)
    if UNIT_STANDARD["g"].magnitude != 1.0:
        raise HarnessError("unit table: gram is not the base mass unit")


def _restore():
    """between cases: unit tables and every class-level container / mutable default of the materials classes are
    put back, so that a case never depends on what ran before it in the same worker (a case that needs such a
    state creates it itself: live pool)"""
    from ..isolation import tables_restore, class_state_restore
    tables_restore()
    class_state_restore()


def _build(cid, natural, kind, value, unit, vol, vunit):
    from scinumtools.materials import Element, Substance, Material, Norm
    from scinumtools.units import Quantity
    cls, form, arg, amounts, mode = COMPOSITES[cid]
    kw = {}
    if kind == "rho":
        kw["mass_density"] = Quantity(value * RHO_UNITS[unit], unit)
    else:
        kw["number_density"] = Quantity(value * N_UNITS[unit], unit)
    if vol is not None:
        kw["volume"] = Quantity(vol * V_UNITS[vunit], vunit)
    if isinstance(arg, dict):
        arg = dict(arg)
    kw.update(COMPOSITE_KW.get(cid, {}))
    if cls == "Element":
        return Element(arg, natural=natural, **kw)
    if cls == "Substance":
        return Substance(arg, natural=natural, **kw)
    return Material(arg, natural=natural,
                    norm_type=Norm.NUMBER_FRACTION if mode == "number" else Norm.MASS_FRACTION, **kw)


def _observe(cid, obj, has_vol, amounts=None):
    """all numbers the statement talks about, as plain floats in g/cm3, cm-3, g, Da"""
    cls, form, arg, amounts0, mode = COMPOSITES[cid]
    amounts = amounts0 if amounts is None else amounts
    keys = list(amounts)
    obs = dict(rho=float(obj.mass_density.value("g/cm3")), n=float(obj.number_density.value("cm-3")))
    if has_vol:
        obs["M"] = float(obj.mass.value("g"))
    if cls == "Element":
        obs["m"] = [float(obj.component_mass.value("Da"))]
    else:
        dc = obj.data_components(quantity=False)
        obs["m"] = [float(dc[k].mass) for k in keys]
    dm = obj.data_matter(quantity=False)
    obs["n_i"] = [float(dm[k].n) for k in keys]
    obs["rho_i"] = [float(dm[k].rho) for k in keys]
    if has_vol:
        obs["M_i"] = [float(dm[k].M) for k in keys]
    if cls != "Element":                    # an element table has a single row and no statistics rows
        obs["sum_rho"] = float(dm["sum"].rho)
        if has_vol:
            obs["sum_M"] = float(dm["sum"].M)
    return obs


def _relations(cid, kind, value, vol, obs, amounts=None):
    """first violated relation as (behaviour, expected, observed) or None"""
    cls, form, arg, amounts0, mode = COMPOSITES[cid]
    amounts = amounts0 if amounts is None else amounts
    a = [amounts[k] for k in amounts]
    m = obs["m"]
    tol = 1e-10
    # O1 the given density is kept
    if kind == "rho" and not R.close(obs["rho"], value, tol):
        return "given-mass-density-changed", value, obs["rho"]
    if kind == "n" and not R.close(obs["n"], value, tol):
        return "given-number-density-changed", value, obs["n"]
    # O2 rho = n * M_formula
    if mode == "number":
        mf = sum(ai * mi for ai, mi in zip(a, m))
        if not R.close(obs["rho"], obs["n"] * mf * _DA, tol):
            return "rho!=n*M_formula", obs["n"] * mf * _DA, obs["rho"]
    # O5 component number densities
    if mode == "number":
        for ai, ni in zip(a, obs["n_i"]):
            if not R.close(ni, ai * obs["n"], tol):
                return "n_i!=amount*n", [x * obs["n"] for x in a], obs["n_i"]
    else:
        am = [ai / mi for ai, mi in zip(a, m)]
        for j in range(1, len(a)):
            if not R.close(obs["n_i"][j] * am[0], obs["n_i"][0] * am[j], tol):
                return "n_i-not-proportional-to-amount", [x / am[0] for x in am], \
                    [x / obs["n_i"][0] for x in obs["n_i"]]
    # O2+O5 rho = sum n_i m_i
    s = sum(ni * mi for ni, mi in zip(obs["n_i"], m)) * _DA
    if not R.close(obs["rho"], s, tol):
        return "rho!=sum(n_i*m_i)", s, obs["rho"]
    # O4 component mass densities add up
    if not R.close(sum(obs["rho_i"]), obs["rho"], tol):
        return "sum(rho_i)!=rho", obs["rho"], sum(obs["rho_i"])
    if "sum_rho" in obs and not R.close(obs["sum_rho"], obs["rho"], tol):
        return "sum-row-rho!=rho", obs["rho"], obs["sum_rho"]
    if vol is not None:
        # O3 total mass; litre -> cm3 by the exact factor 1000
        if not R.close(obs["M"], obs["rho"] * vol * 1000.0, tol):
            return "M!=rho*V", obs["rho"] * vol * 1000.0, obs["M"]
        if not R.close(sum(obs["M_i"]), obs["M"], tol):
            return "sum(M_i)!=M", obs["M"], sum(obs["M_i"])
        if "sum_M" in obs and not R.close(obs["sum_M"], obs["M"], tol):
            return "sum-row-M!=M", obs["M"], obs["sum_M"]
    return None


def _selection_reads(obj, keys):
    """every selection (each single component, each pair) of data_matter() and data_composite(): exactly the
    selected rows, and every column of a selected row equals the row of the full table; returns None or
    (behaviour, expected, observed)"""
    for name in ("data_matter", "data_composite"):
        fn = getattr(obj, name)
        full = fn(quantity=False)
        sels = [[k] for k in keys] + [list(c) for c in itertools.combinations(keys, 2)]
        for sel in sels:
            tab = fn(components=list(sel), quantity=False)
            rows = [k for k in tab.keys() if k not in ("avg", "sum")]
            if rows != sel:
                return "selection-wrong-rows:" + name, sel, rows
            for k in sel:
                for col, v in tab[k].items():
                    w = full[k][col]
                    if isinstance(v, (int, float)) or hasattr(v, "dtype"):
                        if not R.close(v, w, 1e-12):
                            return "selection-row-differs:%s:%s" % (name, col), {k: float(w)}, {k: float(v)}
    return None


def _flat(obs):
    out = []
    for k in sorted(obs):
        v = obs[k]
        out.extend((k, x) for x in (v if isinstance(v, list) else [v]))
    return out


def check_case(cid, natural, kind, value, unit, vol, vunit):
    cls, form, arg, amounts, mode = COMPOSITES[cid]
    case = dict(composite=cid, natural=natural, kind=kind, value=value, unit=unit, volume=vol, vunit=vunit)
    tags = ["class:" + cls, "input:" + form, "mode:" + mode, "given:" + kind, "unit:" + unit,
            "components=%d" % len(amounts), "natural" if natural else "abundant",
            "volume:" + (vunit if vol is not None else "none")]
    if len(amounts) >= 2:
        tags.append("components>=2")

    selection = []

    def run(u, vu):
        obj = _build(cid, natural, kind, value, u, vol, vu)
        obs_ = _observe(cid, obj, vol is not None)
        if cls != "Element" and (u, vu) == (unit, vunit) and value in (RHO_VALUES[0], N_VALUES[0]) \
                and unit in ("g/cm3", "cm-3") and vunit in (None, "l"):
            selection.append(_selection_reads(obj, list(amounts)))
        return obs_
    o = outcome(run, unit, vunit)
    if o[0] == "err":
        return failure("matter", case, "constructed and tabulated", list(o), tags, "raises:" + o[1])
    obs = o[1]
    if selection and selection[0]:
        return failure("selection", case, selection[0][1], selection[0][2], tags, selection[0][0])
    bad = _relations(cid, kind, value, vol, obs)
    if bad:
        return failure("matter", case, bad[1], bad[2], tags, bad[0])
    # O6 unit independence: compare with the canonical spelling of the same physical input
    cu = "g/cm3" if kind == "rho" else "cm-3"
    cvu = "l" if vol is not None else None
    if unit != cu or vunit != cvu:
        o2 = outcome(run, cu, cvu)
        if o2[0] == "err":
            return None             # the canonical case reports that by itself
        for (k, x), (k2, y) in zip(_flat(obs), _flat(o2[1])):
            if not R.close(x, y, 1e-12):
                return failure("units", case, {k: y}, {k: x}, tags, "depends-on-unit:" + k.split("_")[0])
    return None


def _light_reads(obj):
    """table reads with a component selection and both `quantity` flags, between the steps and before the final
    full read-out (a read must never change what a later read returns)"""
    ks = list(obj.components)
    obj.data_matter(components=[ks[0]], quantity=False)
    obj.data_matter(components=[ks[-1]], quantity=True)
    obj.data_composite(components=[ks[0]], quantity=False)


def check_operand(cid, natural, kind, value, vol, form, partner, adds):
    """w carries the density and is an operand; the result is modified with add(); w is re-read"""
    from scinumtools.materials import Substance, Material, Norm
    cls, inform, arg, amounts0, mode = COMPOSITES[cid]
    case = dict(composite=cid, natural=natural, kind=kind, value=value, volume=vol, form=form, partner=partner,
                adds=adds)
    tags = ["operand", "form:" + form, "partner:" + partner, "class:" + cls, "input:" + inform, "mode:" + mode,
            "given:" + kind, "natural" if natural else "abundant", "volume:" + ("l" if vol is not None else "none"),
            "adds=%d" % len(adds)]

    def run():
        w = _build(cid, natural, kind, value, "g/cm3" if kind == "rho" else "cm-3", vol,
                   "l" if vol is not None else None)
        parg = OPERAND_PARTNERS[cls][partner]
        if cls == "Substance":
            a = Substance(parg, natural=natural)
        else:
            a = Material(dict(parg), natural=natural,
                         norm_type=Norm.NUMBER_FRACTION if mode == "number" else Norm.MASS_FRACTION)
        if form == "a+w":
            s_ = a + w
        elif form == "w+a":
            s_ = w + a
        elif form == "a+=w":
            s_ = a
            s_ += w
        elif cls == "Material":
            s_ = 2 * w
        else:
            s_ = w * 2
        for key, amount in adds:
            s_.add(key, amount)
        _light_reads(w)
        return _observe(cid, w, vol is not None, amounts0)
    o = outcome(run)
    if o[0] == "err":
        return failure("operand", case, "executed and tabulated", list(o), tags, "raises:" + o[1])
    bad = _relations(cid, kind, value, vol, o[1], amounts0)
    if bad:
        return failure("operand", case, bad[1], bad[2], tags, "operand-changed:" + bad[0])
    return None


def _operand_cases(cid, depth):
    cls = COMPOSITES[cid][0]
    ops = [tuple(o[1:]) for o in HIST_OPS[cls]]
    for form in OPERAND_FORMS:
        for partner in (["shared", "disjoint"] if form != "w*2" else ["disjoint"]):
            for n in range(1, depth + 1):
                for adds in itertools.product(ops, repeat=n):
                    yield form, partner, [list(a) for a in adds]


def check_history(cid, natural, kind, value, vol, history):
    """add() calls on a live composite with a density attached; all relations must hold for the final amounts"""
    cls, form, arg, amounts0, mode = COMPOSITES[cid]
    case = dict(composite=cid, natural=natural, kind=kind, value=value, volume=vol, history=history)
    amounts = R.model_run(amounts0, history)
    tags = R.history_tags(amounts0, history) + ["class:" + cls, "input:" + form, "mode:" + mode, "given:" + kind,
                                                "natural" if natural else "abundant",
                                                "volume:" + ("l" if vol is not None else "none")]

    def run():
        obj = _build(cid, natural, kind, value, "g/cm3" if kind == "rho" else "cm-3", vol,
                     "l" if vol is not None else None)
        obj = R.real_run(obj, history, None, cls == "Material", after_step=_light_reads)
        _light_reads(obj)
        obs_ = _observe(cid, obj, vol is not None, amounts)
        selection.append(_selection_reads(obj, list(amounts)))
        return obs_
    selection = []
    o = outcome(run)
    if o[0] == "err":
        return failure("history", case, "history executed and tabulated", list(o), tags, "raises:" + o[1]), amounts
    if selection and selection[0]:
        return failure("history", case, selection[0][1], selection[0][2], tags, selection[0][0]), amounts
    bad = _relations(cid, kind, value, vol, o[1], amounts)
    if bad:
        return failure("history", case, bad[1], bad[2], tags, bad[0]), amounts
    return None, amounts


def _live_steps(pair):
    """the schedule alphabet of a pool: read / add-existing / add-new on object 0 or 1 (an Element has no add())"""
    steps = []
    for i, cid in enumerate(pair):
        steps.append(["read", i])
        if COMPOSITES[cid][0] != "Element":
            steps.extend([name, i] for name in LIVE_ADDS)
    return steps


def _live_schedules(pair, depth):
    steps = _live_steps(pair)
    for n in range(0, depth + 1):
        for sched in itertools.product(steps, repeat=n):
            yield [list(s) for s in sched]


def check_live(pair, configs, natural, schedule):
    """two density-carrying objects alive at the same time; every read of either must satisfy O1-O5 for ITS amounts"""
    pair, configs = list(pair), list(configs)
    case = dict(live=pair, configs=configs, natural=natural, schedule=schedule)
    classes = [COMPOSITES[c][0] for c in pair]
    tags = ["live-pool", "classes:" + "+".join(classes), "configs:" + "+".join(configs),
            "twin" if pair[0] == pair[1] else ("same-class" if classes[0] == classes[1] else "different-class"),
            "natural" if natural else "abundant", "schedule=%d" % len(schedule)] + \
           sorted(set("step:" + s[0] for s in schedule))
    given = []
    for i, cfg in enumerate(configs):
        kind, has_vol = LIVE_CONFIGS[cfg]
        given.append((kind, LIVE_VALUES[i][kind], LIVE_VALUES[i]["vol"] if has_vol else None))
    full = schedule + [["read", 0], ["read", 1], ["select", 0], ["select", 1]]
    progress = [None]

    def run():
        objs = []
        for cid, (kind, value, vol) in zip(pair, given):
            objs.append(_build(cid, natural, kind, value, "g/cm3" if kind == "rho" else "cm-3", vol,
                               "l" if vol is not None else None))
        amounts = [dict(COMPOSITES[cid][3]) for cid in pair]
        for si, (name, i) in enumerate(full):
            progress[0] = (si, name, i)
            cid = pair[i]
            kind, value, vol = given[i]
            if name == "read":
                obs_ = _observe(cid, objs[i], vol is not None, amounts[i])
                bad_ = _relations(cid, kind, value, vol, obs_, amounts[i])
            elif name == "select":
                bad_ = None
                if COMPOSITES[cid][0] != "Element":
                    bad_ = _selection_reads(objs[i], list(amounts[i]))
            else:
                op = HIST_OPS[COMPOSITES[cid][0]][LIVE_ADDS[name]]
                objs[i].add(op[1], op[2])
                amounts[i] = R.model_apply(amounts[i], op)
                bad_ = None
            if bad_:
                return bad_
        return None
    o = outcome(run)

    def where():
        si, name, i = progress[0] if progress[0] else (-1, "construct", -1)
        prev = full[si - 1] if si > 0 else None
        t = ["at:" + name, "at-object=%d" % i,
             "previous:" + ("none" if prev is None else prev[0] + ("-same" if prev[1] == i else "-other"))]
        return t, dict(step=si, op=name, object=i)
    if o[0] == "err":
        t, w = where()
        return failure("live", case, dict(w, expected="executed and tabulated"), list(o), tags + t,
                       "live-pool:raises:" + o[1])
    if o[1]:
        t, w = where()
        return failure("live", case, dict(w, expected=o[1][1]), o[1][2], tags + t, "live-pool:" + o[1][0])
    return None


def _cases(cid, natural):
    for kind, values, units in (("rho", RHO_VALUES, RHO_UNITS), ("n", N_VALUES, N_UNITS)):
        for value in values:
            for unit in units:
                for vol in V_VALUES:
                    for vunit in (V_UNITS if vol is not None else [None]):
                        yield (cid, natural, kind, value, unit, vol, vunit)


def plan(tier, seed):
    shards = [("static", cid, nat) for cid in COMPOSITES for nat in (True, False)
              if nat or cid not in NUCLEON_COMPOSITES]
    for cid in HIST_STARTS:
        for nat in (True, False):
            for kind, value in HIST_GIVEN:
                shards.append(("history", cid, nat, kind, value, HDEPTH[tier]))
                shards.append(("operand", cid, nat, kind, value, ODEPTH[tier]))
    for a in LIVE_COMPOSITES:
        for b in LIVE_COMPOSITES:
            for nat in LIVE_NATURAL[tier]:
                shards.append(("live", a, b, nat, LDEPTH[tier]))
    return shards


def run_shard(desc):
    sh = Shard(PROPERTY)
    if desc[0] == "live":
        _, a, b, nat, depth = desc
        for ca in LIVE_CONFIGS:
            for cb in LIVE_CONFIGS:
                for sched in _live_schedules((a, b), depth):
                    bad = check_live((a, b), (ca, cb), nat, sched)
                    sh.evaluations += 1
                    sh.nontrivial += 1
                    sh.transitions += len(sched) + 4
                    sh.traces += 1
                    sh.count("live:schedule=%d" % len(sched))
                    for st in sched:
                        sh.count("live:step:" + st[0])
                    sh.count("live:" + ("twin" if a == b else "distinct"))
                    if bad:
                        sh.fail(bad)
                    _restore()
                    if len(sched) == 2 and len(sh.samples) < 1:
                        sh.sample(dict(live=[a, b], configs=[ca, cb], natural=nat, schedule=sched))
        return sh
    if desc[0] == "operand":
        _, cid, nat, kind, value, depth = desc
        for vol in HIST_VOLUMES:
            for form, partner, adds in _operand_cases(cid, depth):
                bad = check_operand(cid, nat, kind, value, vol, form, partner, adds)
                sh.evaluations += 1
                sh.nontrivial += 1
                sh.transitions += 1 + len(adds)
                sh.traces += 1
                sh.count("operand:" + form)
                if bad:
                    sh.fail(bad)
                _restore()
        sh.sample(dict(composite=cid, natural=nat, kind=kind, value=value, form="a+w", partner="shared",
                       adds=[list(HIST_OPS[COMPOSITES[cid][0]][0][1:])]))
        return sh
    if desc[0] == "history":
        _, cid, nat, kind, value, depth = desc
        cls, _, _, amounts0, _ = COMPOSITES[cid]
        for vol in HIST_VOLUMES:
            for h in R.histories(HIST_OPS[cls], depth):
                bad, amounts = check_history(cid, nat, kind, value, vol, h)
                sh.evaluations += 1
                sh.nontrivial += 1
                sh.transitions += len(h)
                sh.traces += 1
                sh.add_to_set("hstates", R.state_key("%s:%s:%s:%s" % (cid, nat, kind, vol), amounts))
                sh.add_to_set("hdepth", len(h))
                for t in R.history_tags(amounts0, h):
                    if t.startswith("last:"):
                        sh.count("history:" + t)
                if bad:
                    sh.fail(bad)
                _restore()
                if len(h) == 2 and len(sh.samples) < 1:
                    sh.sample(dict(composite=cid, natural=nat, kind=kind, value=value, volume=vol, history=h))
        return sh
    _, cid, nat = desc
    for c in _cases(cid, nat):
        bad = check_case(*c)
        sh.evaluations += 1
        sh.nontrivial += 1
        sh.count("%s:given=%s:%s" % (cid.split(":")[0], c[2], "fail" if bad else "ok"))
        sh.count("volume:" + ("none" if c[5] is None else "given"))
        if bad:
            sh.fail(bad)
        _restore()
        if c[4] == "kg/m3" and c[6] == "m3" and len(sh.samples) < 1:
            sh.sample(dict(composite=cid, natural=nat, kind=c[2], value=c[3], unit=c[4], volume=c[5], vunit=c[6]))
    return sh


def replay(rec):
    c = rec["case"]
    try:
        if "live" in c:
            return check_live(c["live"], c["configs"], c["natural"], c["schedule"])
        if "form" in c:
            return check_operand(c["composite"], c["natural"], c["kind"], c["value"], c["volume"], c["form"],
                                 c["partner"], c["adds"])
        if "history" in c:
            return check_history(c["composite"], c["natural"], c["kind"], c["value"], c["volume"], c["history"])[0]
        return check_case(c["composite"], c["natural"], c["kind"], c["value"], c["unit"], c["volume"], c["vunit"])
    finally:
        _restore()


def finish(total, tier, seed):
    h = total.hist
    for cls in ("element", "substance", "material"):
        for g in ("rho", "n"):
            if not (h.get("%s:given=%s:ok" % (cls, g)) or h.get("%s:given=%s:fail" % (cls, g))):
                raise HarnessError("vacuous run: no %s case with given %s" % (cls, g))
    if not h.get("volume:none") or not h.get("volume:given"):
        raise HarnessError("vacuous run: volume alphabet")
    if not any(k.endswith(":ok") for k in h):
        raise HarnessError("no case at all satisfied the relations - broken oracle or broken library")
    for key in ("add-existing", "add-new"):
        if not h.get("history:last:" + key):
            raise HarnessError("vacuous run: no history ends with " + key)
    for form in OPERAND_FORMS:
        if not h.get("operand:" + form):
            raise HarnessError("vacuous run: no operand case of form " + form)
    for key in ["live:twin", "live:distinct", "live:step:read"] + ["live:step:" + k for k in LIVE_ADDS] + \
            ["live:schedule=%d" % n for n in range(LDEPTH[tier] + 1)]:
        if not h.get(key):
            raise HarnessError("vacuous run: no live-pool case of kind " + key)
    hstates = total.sets.get("hstates", set())
    total.states = len(hstates)
    total.max_depth = max(total.sets.get("hdepth", {0}))
    return dict(
        states=len(hstates), transitions=total.transitions, traces_validated_against_impl=total.traces,
        max_depth=total.max_depth,
        history_bounds=dict(starts=HIST_STARTS, operations=HIST_OPS, given=HIST_GIVEN, volume_l=HIST_VOLUMES,
                            depth=HDEPTH[tier], isotope_modes=["natural", "abundant"],
                            pruning="none (every history executed)"),
        operand_bounds=dict(forms=OPERAND_FORMS, partners=OPERAND_PARTNERS, adds_depth=ODEPTH[tier],
                            adds=HIST_OPS, starts=HIST_STARTS, given=HIST_GIVEN, volume_l=HIST_VOLUMES),
        live_pool_bounds=dict(objects_alive=2, composites=LIVE_COMPOSITES, pairs="every ordered pair, twins included",
                              configs_per_object=LIVE_CONFIGS, values_by_position=LIVE_VALUES,
                              steps=["read"] + list(LIVE_ADDS), on_objects=[0, 1], schedule_depth=LDEPTH[tier],
                              final="read 0, read 1, every selection of 0, every selection of 1",
                              isotope_modes=["natural" if n else "abundant" for n in LIVE_NATURAL[tier]],
                              class_state="restored between cases (mc.isolation.class_state_restore)",
                              pruning="none (every schedule executed)"),
        bounds=dict(composites=sorted(COMPOSITES), mass_density_g_cm3=RHO_VALUES, mass_density_units=list(RHO_UNITS),
                    number_density_cm3=N_VALUES, number_density_units=list(N_UNITS), volume_l=V_VALUES,
                    volume_units=list(V_UNITS), isotope_modes=["natural", "abundant"]),
        exhaustive=True, caps_hit=[], window="none (both tiers enumerate the whole product)",
    )


MANIFEST = dict(
    text="Bounded-exhaustive enumeration on the real Element / Substance / Material classes: 31 composites (elements "
         "and nucleons, elements and substances (string and dictionary) with the proportion option 2 / 0.5, number- and mass-fraction materials from string and "
         "dictionary, 1-3 components, nucleon-first and nucleon-last composites in both orders) x given mass density "
         "(3 values x 3 unit spellings) or number density (3 values x 2 spellings) x volume (none, 2 values x 3 "
         "spellings) x both isotope modes (nucleon composites: one mode) = 5355 cases, complete in both tiers. "
         "Checked: the given density is kept, rho = n M_formula, rho = sum n_i m_i, n_i = amount_i n, sum rho_i = rho, "
         "M = rho V, sum M_i = M (rel 1e-10) and independence of the unit spelling (rel 1e-12). The same relations "
         "after every history of <= 2 (thorough 3) add() calls {existing first / last, new component} on 6 live "
         "composites x given rho / n x with / without volume x both isotope modes, with partial table reads between "
         "the steps; and with the density-carrying composite as an operand of +, += and * whose result is then "
         "modified with add() (the operand is re-read). Every selection (each single component, each pair) of "
         "data_matter() and data_composite() must return exactly the selected rows of the full table (static cases "
         "with the first density value, final object of every history). Live pool: two density-carrying objects "
         "alive at the same time (every ordered pair of 5 composites, twins included, each {rho, no volume} or "
         "{n, volume}, different values per object), both built before any read, then every schedule of <= 2 "
         "(thorough 3) steps from {read, add-existing, add-new} x {object 0, object 1}, then both are read in full "
         "and by every selection: each read must satisfy all relations for the object that was asked (quick: "
         "natural isotope mode, thorough: both). Class-level state of the materials classes is restored between "
         "cases, so every reported case reproduces in a fresh process.",
    note="Trusted: component masses reported by the object (C10), the Dalton row of the unit table, exact decimal "
         "factors between the unit spellings. Not covered: N column, avg row, both densities given, in-place "
         "conversion of the caller's Quantity objects.",
    technique="bounded product enumeration executed on the implementation, algebraic invariants + metamorphic unit test",
)
