"""C02 - a solver instance is unaffected by what it solved before.

E1 explicit-state exploration on the real ExpressionSolver: every sequence of solve() calls over a
per-configuration alphabet (valid expressions + expressions failing at every stage/token position)
up to depth D is executed on ONE shared instance without pruning; then a state-pruned BFS continues
to depth DMAX.  Invariant on every transition: outcome of the k-th call on the shared instance ==
outcome of the same call on a fresh instance (differential, no hand-written expectations).
"""
import struct
import itertools

from ..common import Shard, failure, outcome

PROPERTY = "C02"
LEVEL = "model_checking"
RULE = ("history = sequence of solve(text) calls on one instance (in configuration env_atom also 'SET:name=value' "
        "operations on the variable table the custom atom reads); all sequences over the per-configuration "
        "alphabet up to depth D executed unpruned (deviation-ordered by number of failing calls), then BFS with "
        "pruning on the canonical state (repr of token buffers + any other non-configuration instance attribute + "
        "variable table) to depth DMAX; non-trivial = history ending in a solve() that has >=1 failing call or >=1 "
        "variable-table change before it")
ASSUMPTIONS = [
    "everything solve() reads between calls is tokens.left/right (expr is overwritten on entry, operators/steps "
    "are never written): re-checked by a guard comparing operators/steps/atom identity after every call",
    "outcome equality = same float bits / same repr for values, same exception type and message for errors",
    "env_atom: the variable table is input of the call, not history - the reference is a fresh instance evaluated "
    "under the table as it is at the moment of the call (reference outcomes precomputed for every reachable table)",
]

DEPTH = dict(quick=3, thorough=4)
DMAX = dict(quick=6, thorough=8)


# ------------------------------------------------------------------ configurations
def _configs():
    from scinumtools.solver import (ExpressionSolver, AtomBase, OperatorBase, OperatorAdd, OperatorMul,
                                    OperatorPar, OperatorGt, Otype)

    class AtomBad(AtomBase):
        def __init__(self, value):
            if isinstance(value, str):
                v = value.strip()
                if v == "BAD":
                    raise KeyError("BAD atom")
                if v == "foo":
                    self.value = 3.0
                    return
            super().__init__(value)

    class AtomStr(AtomBase):
        def __init__(self, value):
            if isinstance(value, str) and "BAD" in value:
                raise KeyError("BAD atom")
            self.value = str(value)

        def __add__(self, other):
            return AtomStr(self.value + other.value)

        def __gt__(self, other):
            return AtomStr(len(self.value) > len(other.value))

    class OperatorSquare(OperatorBase):
        symbol = "~"

        def operate_unary(self, tokens):
            right = tokens.get_right()
            tokens.put_left(right * right)

    class OperatorCube(OperatorBase):
        symbol = "^"

        def operate_unary(self, tokens):
            left = tokens.get_left()
            tokens.put_left(left * left * left)

    default_calls = [
        # valid
        "1+2", "2*(3+4)", "pow(2,3)-1", "-2**2", "1<2&&3>2",
        # atom constructor raises on 1st / 2nd / last token
        "x+1", "1+x", "1+2*x",
        # unclosed parenthesis after 0 / 1 / 2 stored tokens
        "(1", "1+(2", "1*2+(3",
        # wrong number of arguments after stored tokens / too many
        "1+pow(2)", "pow(1,2,3)", "2*sin(1,2)",
        # missing operand found in the unary, power, multiplicative, additive, comparison, logical steps
        "1+", "1**", "1*", "*2", "1<", "1&&", "!", "2*3+",
        # failure inside a nested argument solve
        "1+(2+x)", "sin(1+)", "1+sin((2)", "pow(1,x)",
        # final 'unprocessed tokens' check
        "(1)(2)", "1 2",
        # functions whose evaluation raises warnings / produces nan or inf (numpy error state must not leak)
        "log(0)", "log10(0)", "sqrt(0-1)", "log(0-1)+1",
        # truncated number literals (lexer flags must not survive) and expressions that start with a sign
        "3*1e", "2e", "-(2+3)", "+sin(0)", "- 4*2",
        # blank expressions and blank arguments (nothing tokenized: nothing of an earlier call may be returned)
        "", "   ", "pow(3, )", "sin( )", "( )",
        # the same call interface with an Expression OBJECT instead of a string ("E:" prefix)
        "E:4*5", "E:1+(2", "E:2*(3+4)", "E:-(1+1)",
    ]
    # very deep nesting (a depth guard or the recursion limit must not leave anything behind): own small alphabet,
    # because one 300-deep solve costs as much as a hundred ordinary ones
    deep_calls = ["1+2", "(" * 40 + "1" + ")" * 40, "(" * 300 + "1" + ")" * 300, "(" * 301 + "1" + ")" * 300,
                  "(1", "2*(3+4)"]
    cfg = {}
    cfg["default"] = (lambda: ExpressionSolver(AtomBase), default_calls)
    cfg["default_deep"] = (lambda: ExpressionSolver(AtomBase), deep_calls)
    cfg["custom_atom"] = (lambda: ExpressionSolver(AtomBad), [
        "foo*2", "1+2", "(foo+1)*2", "foo<4",
        "BAD", "BAD+1", "1+BAD", "1+2*BAD", "foo*(BAD)", "pow(foo,BAD)", "1+(BAD+2)*3",
        "(foo", "foo+(1", "foo*", "foo+pow(1)", "(foo)(foo)",
    ])
    ops = {"par": OperatorPar, "mul": OperatorMul, "add": OperatorAdd}
    steps = [dict(operators=["par"], otype=Otype.ARGS),
             dict(operators=["add"], otype=Otype.BINARY),
             dict(operators=["mul"], otype=Otype.BINARY)]
    cfg["subset_order"] = (lambda: ExpressionSolver(AtomBase, dict(ops), [dict(s) for s in steps]), [
        "2*3+4", "(2*3)+4", "2", "2+3*4+5",
        "2-3", "x", "2*x", "(2", "2*(3", "2+3*(4", "2+", "2*", "*2", "+", "(2)(3)", "2+(3+x)", "2+(3*)",
    ])
    ops2 = {"square": OperatorSquare, "cube": OperatorCube, "add": OperatorAdd}
    steps2 = [dict(operators=["square", "cube"], otype=Otype.UNARY),
              dict(operators=["add"], otype=Otype.BINARY)]
    cfg["custom_unary"] = (lambda: ExpressionSolver(AtomBase, dict(ops2), [dict(s) for s in steps2]), [
        "~3 + 2^", "~3", "2^", "1 + 2", "~2 + ~3",
        "~", "^", "3~", "~x", "1 +", "+ 1", "~3 + x^", "2^ + ", "1 + ~", "^2",
    ])
    ops3 = {"add": OperatorAdd, "gt": OperatorGt, "par": OperatorPar}
    steps3 = [dict(operators=["par"], otype=Otype.ARGS),
              dict(operators=["add"], otype=Otype.BINARY),
              dict(operators=["gt"], otype=Otype.BINARY)]
    cfg["string_atom"] = (lambda: ExpressionSolver(AtomStr, dict(ops3), [dict(s) for s in steps3]), [
        "foo + bar", "(a + bb) > (c + d)", "a > b", "abc",
        "BAD", "a + BAD", "(a + BAD) > c", "(a", "a + (b", "a +", "> a", "a > (b + ", "(a)(b)", "a + (b +)",
    ])

    class Length(AtomBase):
        """atom whose addition converts the RIGHT operand in place (as the DIP numerical operators do): any reuse of an
        atom object across solve() calls (a cache) becomes visible"""
        FACT = {"m": 1.0, "cm": 0.01, "km": 1000.0}

        def __init__(self, value):
            if isinstance(value, str):
                num, unit = value.split()
                self.value, self.unit = float(num), unit
                if unit not in self.FACT:
                    raise KeyError("unknown unit " + unit)
            else:
                self.value, self.unit = value

        def to(self, unit):
            self.value = self.value * self.FACT[self.unit] / self.FACT[unit]
            self.unit = unit
            return self

        def __add__(self, other):
            other.to(self.unit)
            return Length((self.value + other.value, self.unit))

        def __repr__(self):
            return "Length(%r %s)" % (self.value, self.unit)

    class Flag(AtomBase):
        def __init__(self, value):
            self.value = (value.strip() == "true") if isinstance(value, str) else bool(value)

    def factory(value):
        """an atom FACTORY (a function, not a class) that returns atoms of two different types"""
        if isinstance(value, str) and value.strip() in ("true", "false"):
            return Flag(value)
        return AtomBase(value)

    cfg["atom_factory"] = (lambda: ExpressionSolver(factory), [
        "true", "false", "1+2", "2*3", "true && false", "-3 + 5", "2 * -3", "(1+2)*3", "1 < 2", "",
        "x", "1+", "(true", "true +", "1+x",
    ])
    ops4 = {"add": OperatorAdd, "par": OperatorPar}
    steps4 = [dict(operators=["par"], otype=Otype.ARGS), dict(operators=["add"], otype=Otype.BINARY)]
    cfg["mutating_atom"] = (lambda: ExpressionSolver(Length, dict(ops4), [dict(s) for s in steps4]), [
        "1 m + 50 cm", "50 cm", "50 cm + 1 m", "1 m", "(50 cm) + 2 km", "2 km + (1 m + 50 cm)",
        # the same argument text as LEFT and as RIGHT (converted in place) operand, next to different units: a result
        # atom of an argument that is kept and handed out again has been converted by the earlier call
        "1 m + (50 cm)", "2 km + (50 cm)", "(1 m + 50 cm) + 2 km",
        "1 m +", "1 furlong", "1 m + 1 furlong", "(50 cm", "1 m + (50 cm", "1 m + (50 cm + 1 furlong)", "(1 m)(50 cm)",
    ])

    # the documented customisation (docs/source/solver/index.rst, tests/solver/test_customisation.py): an atom that
    # resolves names from a variable table of the caller.  The table is part of the history: "SET:name=value" operations
    # change it between solve() calls; the oracle is a fresh instance evaluated under the CURRENT table.  Every name /
    # argument text occurs at top level, as a parenthesised argument and as a function argument, in accepted and in
    # rejected expressions, so that anything an instance remembers per text (atoms, argument values, whole results)
    # is asked for again after the table changed.
    env = dict(ENV0)

    class AtomVar(AtomBase):
        def __init__(self, value):
            if isinstance(value, str):
                v = value.strip()
                if v in env:
                    self.value = float(env[v])
                    return
                if v == "nil":
                    raise KeyError("nil")
            super().__init__(value)

    _ENVS["env_atom"] = env
    cfg["env_atom"] = (lambda: ExpressionSolver(AtomVar), [
        "foo*bar", "SET:foo=5", "1+sin(foo)", "(foo+bar)*2", "pow(foo+bar,foo)", "SET:bar=1", "2*(foo+bar)", "foo",
        "(foo)", "logb(foo,bar+1)+(foo+bar)", "SET:foo=3", "E:(foo+bar)*2", "bar<foo",
        # rejected after the argument was solved / while solving it / before it
        "(foo+bar)*nil", "pow(foo,nil)", "sin(foo)+", "(foo+bar", "nil*(foo+bar)", "foo+pow(bar)", "(foo)(bar)",
    ])
    return cfg


ENV0 = dict(foo=3, bar=4)
_ENVS = {}          # configuration name -> the live variable table its atoms read
_CFG = None
_FRESH = {}


def _is_set(text):
    return text.startswith("SET:")


def _env_reset(cname):
    if cname in _ENVS:
        _ENVS[cname].clear()
        _ENVS[cname].update(ENV0)


def _env_key(cname):
    return tuple(sorted(_ENVS[cname].items())) if cname in _ENVS else ()


def _env_set(cname, text):
    name, val = text[4:].split("=")
    _ENVS[cname][name] = int(val)


def _env_states(cname):
    """every variable table reachable with the SET operations of the alphabet"""
    vals = {k: {v} for k, v in ENV0.items()}
    for c in _CFG[cname][1]:
        if _is_set(c):
            name, val = c[4:].split("=")
            vals[name].add(int(val))
    names = sorted(vals)
    return [dict(zip(names, combo)) for combo in itertools.product(*[sorted(vals[n]) for n in names])]


def init_worker():
    global _CFG, _PRISTINE, _PRISTINE_RAW
    import numpy as np
    import warnings
    warnings.simplefilter("ignore")
    _CFG = _configs()
    if _PRISTINE is None:
        from scinumtools.solver import solver as _s, tokens as _t, expression as _e, operators as _o, atom as _a
        classes = [_s.ExpressionSolver, _t.Tokens, _e.Expression, _a.AtomBase]
        classes += [c for c in vars(_o).values() if isinstance(c, type) and issubclass(c, _o.OperatorBase)]
        _PRISTINE_RAW = dict(np=tuple(np.geterr().items()),
                             cls={(c, k): v for c in classes for k, v in vars(c).items()
                                  if not k.startswith("__") and not callable(v)
                                  and not isinstance(v, (staticmethod, classmethod, property))})
        _PRISTINE = _global_state()
        # reference outcomes of every call on a fresh instance, computed before any history has run
        for cname, (_, calls) in _CFG.items():
            for envstate in (_env_states(cname) if cname in _ENVS else [None]):
                if envstate is not None:
                    _ENVS[cname].clear()
                    _ENVS[cname].update(envstate)
                for c in calls:
                    _fresh(cname, c)
                    _restore_global_state()
            _env_reset(cname)


def _val(o):
    """canonical, comparable form of an outcome"""
    if o[0] == "err":
        return o
    v = getattr(o[1], "value", o[1])
    if hasattr(o[1], "unit"):
        return ("ok", "Length", repr(o[1]))
    if isinstance(v, float):
        return ("ok", "float", struct.pack(">d", v).hex())
    return ("ok", type(v).__name__, repr(v))


def _arg(text):
    if text.startswith("E:"):
        from scinumtools.solver.expression import Expression
        return Expression(text[2:])
    return text


def _fresh(cname, text):
    """outcome of the call on a fresh instance under the CURRENT variable table of the configuration"""
    if _is_set(text):
        return ("ok", "set", text)
    key = (cname, text, _env_key(cname))
    if key not in _FRESH:
        _FRESH[key] = _val(outcome(lambda: _CFG[cname][0]().solve(_arg(text))))
    return _FRESH[key]


def _call(cname, es, text):
    """one operation of a history on the shared instance"""
    if _is_set(text):
        _env_set(cname, text)
        return ("ok", "set", text)
    return _val(outcome(lambda: es.solve(_arg(text))))


_ADDR = __import__("re").compile(r" at 0x[0-9a-fA-F]+")


def _state(es, cname=None):
    """canonical state: the token buffers, every OTHER attribute the instance carries besides its configuration and the
    expression being overwritten on entry (none on the unchanged tree), and the variable table of the configuration"""
    extra = tuple((k, _ADDR.sub("", repr(v))[:400]) for k, v in sorted(vars(es).items())
                  if k not in ("tokens", "operators", "steps", "expr"))
    return (repr(es.tokens.left), repr(es.tokens.right), repr(extra), repr(_env_key(cname)))


def _guard(es, ref):
    return (list(es.operators.items()) == ref[0] and repr(es.steps) == ref[1] and es.tokens.atom is ref[2])


def _global_state():
    """process-wide state a solve() could leave behind: numpy's error handling and class-level attributes of the
    solver classes (an instance's later answers must not depend on them having been changed by an earlier call)"""
    import numpy as np
    from scinumtools.solver import solver as _s, tokens as _t, expression as _e, operators as _o, atom as _a
    out = [("np.geterr", tuple(sorted(np.geterr().items())))]
    classes = [_s.ExpressionSolver, _t.Tokens, _e.Expression, _a.AtomBase]
    classes += [c for c in vars(_o).values() if isinstance(c, type) and issubclass(c, _o.OperatorBase)]
    for c in classes:
        for k, v in sorted(vars(c).items()):
            if k.startswith("__") or callable(v) or isinstance(v, (staticmethod, classmethod, property)):
                continue
            out.append((c.__name__ + "." + k, repr(v)))
    return tuple(out)


_PRISTINE = None
_PRISTINE_RAW = None


def _restore_global_state():
    import numpy as np
    np.seterr(**dict(_PRISTINE_RAW["np"]))
    for (c, k), v in _PRISTINE_RAW["cls"].items():
        if getattr(c, k, None) is not v:
            try:
                setattr(c, k, v)
            except Exception:
                pass


def _run_history(cname, hist, sh, check_from=0):
    """Execute a history on one shared instance; check every transition >= check_from."""
    make, _ = _CFG[cname]
    _restore_global_state()
    _env_reset(cname)
    try:
        es, bad = _run_history_inner(cname, hist, sh, check_from)
        es_state = _state(es, cname)
    finally:
        _env_reset(cname)
    es = _Done(es, es_state)
    now = _global_state()
    if now != _PRISTINE and bad is None:
        diff = [b for a, b in zip(_PRISTINE, now) if a != b] if len(now) == len(_PRISTINE) else ["attributes added/removed"]
        bad = failure("global-state", dict(config=cname, history=list(hist)), "process-wide solver state unchanged",
                      repr(diff)[:300], tags=["process-wide-state"], behaviour="global-state-changed")
    _restore_global_state()
    return es, bad


class _Done:
    """the instance after a history together with its canonical state (taken before the variable table was reset)"""
    def __init__(self, es, state):
        self.es, self.state = es, state


def _hist_tags(cname, hist, k):
    """features of the history before call k (evaluated step by step under the table each call saw)"""
    tags = []
    keep = dict(_ENVS[cname]) if cname in _ENVS else None
    _env_reset(cname)
    failing = False
    for h in hist[:k]:
        if _is_set(h):
            _env_set(cname, h)
        elif _fresh(cname, h)[0] == "err":
            failing = True
    if keep is not None:
        _ENVS[cname].clear()
        _ENVS[cname].update(keep)
    tags.append("after-failing-call" if failing else "after-successful-calls-only")
    if any(_is_set(h) for h in hist[:k]):
        tags.append("variable-table-changed-between-calls")
    return tags


def _run_history_inner(cname, hist, sh, check_from=0):
    make, _ = _CFG[cname]
    es = make()
    ref = (list(es.operators.items()), repr(es.steps), es.tokens.atom)
    bad = None
    for k, text in enumerate(hist):
        got = _call(cname, es, text)
        if k >= check_from:
            exp = _fresh(cname, text)
            if got != exp and bad is None:
                bad = failure("history", dict(config=cname, history=list(hist[:k + 1])), exp, got,
                              tags=_hist_tags(cname, hist, k), behaviour="stale-state")
            if not _guard(es, ref) and bad is None:
                bad = failure("config-mutated", dict(config=cname, history=list(hist[:k + 1])),
                              "operators/steps/atom unchanged", "changed", behaviour="config-mutated")
    return es, bad


SOAK = dict(quick=4000, thorough=40000)


def _soak(cname, n, sh, stop_at=None):
    """ONE long history: the whole alphabet cycled on a single instance for n calls (state that accumulates over
    many successful calls - counters, budgets, caches - is invisible to depth-3 histories)"""
    make, calls = _CFG[cname]
    _restore_global_state()
    _env_reset(cname)
    es = make()
    bad = None
    for i in range(n if stop_at is None else stop_at + 1):
        text = calls[i % len(calls)]
        got = _call(cname, es, text)
        exp = _fresh(cname, text)
        if got != exp:
            bad = failure("soak", dict(config=cname, soak_index=i, call=text), exp, got,
                          tags=["long-history"], behaviour="stale-state-after-many-calls")
            break
    if bad is None and _global_state() != _PRISTINE:
        bad = failure("global-state", dict(config=cname, soak_index=n - 1, call="(whole soak)"),
                      "process-wide solver state unchanged", "changed", tags=["process-wide-state", "long-history"],
                      behaviour="global-state-changed")
    _restore_global_state()
    _env_reset(cname)
    return bad


def plan(tier, seed):
    init_worker()
    shards = []
    for cname in _CFG:
        if cname != "default_deep":
            shards.append(("soak", cname, None, SOAK[tier]))
    for cname, (_, calls) in _CFG.items():
        for first in range(len(calls)):
            shards.append(("unpruned", cname, first, DEPTH[tier]))
        shards.append(("bfs", cname, None, DMAX[tier]))
    return shards


def run_shard(desc):
    kind, cname, first, depth = desc
    sh = Shard(PROPERTY)
    calls = _CFG[cname][1]
    if kind == "soak":
        bad = _soak(cname, depth, sh)
        sh.evaluations += 1
        sh.transitions += depth
        sh.traces += 1
        sh.nontrivial += 1
        sh.max_depth = depth
        sh.add_extra("soak_calls_" + cname, depth)
        if bad:
            sh.fail(bad)
        return sh
    if kind == "unpruned":
        # all histories starting with calls[first], of every length 1..depth, ordered by number of failing calls
        nfail = {c: (1 if _fresh(cname, c)[0] == "err" else 0) for c in calls}
        for length in range(1, depth + 1):
            tails = sorted(itertools.product(calls, repeat=length - 1),
                           key=lambda t: sum(nfail[c] for c in t))
            for tail in tails:
                hist = (calls[first],) + tail
                es, bad = _run_history(cname, hist, sh, check_from=length - 1)
                sh.evaluations += 1
                sh.transitions += 1
                sh.traces += 1
                sh.max_depth = max(sh.max_depth, length)
                sh.add_to_set("states", (cname,) + es.state)
                fails = sum(nfail[c] for c in hist[:-1])
                envchg = sum(1 for c in hist[:-1] if _is_set(c))
                if (fails or envchg) and length >= 2 and not _is_set(hist[-1]):
                    sh.nontrivial += 1
                sh.count("faults_in_prefix=%d" % fails)
                if cname in _ENVS:
                    sh.count("table_changes_in_prefix=%d" % envchg)
                sh.add_to_set("outcomes", (cname,) + _fresh(cname, hist[-1]))
                if bad:
                    sh.fail(bad)
                if length == 3 and len(sh.samples) < 2 and fails:
                    sh.sample(dict(config=cname, history=list(hist)))
    else:
        # pruned BFS: a state is represented by the shortest history reaching it
        seen = {(cname, "[]", "[]", "()", repr(_env_key(cname))): ()}
        frontier = [()]
        d = 0
        while frontier and d < depth:
            d += 1
            nxt = []
            for hist in frontier:
                for c in calls:
                    h = hist + (c,)
                    es, bad = _run_history(cname, h, sh, check_from=len(h) - 1)
                    sh.transitions += 1
                    sh.traces += 1
                    sh.evaluations += 1
                    if bad:
                        sh.fail(bad)
                    st = (cname,) + es.state
                    sh.add_to_set("states", st)
                    if st not in seen:
                        seen[st] = h
                        nxt.append(h)
            frontier = nxt[:200]      # cap only matters on a defective tree (then it is reported anyway)
            sh.max_depth = max(sh.max_depth, d)
        sh.add_extra("bfs_states_%s" % cname, len(seen))
    return sh


def replay(rec):
    c = rec["case"]
    sh = Shard()
    if "soak_index" in c:
        return _soak(c["config"], c["soak_index"] + 1, sh)
    _, bad = _run_history(c["config"], tuple(c["history"]), sh, check_from=len(c["history"]) - 1)
    return bad


def finish(total, tier, seed):
    from ..common import HarnessError
    states = total.sets.get("states", set())
    total.states = len(states)
    outs = total.sets.get("outcomes", set())
    nerr = sum(1 for o in outs if o[1] == "err")
    if nerr < 10 or len(outs) - nerr < 10:
        raise HarnessError("vacuous alphabet: outcomes %d errors %d" % (len(outs), nerr))
    # the variable table must really be read: most solve() calls of env_atom answer differently under different tables
    env_dep = {}
    for cname in _ENVS:
        solves = [c for c in _CFG[cname][1] if not _is_set(c)]
        env_dep[cname] = sum(1 for c in solves
                             if len({v for (cn, t, e), v in _FRESH.items() if cn == cname and t == c}) > 1)
        if env_dep[cname] < 8 or len(_env_states(cname)) < 4:
            raise HarnessError("vacuous variable table in %s: %d table-dependent calls" % (cname, env_dep[cname]))
    return dict(states=len(states), distinct_outcomes=len(outs), failing_calls_in_alphabet=nerr,
                variable_tables={c: len(_env_states(c)) for c in _ENVS}, table_dependent_calls=env_dep,
                table_operations={c: [t for t in _CFG[c][1] if _is_set(t)] for c in _ENVS},
                depth_unpruned=DEPTH[tier], depth_pruned=DMAX[tier],
                configurations=sorted(_CFG), deviation_bound_completed=DEPTH[tier] - 1,
                alphabet_sizes={k: len(v[1]) for k, v in _CFG.items()})

MANIFEST = dict(
    text="Explicit-state exploration of the real ExpressionSolver instance: every sequence of solve() calls (valid and "
         "failing at every stage/token position) up to depth 3 (quick) / 4 (thorough) in 9 configurations is executed "
         "on one shared instance and every transition is compared with a fresh instance; then pruned BFS to depth 6/8 "
         "and one 4000/40000-call soak per configuration. Configurations include an atom whose operators convert "
         "their operand in place (the same argument text as left and right operand next to different units) and the "
         "documented name-resolving atom whose variable table is changed between calls by operations of the alphabet "
         "(every name / argument text at top level, in parentheses and as function argument, in accepted and rejected "
         "expressions; reference = fresh instance under the current table). "
         "Coverage statement: no history within the bound changes a later outcome.",
    note="Alphabet of ~15-50 operations per configuration; trusted: Python semantics, outcome canonicalisation (float "
         "bits, exception type+message). Histories beyond the depth bound rely on the small-scope hypothesis.",
    technique="explicit-state BFS over call/fault histories on the real object, differential oracle vs fresh instance",
)
