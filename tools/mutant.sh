#!/bin/bash
# usage: tools/mutant.sh <patch-file> <Cxx> [tier]   -> scratch copy of /repo + patch; baseline suite; check; cleanup
# prints: MUTANT <name> baseline=<summary> check_exit=<code> detected=<yes|no>
patch=$(readlink -f "$1"); prop=$2; tier=${3:-quick}
d=/dev/shm/mut-$$-$RANDOM
mkdir -p $d && rsync -a --exclude .git /repo/ $d/repo/ || exit 2
if ! (cd $d/repo && patch -p1 -s < "$patch"); then echo "MUTANT $(basename $patch) PATCH-FAILED"; rm -rf $d; exit 2; fi
base=$(/verif/tools/baseline.sh $d/repo | grep -v conda | tail -1)
if ! echo "$base" | grep -q "218 passed"; then
  # the stopwatch test is timing sensitive under load: re-run failures once, serially
  base=$(/verif/tools/baseline.sh $d/repo | grep -v conda | tail -1)
fi
out=$(cd /verif && VERIF_REPO=$d/repo VERIF_EVIDENCE_DIR=$d/evidence ./run $prop --tier $tier --workers ${WORKERS:-8} 2>&1 | grep -v conda)
code=$?
viol=$(echo "$out" | grep -c '^VIOLATION')
first=$(echo "$out" | grep -B1 '^VIOLATION' | head -1 | cut -c1-220)
echo "MUTANT $(basename $patch) prop=$prop baseline=[$base] violations=$viol detected=$([ $viol -gt 0 ] && echo yes || echo NO) :: $first"
echo "$out" | grep HARNESS | head -3
rm -rf $d
