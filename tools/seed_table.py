#!/venv/bin/python
"""Write /verif/seeded/README.md: one line per independently seeded change, from the meta.json files."""
import json, glob, os
rows = []
for m in sorted(glob.glob('/verif/seeded/*/meta.json')):
    d = json.load(open(m))
    first = 'missed at first' if ('MISSED' in d.get('needs_to_manifest', '') or d.get('history', '').startswith('missed')) else 'at first run'
    rows.append((d['id'], d['property'], d.get('round', 1), 'yes' if d.get('detected') else ('by ' + d['detected_by_other_property_check']['property'] if d.get('detected_by_other_property_check') else 'NO'),
                 first, d.get('needs_to_manifest', '').replace('|', '/').split(';')[0].strip(), d.get('baseline_with_change', '')))
n = len(rows); det = sum(1 for r in rows if r[3] != 'NO'); firstrun = sum(1 for r in rows if r[4] == 'at first run' and r[3] != 'NO')
out = ["# Independently seeded changes", "",
       "Produced by fresh sub-agents that saw only the property text and a scratch git worktree (round 2 additionally got the",
       "list of round-1 mechanisms to avoid).  Each directory: patch.diff (change to the library), demo.py (fails with the",
       "change, passes without; SCINUM_SRC selects the source tree), NOTES.md (the seeder's notes), meta.json (what was run).",
       "All keep the 218 baseline tests passing.  `tools/seed_eval.sh` re-evaluates one against the current checks.", "",
       f"Total {n}; detected by the quick check now: {det}; detected at the first evaluation (before any strengthening): {firstrun}.", "",
       "| id | property | round | detected | when | needs in order to manifest |", "|---|---|---|---|---|---|"]
for r in rows:
    out.append(f"| {r[0]} | {r[1]} | {r[2]} | {r[3]} | {r[4]} | {r[5]} |")
open('/verif/seeded/README.md', 'w').write("\n".join(out) + "\n")
print(f"seeds={n} detected={det} first-run={firstrun}")
