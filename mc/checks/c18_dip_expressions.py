"""C18 - DIP numerical, logical and template expressions compute unit-aware results under the documented priorities.

E2: three bounded expression grammars are unfolded completely over a fixed environment (typed nodes; nodes that were
modified after their definition - same unit, another unit, twice; integer nodes in different units; two custom units,
`[len] = 2 m` and `[hand] = 10 cm` (defined in a non-base unit), with nodes in them).  Every derivation is rendered to the expression string, executed on the real
solvers (stand-alone: NumericalSolver / LogicalSolver / TemplateSolver; in-file: as the value of a node in a DIP text
that is parsed with DIP.parse) and compared with a reference evaluator over the *generator's AST*
(mc/refmodels/dip_expr_ref.py: exact Fraction arithmetic with a propagated error scale, documented priorities,
Python format()).

Three further dimensions: (z) comparisons at the value zero and below it: zero-valued float / int nodes (0 m, 0 cm, 0,
int 0, int 0 cm) and zero literals (integer and decimal notation, with and without unit, in the unit of the node and in
another unit of the same dimension) on both sides of all six operators - two exact zeros are equal under every reading
of the tolerance, so == <= >= hold and != < > do not; zero against positive / negative / tiny values; negative nodes
(-2.5 m, -0.5, int -3, int -150 cm) against negative literals at relative offsets 0, 1e-9, 1e-5, 4e-2 on both sides
(the sign of the tolerance term); (a) comparisons on magnitudes far below 1e-8 in the unit of the typed node (1e-9 m, 2 nm,
4e-12; the tolerance is relative, so absolute differences of 1e-19 .. 1e-8 decide exactly as they do around 1);
(b) sequences of DOCUMENTS in one process that define the custom unit symbol [len] differently (2 m, 5 m, 10 cm, 3 s;
in the text or with DIP.add_unit): every document is checked against its own definition, module / class level state
of the library is restored around each sequence so that a sequence is one self-contained, replayable case.

Not demanded (left out of the alphabets on purpose; the statement / documentation is silent or ambiguous there):
  * comparisons between two anonymous literals, comparisons across dimensions (docs say "false", code refuses),
    comparisons between an int node and a float node (the code refuses them on purpose);
  * strict comparisons (< >) of values that are equal within the tolerance unless they are identical and written in
    the same unit (otherwise float rounding of the unit conversion decides), offsets inside (1e-7, 1e-5);
  * a literal without unit compared with a dimensional node (pinned by the tests, not stated);
  * functions on dimensional arguments - except plane angles (deg, rad, mrad literals, nodes in deg, angle
    sub-expressions) as arguments of sin / cos, which are demanded: every operand carries its unit, so sin(90 deg) is
    1 (with the deg factor published in the unit table, 1.7453292e-2) - angles passed to exp / log10 / pow, an angle
    added to a plain number (`0.5 + 1 rad` is accepted by the units module, `30 deg + 0.5` is not), angle-valued
    results; undocumented functions (sqrt, log, tan, logb), fractional powers of dimensional values, division by an
    exact zero, domain errors; unary minus on anything but a number literal; double negation;
  * a requested unit of another dimension than the result (the units module converts reciprocal dimensions);
  * integer nodes defined by expressions (rounding is not stated);
  * templates: alignment/sign flags in formats (the documented notation is digits, '.', and one of s d f e b),
    escaped braces (the documented example does not show its output), whole arrays and sub-array slices (list vs
    ndarray string form is unspecified), empty slices, negative indices, missing nodes, formats Python itself
    refuses for the value.
"""
import itertools
from itertools import product, islice

from ..common import Shard, failure, outcome, HarnessError
from .. import isolation
from ..refmodels import dip_expr_ref as R
from ..refmodels.dip_expr_ref import RefRaise, RefSkip

PROPERTY = "C18"
LEVEL = "exploration"
RULE = ("case = (sub-check, environment/header variant, rendered expression text, requested unit); every derivation "
        "of the bounded grammars is enumerated once (families are disjoint by construction and de-duplicated by a "
        "hash of the case); non-trivial = numerical: >= 1 binary operator or function application, logical: >= 1 "
        "comparison / negation / definedness test / connective (comparison operands include zero-valued and negative "
        "nodes and zero literals in every notation / unit), template: >= 1 reference; history: one ordered "
        "sequence of solver calls on one environment; unit-redefinition: one ordered sequence of documents (definition "
        "of [len] x way of defining it) with the whole probe set evaluated in every document")
ASSUMPTIONS = [
    "the reference evaluators (exact Fractions, first-order error scale, tolerance 1e-12*scale; Python format()) and "
    "the renderers in mc/refmodels/dip_expr_ref.py are trusted; they interpret the generator's AST and share no code "
    "with the library",
    "the factors of the unit alphabet (m, cm, mm, nm, km, s, rad, mrad, [len]=2 m (document sequences: 2 m / 5 m / 10 cm / 3 s), [hand]=10 cm; deg = the published table "
    "value 1.7453292e-2) are written out by hand in the reference model",
    "the value of a node after modifications (last assignment wins, in the unit of the definition - property C14) is "
    "written out by hand in the node table",
    "transcendental functions are compared with math.* of the exact argument (error scale includes |f'|*e_x)",
    "inputs listed under 'Not demanded' in the module docstring are outside the coverage statement",
]

# =================================================================================================== environment
# name -> (kind, python value, unit, DIP line)
_NODES = [
    ("a", "float", 2.0, "m", "a float = 2 m"),
    ("b", "int", 3, None, "b int = 3"),
    ("c", "float", 150.0, "cm", "c float = 150 cm"),
    ("t", "float", 4.0, "s", "t float = 4 s"),
    ("a2", "float", 200.0, "cm", "a2 float = 200 cm"),
    ("b2", "int", 3, None, "b2 int = 3"),
    ("b3", "int", 4, None, "b3 int = 4"),
    ("k", "int", 200, "cm", "k int = 200 cm"),
    ("x", "float", 0.75, None, "x float = 0.75"),
    # nodes modified after their definition (same unit, another unit, twice): a reference delivers the CURRENT value
    ("wm", "float", 0.5, "m", "wm float = 1 m\nwm = 50 cm"),
    ("ws", "float", 3.0, "m", "ws float = 4 m\nws = 3 m"),
    ("wt", "float", 0.25, "m", "wt float = 1 m\nwt = 80 cm\nwt = 25 cm"),
    ("cnt", "int", 9, None, "cnt int = 7\ncnt = 9"),
    ("fm", "bool", False, None, "fm bool = true\nfm = false"),
    ("sm", "str", "new", None, "sm str = 'old'\nsm = 'new'"),
    # integer nodes in different units (conversions with fractional results), small and large magnitudes
    ("k2", "int", 2, "m", "k2 int = 2 m"),
    ("k3", "int", 250, "cm", "k3 int = 250 cm"),
    ("k4", "int", 3, "m", "k4 int = 3 m"),
    ("ms", "int", 1500, "mm", "ms int = 1500 mm"),
    ("pixels", "int", 4000000, None, "pixels int = 4000000"),
    ("track", "int", 1000000, "mm", "track int = 1000000 mm"),
    ("tiny", "float", 0.001, "m", "tiny float = 0.001 m"),
    ("big", "float", 5000000.0, "m", "big float = 5000000 m"),
    # magnitudes far below 1e-8 in the unit of the node (an absolute tolerance of the size of numpy's default would
    # decide there instead of the relative one)
    ("gap", "float", 1e-9, "m", "gap float = 1e-9 m"),
    ("wide", "float", 3e-9, "m", "wide float = 3e-9 m"),
    ("gap2", "float", 2.0, "nm", "gap2 float = 2 nm"),
    ("rate", "float", 4e-12, None, "rate float = 4e-12"),
    ("rate2", "float", 8e-12, None, "rate2 float = 8e-12"),
    # zero-valued nodes (float / int, with and without unit) and negative nodes: the tolerance term of a comparison
    # is zero at the value zero and its sign matters below zero
    ("z", "float", 0.0, "m", "z float = 0 m"),
    ("zc", "float", 0.0, "cm", "zc float = 0 cm"),
    ("zf", "float", 0.0, None, "zf float = 0"),
    ("zi", "int", 0, None, "zi int = 0"),
    ("zk", "int", 0, "cm", "zk int = 0 cm"),
    ("lvl", "float", -2.5, "m", "lvl float = -2.5 m"),
    ("ni", "int", -3, None, "ni int = -3"),
    ("nk", "int", -150, "cm", "nk int = -150 cm"),
    ("ang", "float", 30.0, "deg", "ang float = 30 deg"),
    ("slope", "int", 45, "deg", "slope int = 45 deg"),
    ("f", "bool", True, None, "f bool = true"),
    ("g", "bool", False, None, "g bool = false"),
    ("s", "str", "hello", None, "s str = 'hello'"),
    ("s2", "str", "hello", None, "s2 str = 'hello'"),
    ("s3", "str", "world", None, "s3 str = 'world'"),
    ("name", "str", "Will Smith", None, "name str = 'Will Smith'"),
    ("id", "int", 345, None, "id int = 345"),
    ("w", "float", 62.3, "kg", "w float = 62.3 kg"),
    ("h", "float", 177.0, None, "h float = 177"),
    ("neg", "float", -0.5, None, "neg float = -0.5"),
    ("arr", "farr", [[1.5, 2.5, 3.5], [4.0, 5.0, 6.0]], "m", "arr float[2,3] = [[1.5,2.5,3.5],[4,5,6]] m"),
    ("iarr", "iarr", [7, 8, 9], None, "iarr int[3] = [7,8,9]"),
]
_CUSTOM_NODES = [("d", "float", 1.0, "[len]", "d float = 1 [len]"),
                 ("dm", "float", 1.5, "[len]", "dm float = 1 [len]\ndm = 3 m"),
                 ("hh", "float", 3.0, "[hand]", "hh float = 3 [hand]")]
UNIT_LINES = ["$unit len = 2 m", "$unit hand = 10 cm"]      # a base unit and a non-base unit definition
UNIT_LINE = UNIT_LINES[0]

ENVS = ("plain", "custom", "custom-api")       # custom: `$unit` line in the text; custom-api: DIP.add_unit()


def _node_table(envname):
    return _NODES + (_CUSTOM_NODES if envname != "plain" else [])


def ref_env(envname):
    return R.Env({n: (k, v, u) for n, k, v, u, _ in _node_table(envname)})


def _parse_text(envname, lines):
    from scinumtools.dip import DIP
    with DIP() as dip:
        if envname == "custom-api":
            dip.add_unit("len", 2, "m")
            dip.add_unit("hand", 10, "cm")
        text = "\n".join((UNIT_LINES if envname == "custom" else []) + list(lines)) + "\n"
        dip.add_string(text)
        return dip.parse()


def build_env(envname):
    return _parse_text(envname, [ln for *_, ln in _node_table(envname)])


_LIVE = {}
_REF = {}
_BASE = None


def prime_inspect_cache():
    """Harness speed measure, no effect on results (copied from mc/refmodels/dip_gen_a.py).  DIP(), add_string() and
    TemplateSolver() call inspect.stack(); for every frame whose file cannot be mapped to a module (the
    '<frozen runpy>' frames below `python -m mc.main`) inspect.getmodule scans all of sys.modules on every call.
    Registering those files once in inspect's own file->module cache makes the lookup a dictionary hit.  The library
    only reads caller.filename / caller.lineno, which do not depend on this cache."""
    import sys
    import inspect
    f = sys._getframe()
    while f is not None:
        fname = f.f_code.co_filename
        if fname not in inspect.modulesbyfile:
            inspect.getmodule(f, fname)
            name = f.f_globals.get("__name__")
            if fname not in inspect.modulesbyfile and name in sys.modules:
                inspect.modulesbyfile[fname] = name
        f = f.f_back


def init_worker():
    global _BASE
    prime_inspect_cache()
    isolation.tables_snapshot()
    from scinumtools.units import settings as st
    _BASE = (len(st.UNIT_STANDARD._keys), len(st.UNIT_TYPES))
    _LIVE.clear()
    for e in ENVS:
        _REF[e] = ref_env(e)
    if _MODSTATE is None:
        _modstate_snapshot()


def _live(envname):
    if envname not in _LIVE:
        o = outcome(build_env, envname)
        _clean()
        if o[0] != "ok":
            raise HarnessError("fixed environment %r cannot be built: %r" % (envname, o))
        _LIVE[envname] = o[1]
        _PRISTINE[envname] = _h_snapshot(o[1])
    return _LIVE[envname]


_PRISTINE = {}


def _env_guard(envname, sub, case, tags, sh):
    """a solver call must leave the (long-lived) environment as it found it; a changed environment is reported for the
    call that changed it and the environment is rebuilt, so that no later case sees it"""
    env = _LIVE.get(envname)
    if env is None:
        return None
    snap = _h_snapshot(env)
    if snap == _PRISTINE[envname]:
        return None
    changed = [list(a) for a, b in zip(snap[0], _PRISTINE[envname][0]) if a != b]
    del _LIVE[envname]
    sh.count(sub + ":FAIL-environment-changed")
    return failure(sub, case, "environment nodes unchanged", changed[:3], tags=list(tags) + ["single-call"],
                   behaviour="environment-node-changed")


_LEAKS = [0]


def _clean(force=False):
    """keep the process-wide unit tables pristine between cases (failing paths may leak custom units)"""
    from scinumtools.units import settings as st
    if force or (len(st.UNIT_STANDARD._keys), len(st.UNIT_TYPES)) != _BASE:
        if isolation.tables_restore():
            _LEAKS[0] += 1


# =================================================================================================== helpers
def lit(num, unit=None):
    return ["lit", num, unit]


def ref(name):
    return ["ref", name]


def flat(terms, ops):
    return ["flat", list(terms), list(ops)]


def par(x):
    return ["par", x]


def fn(name, *args):
    return ["fn", name, list(args)]


OPS = ["+", "-", "*", "/"]
Ra, Rb, Rc, Rt, Rd = ref("a"), ref("b"), ref("c"), ref("t"), ref("d")
L3, L2m, L50, Lm2, Lm3 = lit("3"), lit("2", "m"), lit("50", "cm"), lit("-2", "m"), lit("-3")
L1len, Lhlen = lit("1", "[len]"), lit("0.5", "[len]")
A9 = [L3, L2m, L50, Ra, Rb, Rc, Rt, Lm2, Lm3]
A4 = [Ra, L50, L3, Rt]
A3 = [Ra, L50, L3]
A2 = [Ra, L3]
A5 = [Ra, L50, L3, Rc, Rb]
AC6 = [L1len, Rd, Ra, L50, L3, Lhlen]
AC4 = [L1len, Rd, Ra, L3]
T4 = [  # operand tuples for 4-operator sequences: distinct values so that every wrong grouping changes the result
    [lit("3"), lit("0.5"), Rb, lit("-4"), lit("7")],
    [lit("7"), Rb, lit("0.5"), lit("3"), lit("-4")],
    [Ra, L50, Rc, lit("3", "m"), lit("1", "m")],
    [Ra, lit("3"), L50, Rb, Rc],
    [Rb, Ra, lit("0.5"), Rc, lit("3")],
    [Rt, Ra, lit("3"), Rt, Rc],
]
FNS1 = ["exp", "log10", "sin", "cos"]
ARGS8 = [  # dimensionless arguments: 3, 3, 0.5, 4, 0.75, 2.5, 1.25, 4
    L3, Rb, lit("0.5"), flat([Ra, L50], ["/"]), flat([Rc, Ra], ["/"]), flat([Rb, lit("0.5")], ["-"]),
    flat([par(flat([Ra, L50], ["+"])), L2m], ["/"]), flat([Ra, Rb, Rc], ["*", "/"]),
]
ARGS3 = [Rb, flat([Ra, L50], ["/"]), flat([Rc, Ra], ["/"])]
Rwm, Rws, Rwt, Rcnt, Rdm, Rhh = ref("wm"), ref("ws"), ref("wt"), ref("cnt"), ref("dm"), ref("hh")
L1hand = lit("1", "[hand]")
AM = [Rwm, Rwt, Rws, Rcnt, L50, L3]               # modified nodes (+ two literals)
AM4 = [Rwm, Rwt, Rcnt, L50]
ACM = [Rdm, Rhh, L1hand, Rwm, L1len, L3]          # custom env: modified node in [len], non-base custom unit
ACM4 = [Rdm, Rhh, L1hand, L3]
TRIG = ["sin", "cos"]
Rang, Rslope, Rx = ref("ang"), ref("slope"), ref("x")
ANG = [  # angle-valued (or angle-ratio) arguments of sin / cos: every operand carries its unit
    lit("90", "deg"), Rang, lit("0.5", "rad"), lit("500", "mrad"), lit("30", "deg"), Rslope, lit("-60", "deg"),
    flat([lit("2"), lit("15", "deg")], ["*"]), flat([Rang, lit("2")], ["*"]),
    flat([lit("180", "deg"), lit("2"), Rang], ["/", "-"]), flat([Rang, lit("15", "deg")], ["+"]),
    flat([Rx, lit("360", "deg")], ["*"]), flat([lit("1", "rad"), lit("500", "mrad")], ["-"]),
    flat([lit("90", "deg"), lit("0.5", "rad")], ["-"]), flat([Rang, lit("15", "deg")], ["/"]),
    flat([par(flat([Rang, lit("60", "deg")], ["+"])), lit("3")], ["/"]),
]
ANG4 = ANG[:4]
POW_BASES = A9 + [par(flat([Ra, L50], ["+"])), flat([Ra, Rt], ["/"]), flat([Ra, L50], ["*"]), lit("0.25")]
POW_EXPS = [lit("2"), lit("3"), Rb, flat([lit("3"), lit("1")], ["-"]), lit("0.5"), lit("-1"), lit("0")]


# --------------------------------------------------------------------------------------------------- numerical
def g_flat(n, alphabet, skip_alphabet=None):
    """all flat expressions with n operators over the alphabet (optionally minus those over skip_alphabet)"""
    if n == 0:
        for a in alphabet:
            yield a
        return
    skip = None if skip_alphabet is None else [R.num_render(x) for x in skip_alphabet]
    for ops in product(OPS, repeat=n):
        for terms in product(alphabet, repeat=n + 1):
            if skip is not None and all(R.num_render(t) in skip for t in terms):
                continue
            yield flat(terms, ops)


def g_flat_window(n, alphabet, core, w):
    """window w of the n-operator space: the first two operands are fixed to pair number w of the alphabet"""
    first = list(product(alphabet, repeat=2))[w]
    core_s = [R.num_render(x) for x in core]
    for ops in product(OPS, repeat=n):
        for rest in product(alphabet, repeat=n - 1):
            terms = list(first) + list(rest)
            if all(R.num_render(t) in core_s for t in terms):
                continue          # already enumerated by the core family
            yield flat(terms, ops)


def g_tuples(n, tuples):
    for ops in product(OPS, repeat=n):
        for terms in tuples:
            yield flat(terms[:n + 1], ops)


def g_group(n, alphabet):
    """n operators, one parenthesised group of >= 2 consecutive terms (not the whole expression)"""
    for i in range(n + 1):
        for j in range(i + 1, n + 1):
            if i == 0 and j == n:
                continue
            for ops in product(OPS, repeat=n):
                for terms in product(alphabet, repeat=n + 1):
                    inner = par(flat(terms[i:j + 1], ops[i:j]))
                    t2 = list(terms[:i]) + [inner] + list(terms[j + 1:])
                    o2 = list(ops[:i]) + list(ops[j:])
                    yield flat(t2, o2)


def g_whole(alphabet):
    """(X op Y) alone and ((X op Y))"""
    for op in OPS:
        for x, y in product(alphabet, repeat=2):
            yield par(flat([x, y], [op]))
            yield par(par(flat([x, y], [op])))


def g_nested(alphabet):
    """3 operators, nesting depth 2 (and the two-group shape)"""
    for o1, o2, o3 in product(OPS, repeat=3):
        for x, y, z, w in product(alphabet, repeat=4):
            yield flat([x, par(flat([y, par(flat([z, w], [o3]))], [o2]))], [o1])
            yield flat([par(flat([par(flat([x, y], [o1])), z], [o2])), w], [o3])
            yield flat([par(flat([x, y], [o1])), par(flat([z, w], [o3]))], [o2])
            yield flat([x, par(flat([par(flat([y, z], [o2])), w], [o3]))], [o1])
            yield flat([par(flat([x, par(flat([y, z], [o2]))], [o1])), w], [o3])


def g_trig_mixed(angles, alphabet):
    """sin / cos of angles combined with the other functions, with groups and in the Pythagorean identity"""
    for a in angles:
        for f in TRIG:
            t = fn(f, a)
            yield fn("exp", t)
            yield fn("pow", t, lit("2"))
            yield fn("pow", lit("2"), flat([t, lit("2")], ["+"]))
            yield fn("log10", flat([t, lit("2")], ["+"]))
            for x, y in product(alphabet, repeat=2):
                for op in OPS:
                    yield flat([par(flat([x, y], [op])), t], ["*"])
                    yield flat([x, par(flat([y, t], ["*"]))], [op])
        yield flat([fn("sin", a), fn("sin", a), fn("cos", a), fn("cos", a)], ["*", "+", "*"])
        for b in angles[:3]:
            yield flat([fn("sin", a), fn("cos", b), fn("cos", a), fn("sin", b)], ["*", "+", "*"])


def g_fn(args, ctx_alphabet, args2, mid_alphabet, FNS1=FNS1):
    for f in FNS1:
        for a in args:
            yield fn(f, a)
            for op in OPS:
                for x in ctx_alphabet:
                    yield flat([x, fn(f, a)], [op])
                    yield flat([fn(f, a), x], [op])
    for f1, f2 in product(FNS1, repeat=2):
        for a in args:
            yield fn(f1, fn(f2, a))                         # nesting depth 2
        for a1, a2 in product(args2, repeat=2):
            for op in OPS:
                yield flat([fn(f1, a1), fn(f2, a2)], [op])
    for f in FNS1:
        for a in args2:
            for o1, o2 in product(OPS, repeat=2):
                for x, y in product(mid_alphabet, repeat=2):
                    yield flat([x, fn(f, a), y], [o1, o2])
            for op in OPS:
                for x in mid_alphabet:
                    yield fn(f, flat([fn(f, a), x], [op]))  # function of an expression containing a function


def g_pow(ctx_alphabet):
    for b in POW_BASES:
        for e in POW_EXPS:
            p = fn("pow", b, e)
            yield p
            for op in OPS:
                for x in ctx_alphabet:
                    yield flat([x, p], [op])
                    yield flat([p, x], [op])
    for b in A3:
        for e in (lit("2"), Rb):
            yield fn("pow", fn("pow", b, e), lit("2"))
            yield fn("exp", flat([fn("pow", b, e), fn("pow", b, e)], ["/"]))


def num_streams(tier, seed):
    """-> list of (stream name, env, generator factory, extra units flag)"""
    q = tier == "quick"
    w = seed % 81
    S = []
    S.append(("num/flat0", "plain", lambda: g_flat(0, A9), True))
    S.append(("num/flat1", "plain", lambda: g_flat(1, A9), True))
    S.append(("num/flat2", "plain", lambda: g_flat(2, A9), True))
    if q:
        S.append(("num/flat3-core", "plain", lambda: g_flat(3, A4), False))
        S.append(("num/flat3-window%d" % w, "plain", lambda: g_flat_window(3, A9, A4, w), False))
        S.append(("num/flat4-core", "plain", lambda: g_flat(4, A2), False))
    else:
        S.append(("num/flat3", "plain", lambda: g_flat(3, A9), False))
        S.append(("num/flat4", "plain", lambda: g_flat(4, A4), False))
    S.append(("num/flat4-distinct", "plain", lambda: g_tuples(4, T4), False))
    S.append(("num/whole", "plain", lambda: g_whole(A4), True))
    S.append(("num/group2", "plain", lambda: g_group(2, A4 if q else A9), True))
    S.append(("num/group3", "plain", lambda: g_group(3, A2 if q else A5), False))
    S.append(("num/nested", "plain", lambda: g_nested(A2 if q else A4), False))
    S.append(("num/fn", "plain", lambda: g_fn(ARGS8, A5, ARGS3 if q else ARGS8, A2 if q else A3), False))
    S.append(("num/pow", "plain", lambda: g_pow(A5), False))
    S.append(("num/trig", "plain", lambda: g_fn(ANG, A5, ANG4 if q else ANG, A2 if q else A3, TRIG), False))
    S.append(("num/trig-mixed", "plain", lambda: g_trig_mixed(ANG4 if q else ANG, A2 if q else A3), False))
    S.append(("numc/trig", "custom", lambda: g_fn(ANG4, AC4, ANG4[:2], [Rd], TRIG), False))
    # environment with a custom unit
    S.append(("numc/flat0", "custom", lambda: g_flat(0, AC6), True))
    S.append(("numc/flat1", "custom", lambda: g_flat(1, AC6), True))
    S.append(("numc/flat2", "custom", lambda: g_flat(2, AC6), True))
    S.append(("numc/group2", "custom", lambda: g_group(2, AC4), True))
    S.append(("numc/fn", "custom", lambda: g_fn([flat([Rd, L2m], ["/"]), flat([L1len, L50], ["/"])], AC4,
                                                [flat([Rd, L2m], ["/"])], [Rd, L3]), False))
    if not q:
        S.append(("numc/flat3", "custom", lambda: g_flat(3, AC4), False))
        S.append(("numc/group3", "custom", lambda: g_group(3, [L1len, Ra, L3]), False))
    S.append(("numc-api/flat1", "custom-api", lambda: g_flat(1, AC6), True))
    # references to nodes that were modified after their definition; custom unit defined in a non-base unit
    S.append(("num/modified0", "plain", lambda: g_flat(0, [Rwm, Rwt, Rws, Rcnt]), True))
    S.append(("num/modified1", "plain", lambda: g_flat(1, AM, [L50, L3]), True))
    S.append(("num/modified2", "plain", lambda: g_flat(2, AM, [L50, L3]), True))
    S.append(("num/modified-fn", "plain", lambda: g_fn([flat([Rwm, L50], ["/"]), flat([Rcnt, L3], ["/"])], [Rwm, L3],
                                                       [flat([Rwt, L50], ["/"])], [Rwm]), False))
    S.append(("numc/modified0", "custom", lambda: g_flat(0, [Rdm, Rhh, L1hand, Rwm]), True))
    S.append(("numc/modified1", "custom", lambda: g_flat(1, ACM, [L1len, L3]), True))
    S.append(("numc/modified2", "custom", lambda: g_flat(2, ACM4 if q else ACM, [L3] if q else [L1len, L3]), True))
    S.append(("numc-api/modified1", "custom-api", lambda: g_flat(1, ACM4, [L3]), True))
    return S


def infile_num_streams(tier, seed):
    q = tier == "quick"
    AI = [Ra, L50, L3, Rt]
    AIC = [Ra, L50, L1len, Rd, L3, Rt]
    S = []
    S.append(("inum/plain-flat1", "plain", lambda: g_flat(1, A9)))
    S.append(("inum/plain-flat2", "plain", lambda: g_flat(2, AI if q else A9)))
    S.append(("inum/plain-group2", "plain", lambda: g_group(2, A3)))
    S.append(("inum/plain-fn", "plain", lambda: g_fn(ARGS3, A3, ARGS3[:1], A2[:1])))
    S.append(("inum/custom-flat0", "custom", lambda: g_flat(0, AC6)))
    S.append(("inum/custom-flat1", "custom", lambda: g_flat(1, AIC)))
    S.append(("inum/custom-flat2", "custom", lambda: g_flat(2, AC4 if q else AIC)))
    S.append(("inum/custom-group2", "custom", lambda: g_group(2, [L1len, Ra, L3])))
    S.append(("inum/custom-fn", "custom", lambda: g_fn([flat([Rd, L2m], ["/"])], [Rd, L3], [flat([Rd, L2m], ["/"])],
                                                       [Rd])))
    S.append(("inum/api-flat1", "custom-api", lambda: g_flat(1, AC4)))
    S.append(("inum/plain-modified0", "plain", lambda: g_flat(0, [Rwm, Rwt, Rws, Rcnt])))
    S.append(("inum/plain-modified1", "plain", lambda: g_flat(1, AM, [L50, L3])))
    S.append(("inum/plain-modified2", "plain", lambda: g_flat(2, AM4 if q else AM, [L50] if q else [L50, L3])))
    S.append(("inum/custom-modified0", "custom", lambda: g_flat(0, [Rdm, Rhh, L1hand])))
    S.append(("inum/custom-modified1", "custom", lambda: g_flat(1, ACM, [L1len, L3])))
    S.append(("inum/custom-modified2", "custom", lambda: g_flat(2, ACM4, [L3])))
    S.append(("inum/api-modified1", "custom-api", lambda: g_flat(1, ACM4, [L3])))
    S.append(("inum/plain-trig", "plain", lambda: g_fn(ANG, A3, ANG4[:2], [Ra], TRIG)))
    S.append(("inum/custom-trig", "custom", lambda: g_fn(ANG4, [Rd, L1len], ANG4[:1], [Rd], TRIG)))
    if not q:
        S.append(("inum/plain-flat3", "plain", lambda: g_flat(3, AI)))
        S.append(("inum/custom-flat3", "custom", lambda: g_flat(3, [L1len, Ra, L3])))
        S.append(("inum/plain-pow", "plain", lambda: g_pow(A3)))
    return S


# --------------------------------------------------------------------------------------------------- logical
CMP = ["==", "!=", "<=", ">=", "<", ">"]


def node(n):
    return ["node", n]


def num(text, unit=None):
    return ["num", text, unit]


def _cmp_pairs(custom):
    """(node operand, other operand) pairs; every pair is used in both orders with all six operators"""
    P = []
    a_lits = [num("2", "m"), num("200", "cm"),
              num("2.000000002", "m"), num("1.999999998", "m"), num("200.0000002", "cm"),      # +-1e-9
              num("2.00002", "m"), num("1.99998", "m"), num("200.002", "cm"),                  # +-1e-5
              num("2.002", "m"), num("1.998", "m"), num("200.2", "cm"),                        # +-1e-3
              num("3", "m"), num("1", "m"), num("150", "cm"), num("250", "cm"), num("2.0", "m"), num("2e0", "m")]
    c_lits = [num("150", "cm"), num("1.5", "m"), num("1.5000000015", "m"), num("149.99999985", "cm"),
              num("1.500015", "m"), num("149.9985", "cm"), num("1.5015", "m"), num("2", "m"), num("1", "m"),
              num("100", "cm")]
    b_lits = [num("3"), num("4"), num("2"), num("3.0"), num("3.5"), num("2.5"), num("3.000000003"),
              num("2.999999997"), num("3.00003"), num("2.99997"), num("3.003"), num("3e0")]
    k_lits = [num("200", "cm"), num("2", "m"), num("2.005", "m"), num("2.5", "m"), num("3", "m"), num("150", "cm"),
              num("200.4", "cm"), num("2.00000002", "m")]
    x_lits = [num("0.75"), num("0.7500000007"), num("0.7500075"), num("0.75075"), num("1"), num("0.5"), num("7.5e-1")]
    # nodes modified after definition: literals at the current value, at the OLD (definition) value, offsets
    wm_lits = [num("0.5", "m"), num("50", "cm"), num("1", "m"), num("100", "cm"), num("0.500005", "m"),
               num("50.00000005", "cm"), num("0.25", "m")]
    wt_lits = [num("0.25", "m"), num("25", "cm"), num("80", "cm"), num("1", "m"), num("0.8", "m")]
    ws_lits = [num("3", "m"), num("4", "m"), num("300", "cm"), num("400", "cm")]
    cnt_lits = [num("9"), num("7"), num("8"), num("9.0"), num("7.0")]
    # small and large magnitudes: the tolerance is relative (abs. differences 2e-8 m / 0.1 m must not decide)
    tiny_lits = [num("1", "mm"), num("0.001", "m"), num("1.00002", "mm"), num("0.99998", "mm"),
                 num("1.0000000002", "mm"), num("0.00100002", "m"), num("2", "mm"), num("1.0005", "mm")]
    big_lits = [num("5000000", "m"), num("5000000.1", "m"), num("4999999.9", "m"), num("5000100", "m"),
                num("4999900", "m"), num("5000001", "m"), num("5005000", "m"), num("500000000", "cm")]
    k3_lits = [num("2.5", "m"), num("250", "cm"), num("2", "m"), num("3", "m")]
    # integer nodes of large magnitude vs literals that are not whole but within 1e-6 relative (strict operators are
    # exact), directly and through a unit conversion
    px_lits = [num("4000000"), num("4000000.5"), num("3999999.5"), num("4000000.25"), num("4000001"), num("3999999"),
               num("4000100"), num("4000000.0")]
    tr_lits = [num("1000000", "mm"), num("1000000.4", "mm"), num("999999.6", "mm"), num("1.0000002", "km"),
               num("0.9999998", "km"), num("1000.0003", "m"), num("1", "km"), num("1.01", "km")]
    # magnitudes of 1e-9 / 4e-12 in the unit of the node: equal, offsets 1e-10 / 2e-5 / 1e-3 relative, factors 2, 5,
    # 10, 1250 (absolute differences between 1e-19 and 1e-8, all far below numpy's default atol), literals written
    # in the unit of the node and in a unit in which the numbers are of order one
    gap_lits = [num("1", "nm"), num("1e-9", "m"), num("1.0000000001", "nm"), num("1.0000000001e-9", "m"),
                num("1.00002", "nm"), num("0.99998", "nm"), num("1.00002e-9", "m"), num("1.001", "nm"),
                num("2", "nm"), num("2e-9", "m"), num("5", "nm"), num("0.5", "nm"), num("1e-8", "m"),
                num("1.5e-8", "m"), num("1e-12", "km")]
    gap2_lits = [num("2", "nm"), num("1", "nm"), num("2e-9", "m"), num("1e-9", "m"), num("2.00004e-9", "m")]
    rate_lits = [num("4e-12"), num("8e-12"), num("1e-12"), num("4.0000000004e-12"), num("4.00008e-12"),
                 num("3.99992e-12"), num("4.004e-12"), num("5e-9"), num("1e-7"), num("0.000000000004")]
    for n, lits in (("gap", gap_lits), ("gap2", gap2_lits), ("rate", rate_lits)):
        for l in lits:
            P.append((node(n), l))
    for n, lits in _zero_neg_lits():
        for l in lits:
            P.append((node(n), l))
    for n, lits in (("a", a_lits), ("c", c_lits), ("b", b_lits), ("k", k_lits), ("x", x_lits), ("wm", wm_lits),
                    ("wt", wt_lits), ("ws", ws_lits), ("cnt", cnt_lits), ("tiny", tiny_lits), ("big", big_lits),
                    ("k3", k3_lits), ("pixels", px_lits), ("track", tr_lits)):
        for l in lits:
            P.append((node(n), l))
    if custom:
        for l in (num("1", "[len]"), num("1.00001", "[len]"), num("2", "[len]")):
            P.append((node("a"), l))
        for l in (num("2", "m"), num("1", "[len]"), num("200.002", "cm"), num("3", "m"), num("1.000000001", "[len]")):
            P.append((node("d"), l))
        for l in (num("3", "m"), num("1.5", "[len]"), num("2", "m"), num("1", "[len]"), num("300.003", "cm")):
            P.append((node("dm"), l))
        for l in (num("30", "cm"), num("3", "[hand]"), num("0.3", "m"), num("3", "m"), num("0.15", "[len]"),
                  num("30.0003", "cm")):
            P.append((node("hh"), l))
        for l in (num("20", "[hand]"), num("2", "[hand]"), num("20.0002", "[hand]")):
            P.append((node("a"), l))
    NN = [("a", "c"), ("a", "a2"), ("c", "a2"), ("a2", "a"), ("b", "b2"), ("b", "b3"), ("b3", "b"), ("a", "a"),
          ("x", "x"),
          # modified nodes
          ("wm", "wt"), ("wt", "wm"), ("wm", "a"), ("a", "wm"), ("ws", "a2"), ("cnt", "b"), ("b", "cnt"), ("cnt", "b3"),
          ("wm", "wm"), ("cnt", "cnt"),
          # two integer nodes in different units: the conversion of either side has a fractional result
          ("k3", "k2"), ("k2", "k3"), ("k", "k2"), ("k2", "k"), ("k3", "k4"), ("k4", "k3"), ("ms", "k2"), ("k2", "ms"),
          ("ms", "k3"), ("k3", "ms"), ("ms", "k"), ("k", "ms"), ("k", "k3"), ("k3", "k"), ("k2", "k4"), ("ms", "k4"),
          # tiny magnitudes: same unit, and the left node converted to the unit of the right one (m -> nm, nm -> m)
          ("gap", "wide"), ("wide", "gap"), ("gap", "gap"), ("gap", "gap2"), ("gap2", "gap"), ("wide", "gap2"),
          ("gap2", "wide"), ("rate", "rate2"), ("rate2", "rate"), ("rate", "rate"), ("gap", "tiny"), ("tiny", "gap")]
    NN += ZERO_NEG_NN
    if custom:
        for l in (num("0", "[len]"), num("0", "[hand]"), num("0.0", "[len]")):
            P.append((node("z"), l))
        for l in (num("0", "[len]"), num("0", "[hand]")):
            P.append((node("d"), l))
            P.append((node("hh"), l))
        NN += [("a", "d"), ("d", "a"), ("d", "c"), ("dm", "a"), ("a", "dm"), ("dm", "d"), ("hh", "c"), ("c", "hh"),
               ("hh", "d"), ("dm", "hh")]
    return P, NN


def _zero_neg_lits():
    """zero-valued nodes against zero literals (integer / decimal notation, with and without unit, in the unit of the
    node and in another unit of the same dimension) and against small / large / negative values; ordinary, tiny and
    negative nodes against zero literals; negative nodes against negative literals at relative offsets 0, 1e-9, 1e-5,
    4e-2 on both sides, in the same and in a convertible unit, and against the value of opposite sign"""
    zero_m = [num("0", "m"), num("0", "cm"), num("0.0", "m"), num("0.0", "cm"), num("0", "km"), num("0e0", "m")]
    return [
        ("z", zero_m + [num("1", "m"), num("-1", "m"), num("1", "cm"), num("-1", "cm"), num("1e-9", "m"),
                        num("-1e-9", "m"), num("5000000", "m")]),
        ("zc", zero_m[:4] + [num("1", "cm"), num("-1", "m"), num("-1e-9", "cm")]),
        ("zf", [num("0"), num("0.0"), num("0e0"), num("1"), num("-1"), num("0.5"), num("1e-9"), num("-4e-12")]),
        ("zi", [num("0"), num("0.0"), num("1"), num("-1"), num("0.5"), num("-0.5"), num("4000000")]),
        ("zk", [num("0", "cm"), num("0", "m"), num("0.0", "cm"), num("1", "cm"), num("-1", "cm"), num("1", "m"),
                num("-1", "m")]),
        # non-zero nodes against zero literals
        ("a", zero_m[:4]), ("c", zero_m[:2]), ("b", [num("0"), num("0.0")]), ("x", [num("0"), num("0.0")]),
        ("k", [num("0", "cm"), num("0", "m")]), ("neg", [num("0"), num("0.0")]), ("lvl", zero_m[:4]),
        ("ni", [num("0"), num("0.0")]), ("nk", [num("0", "cm"), num("0", "m")]), ("rate", [num("0"), num("0.0")]),
        ("gap", [num("0", "m"), num("0", "nm")]), ("tiny", [num("0", "m"), num("0", "mm")]),
        ("big", [num("0", "m")]), ("wm", [num("0", "m"), num("0", "cm")]), ("cnt", [num("0")]),
        # negative nodes against negative (and positive) literals
        ("lvl", [num("-2.5", "m"), num("-250", "cm"), num("-2.500000002", "m"), num("-2.499999998", "m"),
                 num("-250.0000002", "cm"), num("-2.50003", "m"), num("-2.49997", "m"), num("-250.003", "cm"),
                 num("-2.4", "m"), num("-2.6", "m"), num("-240", "cm"), num("-260", "cm"), num("2.5", "m"),
                 num("250", "cm"), num("-2.50", "m"), num("-25e-1", "m")]),
        ("neg", [num("-0.5"), num("-0.5000000005"), num("-0.4999999995"), num("-0.500005"), num("-0.499995"),
                 num("-0.48"), num("-0.52"), num("0.5"), num("-1"), num("-5e-1")]),
        ("ni", [num("-3"), num("-2"), num("-4"), num("3"), num("-3.0"), num("-3.5"), num("-2.5"), num("-3.000000003"),
                num("-2.999999997"), num("-3.00003"), num("-2.99997")]),
        ("nk", [num("-150", "cm"), num("-1.5", "m"), num("-1", "m"), num("-2", "m"), num("-1.505", "m"),
                num("-149", "cm"), num("1.5", "m"), num("-1.50000001", "m")]),
    ]


# node pairs: zero / zero (same and other unit), zero / positive, zero / negative, negative / negative, negative /
# positive; float with float and int with int
ZERO_NEG_NN = [("z", "z"), ("z", "zc"), ("zc", "z"), ("zc", "zc"), ("zf", "zf"), ("zi", "zi"), ("zk", "zk"),
               ("z", "a"), ("a", "z"), ("zc", "a"), ("c", "z"), ("z", "lvl"), ("lvl", "z"), ("lvl", "zc"), ("z", "gap"),
               ("gap", "zc"), ("zf", "x"), ("x", "zf"), ("zf", "neg"), ("neg", "zf"), ("zf", "rate"), ("rate", "zf"),
               ("zi", "b"), ("b", "zi"), ("zi", "ni"), ("ni", "zi"), ("zk", "k"), ("k", "zk"), ("zk", "k2"),
               ("k2", "zk"), ("zk", "nk"), ("nk", "zk"), ("lvl", "lvl"), ("lvl", "a"), ("a", "lvl"), ("lvl", "c"),
               ("ni", "ni"), ("ni", "b"), ("b", "ni"), ("nk", "nk"), ("nk", "k2"), ("k2", "nk"), ("nk", "k"),
               ("neg", "neg"), ("neg", "x"), ("x", "neg")]


def g_cmp(custom, ops=CMP):
    P, NN = _cmp_pairs(custom)
    for op in ops:
        for l, r in P:
            yield ["cmp", op, l, r]
            yield ["cmp", op, r, l]
        for l, r in NN:
            yield ["cmp", op, node(l), node(r)]
    # strings and booleans: equality and inequality only
    SB = [(node("s"), node("s2")), (node("s"), node("s3")), (node("s3"), node("s")), (node("f"), ["true"]),
          (node("f"), ["false"]), (node("g"), ["false"]), (["true"], node("f")), (node("f"), node("g")),
          (node("g"), node("g")), (["def", "a"], ["true"]), (["def", "zz"], ["false"]), (["def", "zz"], ["true"]),
          (["def", "a"], node("f")),
          (node("sm"), node("s")), (node("sm"), node("sm")), (node("s3"), node("sm")), (node("fm"), ["false"]),
          (node("fm"), ["true"]), (node("fm"), node("f")), (node("g"), node("fm")), (["def", "wm"], ["true"])]
    for op in ("==", "!="):
        if op in ops:
            for l, r in SB:
                yield ["cmp", op, l, r]


def g_single(custom):
    """truth atoms, their negations, comparisons plain / negated / negated in parentheses"""
    for x in (["true"], ["false"], ["bref", "f"], ["bref", "g"], ["def", "a"], ["def", "zz"], ["def", "s"],
              ["def", "arr"], ["bref", "fm"], ["def", "wm"], ["def", "fm"]):
        yield x
        yield ["not", x]
        yield par(x)
        yield ["not", par(x)]
    for c in g_cmp(custom):
        yield c
        yield ["not", c]
        yield ["not", par(c)]
        yield par(c)


# truth atoms for connectives: both truth values x every kind of object the library produces for them
B14 = [["true"], ["false"], ["bref", "f"], ["bref", "g"], ["def", "a"], ["def", "zz"], ["not", ["def", "zz"]],
       ["not", ["bref", "f"]], ["cmp", "==", node("a"), num("2", "m")], ["cmp", "==", node("a"), num("3", "m")],
       ["cmp", "<", node("a"), num("3", "m")], ["cmp", ">=", node("b"), num("4")],
       ["cmp", "==", node("s"), node("s2")], ["cmp", "!=", node("c"), num("150", "cm")]]
B6 = [["true"], ["bref", "g"], ["def", "zz"], ["cmp", "==", node("a"), num("2", "m")], ["not", ["bref", "f"]],
      ["cmp", "<", node("a"), num("3", "m")]]
B4 = [["bref", "f"], ["false"], ["cmp", "==", node("a"), num("3", "m")], ["cmp", "<=", node("c"), num("1.5", "m")]]
B3 = [["bref", "f"], ["cmp", "==", node("a"), num("3", "m")], ["cmp", "<=", node("c"), num("1.5", "m")]]
B2 = [["true"], ["false"]]
B10 = B6 + [["false"], ["bref", "f"], ["cmp", "==", node("s"), node("s3")], ["cmp", ">", node("b"), num("2")]]
# truth atoms that read modified nodes / integer nodes in different units (disjoint from B14)
BM = [["bref", "fm"], ["not", ["bref", "fm"]], ["cmp", "==", node("wm"), num("50", "cm")],
      ["cmp", "==", node("wm"), num("1", "m")], ["cmp", ">", node("k3"), node("k2")],
      ["cmp", "==", node("k3"), node("k2")], ["cmp", "<=", node("ms"), node("k2")],
      ["cmp", "!=", node("sm"), node("s")], ["cmp", "<", node("cnt"), num("8")]]
# truth atoms on magnitudes <= 1e-8 in the unit of the node (false, true, false, false, true, true)
BT = [["cmp", "==", node("gap"), num("2", "nm")], ["cmp", "!=", node("gap"), num("2", "nm")],
      ["cmp", ">=", node("gap"), num("5", "nm")], ["cmp", "==", node("rate"), num("8e-12")],
      ["cmp", "<=", node("gap"), num("1", "nm")], ["cmp", "<", node("gap2"), node("wide")]]
# truth atoms at the value zero and below it (true, true, false, true, true, false, true, false)
BZ = [["cmp", ">=", node("zi"), num("0")], ["cmp", "<=", node("z"), num("0", "cm")],
      ["cmp", ">", node("zi"), num("0")], ["cmp", "==", node("zc"), node("z")],
      ["cmp", "<=", node("lvl"), num("-250", "cm")], ["cmp", ">=", node("neg"), num("0")],
      ["cmp", ">=", num("0.0"), node("zf")], ["cmp", "!=", node("zk"), num("0", "m")]]
LOPS = ["&&", "||"]


def g_conn(n, alphabet):
    for ops in product(LOPS, repeat=n):
        for terms in product(alphabet, repeat=n + 1):
            yield flat(terms, ops)


def g_conn_group(n, alphabet):
    """one parenthesised (optionally negated) group of >= 2 consecutive terms"""
    for i in range(n + 1):
        for j in range(i + 1, n + 1):
            whole = (i == 0 and j == n)
            for ops in product(LOPS, repeat=n):
                for terms in product(alphabet, repeat=n + 1):
                    g = par(flat(terms[i:j + 1], ops[i:j]))
                    for inner in (g, ["not", g]):
                        if whole:
                            yield inner
                        else:
                            yield flat(list(terms[:i]) + [inner] + list(terms[j + 1:]), list(ops[:i]) + list(ops[j:]))


def g_conn_nested(alphabet):
    for o1, o2, o3 in product(LOPS, repeat=3):
        for x, y, z, w in product(alphabet, repeat=4):
            yield flat([x, par(flat([y, par(flat([z, w], [o3]))], [o2]))], [o1])
            yield flat([par(flat([par(flat([x, y], [o1])), z], [o2])), w], [o3])
            yield flat([par(flat([x, y], [o1])), par(flat([z, w], [o3]))], [o2])
            yield flat([["not", par(flat([x, y], [o1]))], ["not", par(flat([z, w], [o3]))]], [o2])
    for o1, o2 in product(LOPS, repeat=2):
        for x, y, z in product(alphabet, repeat=3):
            yield ["not", par(flat([x, ["not", par(flat([y, z], [o2]))]], [o1]))]


def log_streams(tier, seed):
    q = tier == "quick"
    S = []
    S.append(("log/single", "custom", lambda: g_single(True)))
    S.append(("log/single-plain", "plain", lambda: g_cmp(False, ops=["==", "<"])))
    S.append(("log/conn1", "custom", lambda: g_conn(1, B14)))
    S.append(("log/conn2", "custom", lambda: g_conn(2, B14)))
    S.append(("log/conn3", "custom", lambda: g_conn(3, B4 if q else B10)))
    S.append(("log/conn4", "custom", lambda: g_conn(4, B2 if q else B4)))
    S.append(("log/group1", "custom", lambda: g_conn_group(1, B14)))
    S.append(("log/group2", "custom", lambda: g_conn_group(2, B6 if q else B10)))
    S.append(("log/group3", "custom", lambda: g_conn_group(3, B3 if q else B6)))
    S.append(("log/nested", "custom", lambda: g_conn_nested(B3 if q else B6)))
    S.append(("log/modified1", "custom", lambda: g_conn(1, BM)))
    S.append(("log/modified2", "custom", lambda: g_conn(2, BM[:5] if q else BM)))
    S.append(("log/modified-group", "custom", lambda: g_conn_group(2, BM[:4])))
    S.append(("log/tiny-conn1", "custom", lambda: g_conn(1, BT)))
    S.append(("log/tiny-group1", "plain", lambda: g_conn_group(1, BT)))
    S.append(("log/zero-conn1", "custom", lambda: g_conn(1, BZ)))
    S.append(("log/zero-conn2", "plain", lambda: g_conn(2, BZ[:6])))
    S.append(("log/zero-group1", "plain", lambda: g_conn_group(1, BZ)))
    return S


def infile_log_streams(tier, seed):
    q = tier == "quick"
    S = []
    S.append(("ilog/single", "custom", lambda: g_single(True)))
    S.append(("ilog/single-plain", "plain", lambda: g_cmp(False, ops=["==", "!=", ">="])))
    S.append(("ilog/conn1", "custom", lambda: g_conn(1, B14)))
    S.append(("ilog/conn2", "custom", lambda: g_conn(2, B6 if q else B14)))
    S.append(("ilog/group2", "custom", lambda: g_conn_group(2, B4 if q else B6)))
    S.append(("ilog/api-single", "custom-api", lambda: g_cmp(True, ops=["=="])))
    S.append(("ilog/modified1", "custom", lambda: g_conn(1, BM)))
    S.append(("ilog/modified2", "plain", lambda: g_conn(2, BM[:5])))
    S.append(("ilog/tiny-conn1", "plain", lambda: g_conn(1, BT)))
    S.append(("ilog/tiny-group1", "custom", lambda: g_conn_group(1, BT[:4])))
    S.append(("ilog/zero-conn1", "plain", lambda: g_conn(1, BZ)))
    S.append(("ilog/zero-group1", "custom", lambda: g_conn_group(1, BZ[:4])))
    return S


# --------------------------------------------------------------------------------------------------- templates
FMTS = [None, "d", "05d", "5d", ".2f", "8.3f", "f", ".3e", "e", "s", "10s", ".3s", "b", "08b"]
SCALARS = ["id", "b", "a", "w", "h", "neg", "s", "name", "f", "g", "k", "x", "wm", "wt", "ws", "cnt", "fm", "sm"]
STR_SLICES = [[[1, 3]], [[5, None]], [[None, 2]], [[0, 0]], [[2, 2]], [[None, None]], [[3, 9]]]
ARR_ELEMS = [("arr", [[1, 1], [2, 2]]), ("arr", [[0, 0], [0, 0]]), ("arr", [[0, 0], [1, 1]]), ("iarr", [[1, 1]]),
             ("iarr", [[2, 2]]), ("iarr", [[0, 0]])]
TEXTS = ["x", " = ", "{x}", "{}", "}", "a{", ":", "[0]", ":d}", "{?a}", "{ {", "}}", "a b", "%d", "{0}", "{:d}"]


def tref(nodename, sl=None, fmt=None):
    return ["ref", nodename, sl, fmt]


def _valid_refs(env, invalid=False):
    """every reference form Python can format (the others are 'not demanded')"""
    out = []
    for n in SCALARS:
        for f in FMTS:
            out.append(tref(n, None, f))
    for n in ("s", "name", "sm"):
        for sl in STR_SLICES:
            for f in (None, "s", "10s", ".3s"):
                out.append(tref(n, sl, f))
    for n, sl in ARR_ELEMS:
        for f in FMTS:
            out.append(tref(n, sl, f))
    good, bad = [], []
    for r in out:
        try:
            R.tpl_eval([r], env)
            good.append(r)
        except RefSkip:
            pass
        except RefRaise:
            bad.append(r)
    return bad if invalid else good


def _small_refs():
    return [tref("id", None, "05d"), tref("s"), tref("a", None, ".2f"), tref("name", [[5, None]]), tref("f"),
            tref("arr", [[1, 1], [2, 2]], ".3e"), tref("w"), tref("iarr", [[1, 1]]), tref("wm"),
            tref("sm", [[1, 3]]), tref("cnt", None, "05d")]


def g_tpl_mismatch():
    """every (scalar node type x presentation type) that Python's format() refuses: alone, next to text, next to a
    valid reference"""
    env = _REF.get("plain") or ref_env("plain")
    for r in _valid_refs(env, invalid=True):
        yield [r]
        yield [["txt", "x = "], r]
        yield [r, ["txt", " y"]]
        yield [tref("s"), r]
        yield [r, tref("id", None, "05d")]


def _custom_refs():
    return [tref("d"), tref("dm"), tref("dm", None, ".2f"), tref("hh"), tref("hh", None, ".3e")]


def _tpl_ok(pieces):
    """a plain text ending in '{' directly before a reference makes '{{{' - which two braces start the reference is
    not specified, so such concatenations are not demanded"""
    for p, q in zip(pieces, pieces[1:]):
        if p[0] == "txt" and q[0] == "ref" and p[1].endswith("{"):
            return False
    return True


def g_tpl(tier):
    return (p for p in _g_tpl(tier) if _tpl_ok(p))


def _g_tpl(tier):
    env = _REF.get("plain") or ref_env("plain")
    refs = _valid_refs(env)
    small = _small_refs()
    texts = [["txt", t] for t in TEXTS]
    for t in texts:
        yield [t]
    for r in refs:
        yield [r]
        for t in texts:
            yield [r, t]
            yield [t, r]
    second = small if tier == "quick" else refs
    for r1 in refs:
        for r2 in second:
            yield [r1, r2]                                  # adjacent references
    for r1, r2 in product(small, repeat=2):
        for t in texts:
            yield [r1, t, r2]
            yield [t, r1, r2]
    for t1, t2 in product(texts, repeat=2):
        for r in small:
            yield [t1, r, t2]
    yield [["txt", "ID:      "], tref("id", None, "05d"), ["txt", "\nName:    "], tref("name"),
           ["txt", "\nWeight:  "], tref("w", None, ".3e"), ["txt", "\nMarried: "], tref("f"), ["txt", "\n"]]


INFILE_TEXTS = ["x", " = ", "{x}", "{}", "}", "a{", ":", "[0]", ":d}", "a b"]      # no quotes, '#', newline


def g_tpl_infile(tier):
    return (p for p in _g_tpl_infile(tier) if _tpl_ok(p))


def _g_tpl_infile(tier):
    env = _REF.get("plain") or ref_env("plain")
    refs = _valid_refs(env)
    small = _small_refs()
    texts = [["txt", t] for t in INFILE_TEXTS]
    for r in refs:
        yield [r]
        for t in texts[:4]:
            yield [r, t]
            yield [t, r]
    for r1, r2 in product(small, repeat=2):
        yield [r1, r2]
        for t in texts:
            yield [r1, t, r2]


# =================================================================================================== execution
def _beh(o):
    msg = o[2]
    if msg.startswith("('") or msg.startswith('("'):
        msg = msg[2:]
    for stop in (":", "'", '"', ","):
        i = msg.find(stop)
        if i > 0:
            msg = msg[:i]
    return "raises:%s:%s" % (o[1], msg.strip()[:60])


def _hash(*parts):
    return hash(parts)


def _num_units(refv, envname, extra):
    dims = refv[1]
    if dims == R.NODIM:
        return [None]
    units = [R.si_unit(dims)]
    if extra and dims == (1, 0, 0):
        units.append("cm")
    if dims == (1, 0, 0) and envname != "plain":
        units.append("[len]")
        units.append("[hand]")
    if extra and dims == (2, 0, 0):
        units.append("cm2")
    return units


def _solve_num(envname, text, unit):
    from scinumtools.dip.solvers import NumericalSolver
    with NumericalSolver(_live(envname)) as s:
        r = s.solve(text, unit)
    if unit is None:
        if hasattr(r, "units") and r.units():
            return ("dimensional", repr(r))
        return float(r.value())
    return r


_MODIFIED = {"wm", "ws", "wt", "cnt", "fm", "sm", "dm"}
_TINY = {"gap", "wide", "gap2", "rate", "rate2"}
_ZERO = {"z", "zc", "zf", "zi", "zk"}
_NEGATIVE = {"lvl", "ni", "nk", "neg"}


def _ref_tags(ast, tags):
    names = _names_in(ast, set())
    if "hh" in names:
        tags.add("custom-unit-defined-in-non-base-unit")
    if names & _MODIFIED:
        tags.add("node-modified-after-definition")
    if names & _TINY:
        tags.add("node-magnitude<=1e-8")
    if names & _ZERO:
        tags.add("node-value-zero")
    if names & _NEGATIVE:
        tags.add("node-value-negative")


def _num_tags(ast, envname, notes=()):
    tags = set(R.num_features(ast)) | set(notes)
    tags.add("env:" + envname)
    if envname != "plain":
        tags.add("custom-units-in-env")
    tags.add("operators=%d" % R.num_nops(ast))
    _ref_tags(ast, tags)
    return sorted(tags)


def run_num(envname, ast, extra, sh, sub="numerical"):
    """stand-alone NumericalSolver: one evaluation per requested unit"""
    text = R.num_render(ast)
    notes = set()
    try:
        refv = ("ok", R.num_eval(ast, _REF[envname], notes))
    except RefRaise as e:
        refv = ("raise", str(e))
    except RefSkip as e:
        sh.count("%s:not-demanded:%s" % (sub, e))
        return
    nontriv = R.num_nops(ast) >= 1
    if refv[0] == "raise":
        units = [None]
    else:
        try:
            units = _num_units(refv[1], envname, extra)
        except RefSkip as e:
            sh.count("%s:not-demanded:%s" % (sub, e))
            return
    for unit in units:
        case = dict(kind="num", env=envname, ast=ast, unit=unit, text=text)
        sh.evaluations += 1
        h = _hash("num", envname, text, unit)
        sh.add_to_set("cases", h)
        if nontriv:
            sh.add_to_set("nontrivial", h)
        bad = _judge_num(sub, case, refv, outcome(_solve_num, envname, text, unit), notes, sh)
        bad = bad or _env_guard(envname, sub, case, _num_tags(ast, envname, notes), sh)
        _clean(force=bad is not None)
        if bad:
            sh.fail(bad)
        elif len(sh.samples) < 3 and nontriv and sh.evaluations % 97 == 0:
            sh.sample(dict(sub=sub, env=envname, expr=text, unit=unit))


def _judge_num(sub, case, refv, o, notes, sh, infile_unit=None):
    tags = _num_tags(case["ast"], case["env"], notes)
    if case.get("unit") in ("[len]", "[hand]"):
        tags.append("requested-unit:custom")
    if case.get("unit") == "[hand]":
        tags.append("custom-unit-defined-in-non-base-unit")
    if refv[0] == "raise":
        if o[0] == "err":
            sh.count(sub + ":refused-as-demanded")
            return None
        sh.count(sub + ":FAIL-accepted")
        return failure(sub, case, "an error (%s)" % refv[1], _show(o[1]), tags=tags,
                       behaviour="accepted-instead-of-raising")
    if o[0] == "err":
        sh.count(sub + ":FAIL-raised")
        return failure(sub, case, float(refv[1][0]), list(o[1:]), tags=tags, behaviour=_beh(o))
    got = o[1]
    if isinstance(got, tuple) and got and got[0] == "dimensional":
        sh.count(sub + ":FAIL-dimension")
        return failure(sub, case, "dimensionless %r" % float(refv[1][0]), got[1], tags=tags,
                       behaviour="wrong-dimension")
    if isinstance(got, tuple) and got and got[0] == "node":
        # in-file observation: (value, unit)
        if got[1] is None:
            sh.count(sub + ":FAIL-none")
            return failure(sub, case, "a value", None, tags=tags, behaviour="node-value-none")
        if got[2] != case["unit"]:
            sh.count(sub + ":FAIL-unit")
            return failure(sub, case, case["unit"], got[2], tags=tags, behaviour="wrong-node-unit")
        got = got[1]
    ok, exp = R.num_agrees(got, refv[1], case["unit"])
    if ok:
        sh.count(sub + ":agrees")
        return None
    sh.count(sub + ":FAIL-value")
    return failure(sub, case, exp, _show(got), tags=tags, behaviour="wrong-value")


def _show(v):
    try:
        import numpy as np
        if isinstance(v, (np.floating, np.integer)):
            return float(v)
        if isinstance(v, np.bool_):
            return bool(v)
    except Exception:
        pass
    if isinstance(v, (int, float, str, bool, type(None))):
        return v
    return repr(v)


# --------------------------------------------------------------------------------------------------- in-file
def _names_in(ast, out):
    if isinstance(ast, list):
        if len(ast) >= 2 and ast[0] in ("ref", "node", "bref", "def") and isinstance(ast[1], str):
            out.add(ast[1])
        for x in ast:
            _names_in(x, out)
    return out


def _header(envname, asts):
    used = set()
    for a in asts:
        _names_in(a, used)
    return [ln for n, _, _, _, ln in _node_table(envname) if n in used]


def _infile_line(i, kind, text, unit):
    if kind == "num":
        return 'r%d float = ("%s")%s' % (i, text, "" if unit is None else " " + unit)
    if kind == "log":
        return 'r%d bool = ("%s")' % (i, text)
    return 'r%d str = ("%s")' % (i, text)


def _parse_infile(envname, kind, items):
    """items: list of (ast, text, unit) -> list of observations ('node', value, unit)"""
    lines = _header(envname, [a for a, _, _ in items])
    lines += [_infile_line(i, kind, t, u) for i, (_, t, u) in enumerate(items)]
    env = _parse_text(envname, lines)
    found = {}
    for n in env.nodes:
        found[n.name] = n
    out = []
    for i in range(len(items)):
        n = found.get("r%d" % i)
        if n is None:
            out.append(("node", None, "missing-node"))
        elif n.value is None:
            out.append(("node", None, None))
        else:
            out.append(("node", n.value.value, getattr(n.value, "unit", None)))
    return out


BATCH = 24


class InfileRunner:
    """collects cases that are expected to succeed into one DIP text; a failing text is re-run case by case"""

    def __init__(self, kind, sub, envname, sh, judge):
        self.kind, self.sub, self.envname, self.sh, self.judge = kind, sub, envname, sh, judge
        self.pending = []

    def add(self, item, refv, notes, batchable=True):
        if not batchable:
            self._single(item, refv, notes)
            return
        self.pending.append((item, refv, notes))
        if len(self.pending) >= BATCH:
            self.flush()

    def _single(self, item, refv, notes):
        o = outcome(_parse_infile, self.envname, self.kind, [item])
        _clean(force=o[0] == "err")
        if o[0] == "ok":
            o = ("ok", o[1][0])
        bad = self.judge(item, refv, o, notes)
        if bad:
            _clean(force=True)
            self.sh.fail(bad)

    def flush(self):
        if not self.pending:
            return
        items = [p[0] for p in self.pending]
        o = outcome(_parse_infile, self.envname, self.kind, items, timeout=60)
        _clean(force=o[0] == "err")
        if o[0] == "ok":
            for (item, refv, notes), obs in zip(self.pending, o[1]):
                bad = self.judge(item, refv, ("ok", obs), notes)
                if bad:
                    # confirm in isolation so that the record replays on its own
                    o1 = outcome(_parse_infile, self.envname, self.kind, [item])
                    _clean(force=True)
                    if o1[0] == "ok":
                        o1 = ("ok", o1[1][0])
                    bad1 = self.judge(item, refv, o1, notes, count=False)
                    self.sh.fail(bad1 if bad1 else self._batch_failure(items, "case fails only inside the batch"))
        else:
            self.sh.count(self.sub + ":batch-rerun")
            nbad = 0
            for item, refv, notes in self.pending:
                o1 = outcome(_parse_infile, self.envname, self.kind, [item])
                _clean(force=o1[0] == "err")
                if o1[0] == "ok":
                    o1 = ("ok", o1[1][0])
                bad = self.judge(item, refv, o1, notes)
                if bad:
                    nbad += 1
                    self.sh.fail(bad)
            if nbad == 0:
                self.sh.fail(self._batch_failure(items, list(o[1:])))
        self.pending = []

    def _batch_failure(self, items, observed):
        case = dict(kind="batch", sub=self.sub, env=self.envname, ikind=self.kind,
                    items=[[a, u] for a, _, u in items])
        return failure(self.sub + "-batch", case, "every node of the text parses as it does on its own", observed,
                       tags=["env:" + self.envname, "several-expression-nodes-in-one-text"],
                       behaviour="batch-only-failure")


def run_infile_num(envname, gen, sh, sub="infile-numerical"):
    def judge(item, refv, o, notes, count=True):
        ast, text, unit = item
        case = dict(kind="inum", env=envname, ast=ast, unit=unit, text=text)
        tsh = sh if count else Shard()
        bad = _judge_num(sub, case, refv, o, notes, tsh)
        if bad and unit is None and refv[0] == "ok":
            bad["tags"] = sorted(set(bad["tags"]) | {"dimensionless-node-without-unit"})
        return bad

    runner = InfileRunner("num", sub, envname, sh, judge)
    runner0 = InfileRunner("num", sub, envname, sh, judge)      # nodes without unit: kept in texts of their own
    for ast in gen:
        text = R.num_render(ast)
        notes = set()
        try:
            refv = ("ok", R.num_eval(ast, _REF[envname], notes))
        except RefRaise as e:
            refv = ("raise", str(e))
        except RefSkip as e:
            sh.count("%s:not-demanded:%s" % (sub, e))
            continue
        if refv[0] == "ok":
            try:
                units = _num_units(refv[1], envname, False)
            except RefSkip as e:
                sh.count("%s:not-demanded:%s" % (sub, e))
                continue
        else:
            units = ["m"]
        nontriv = R.num_nops(ast) >= 1
        for unit in units:
            sh.evaluations += 1
            h = _hash("inum", envname, text, unit)
            sh.add_to_set("cases", h)
            if nontriv:
                sh.add_to_set("nontrivial", h)
            (runner0 if unit is None else runner).add((ast, text, unit), refv, notes, batchable=refv[0] == "ok")
    runner.flush()
    runner0.flush()


# --------------------------------------------------------------------------------------------------- logical
def _solve_log(envname, text):
    from scinumtools.dip.solvers import LogicalSolver
    with LogicalSolver(_live(envname)) as s:
        r = s.solve(text)
    return r


def _truth(r):
    """the documented way to read the result: .value of the returned boolean type, else bool()"""
    v = r.value if hasattr(r, "value") and not isinstance(r, (bool, int, float)) else r
    if isinstance(v, (list, tuple)) or (hasattr(v, "shape") and getattr(v, "shape", ()) != ()):
        return ("non-scalar", repr(v))
    return bool(v)


def _log_tags(ast, envname):
    tags = set(R.log_features(ast, _REF[envname]))
    _ref_tags(ast, tags)
    tags.add("env:" + envname)
    return sorted(tags)


def _judge_log(sub, case, exp, o, sh):
    tags = _log_tags(case["ast"], case["env"])
    if o[0] == "err":
        sh.count(sub + ":FAIL-raised")
        return failure(sub, case, exp, list(o[1:]), tags=tags, behaviour=_beh(o))
    got = o[1]
    if isinstance(got, tuple) and got and got[0] == "node":
        if got[1] is None:
            sh.count(sub + ":FAIL-none")
            return failure(sub, case, exp, None, tags=tags + ["expected:%s" % str(exp).lower()],
                           behaviour="node-value-none")
        got = got[1]
    t = _truth(got)
    if t is exp:
        sh.count(sub + (":true" if exp else ":false"))
        return None
    sh.count(sub + ":FAIL-truth")
    return failure(sub, case, exp, _show(t), tags=tags, behaviour="wrong-truth-value")


def run_log(envname, ast, sh, sub="logical"):
    text = R.log_render(ast)
    try:
        exp = R.log_eval(ast, _REF[envname])
    except RefSkip as e:
        sh.count("%s:not-demanded:%s" % (sub, e))
        return
    case = dict(kind="log", env=envname, ast=ast, text=text)
    sh.evaluations += 1
    h = _hash("log", envname, text)
    sh.add_to_set("cases", h)
    if R.log_nops(ast) >= 1:
        sh.add_to_set("nontrivial", h)
    o = outcome(_solve_log, envname, text)
    bad = _judge_log(sub, case, exp, o, sh)
    bad = bad or _env_guard(envname, sub, case, _log_tags(ast, envname), sh)
    _clean(force=bad is not None)
    if bad:
        sh.fail(bad)
    elif len(sh.samples) < 3 and sh.evaluations % 89 == 0:
        sh.sample(dict(sub=sub, env=envname, expr=text, value=exp))


def run_infile_log(envname, gen, sh, sub="infile-logical"):
    def judge(item, exp, o, notes, count=True):
        ast, text, _ = item
        case = dict(kind="ilog", env=envname, ast=ast, text=text)
        return _judge_log(sub, case, exp, o, sh if count else Shard())

    runner = InfileRunner("log", sub, envname, sh, judge)
    for ast in gen:
        text = R.log_render(ast)
        try:
            exp = R.log_eval(ast, _REF[envname])
        except RefSkip as e:
            sh.count("%s:not-demanded:%s" % (sub, e))
            continue
        sh.evaluations += 1
        h = _hash("ilog", envname, text)
        sh.add_to_set("cases", h)
        if R.log_nops(ast) >= 1:
            sh.add_to_set("nontrivial", h)
        runner.add((ast, text, None), exp, None)
    runner.flush()


# --------------------------------------------------------------------------------------------------- templates
def _solve_tpl(envname, text):
    from scinumtools.dip.solvers import TemplateSolver
    with TemplateSolver(_live(envname)) as s:
        return s.solve(text)


def _tpl_tags(pieces, envname):
    tags = {"env:" + envname}
    nrefs = 0
    prev = None
    for p in pieces:
        if p[0] == "ref":
            nrefs += 1
            kind = _REF[envname].nodes[p[1]][0]
            tags.add("node:" + kind)
            if p[2]:
                tags.add("slice")
            if p[3]:
                tags.add("format:" + p[3])
            if p[1] in _MODIFIED:
                tags.add("node-modified-after-definition")
            if prev == "ref":
                tags.add("adjacent-references")
        else:
            if "{" in p[1] or "}" in p[1]:
                tags.add("plain-braces")
        prev = p[0]
    tags.add("references=%d" % nrefs)
    return sorted(tags)


def _tpl_expected(pieces, envname):
    try:
        return R.tpl_eval(pieces, _REF[envname])
    except RefRaise as e:
        return ["raise", str(e)]


def _judge_tpl(sub, case, exp, o, sh):
    tags = _tpl_tags(case["ast"], case["env"])
    if isinstance(exp, list) and exp and exp[0] == "raise":
        if o[0] == "err":
            sh.count(sub + ":refused-as-demanded")
            return None
        sh.count(sub + ":FAIL-accepted")
        return failure(sub, case, "an error (%s)" % exp[1], _show(o[1]), tags=tags + ["format-refused-by-python"],
                       behaviour="accepted-instead-of-raising")
    if o[0] == "err":
        sh.count(sub + ":FAIL-raised")
        return failure(sub, case, exp, list(o[1:]), tags=tags, behaviour=_beh(o))
    got = o[1]
    if isinstance(got, tuple) and got and got[0] == "node":
        if got[1] is None:
            sh.count(sub + ":FAIL-none")
            return failure(sub, case, exp, None, tags=tags, behaviour="node-value-none")
        got = got[1]
    if isinstance(got, str) and got == exp:
        sh.count(sub + ":agrees")
        return None
    sh.count(sub + ":FAIL-text")
    return failure(sub, case, exp, _show(got), tags=tags, behaviour="wrong-text")


def run_tpl(envname, pieces, sh, sub="template"):
    text = R.tpl_render(pieces)
    try:
        exp = R.tpl_eval(pieces, _REF[envname])
    except RefSkip as e:
        sh.count("%s:not-demanded:%s" % (sub, e))
        return
    except RefRaise as e:
        exp = ["raise", str(e)]
    case = dict(kind="tpl", env=envname, ast=pieces, text=text)
    sh.evaluations += 1
    h = _hash("tpl", envname, text)
    sh.add_to_set("cases", h)
    if any(p[0] == "ref" for p in pieces):
        sh.add_to_set("nontrivial", h)
    o = outcome(_solve_tpl, envname, text)
    bad = _judge_tpl(sub, case, exp, o, sh)
    bad = bad or _env_guard(envname, sub, case, _tpl_tags(pieces, envname), sh)
    _clean(force=bad is not None)
    if bad:
        sh.fail(bad)
    elif len(sh.samples) < 3 and sh.evaluations % 83 == 0:
        sh.sample(dict(sub=sub, template=text, text=exp))


def run_infile_tpl(envname, gen, sh, sub="infile-template"):
    def judge(item, exp, o, notes, count=True):
        ast, text, _ = item
        case = dict(kind="itpl", env=envname, ast=ast, text=text)
        return _judge_tpl(sub, case, exp, o, sh if count else Shard())

    runner = InfileRunner("tpl", sub, envname, sh, judge)
    for pieces in gen:
        text = R.tpl_render(pieces)
        try:
            exp = R.tpl_eval(pieces, _REF[envname])
        except RefSkip as e:
            sh.count("%s:not-demanded:%s" % (sub, e))
            continue
        if exp.strip() in ("", "none", "true", "false") or exp != exp.strip():
            # the value of a string node is read back as the literal written; keyword-like or blank-framed texts
            # are C13/C14 territory
            sh.count(sub + ":not-demanded:keyword-like or blank-framed text as node value")
            continue
        sh.evaluations += 1
        h = _hash("itpl", envname, text)
        sh.add_to_set("cases", h)
        sh.add_to_set("nontrivial", h)
        runner.add((pieces, text, None), exp, None)
    runner.flush()


# =================================================================================================== histories (E1)
# Several solver calls on ONE environment: the k-th result must equal the result of the same call on a fresh
# environment, and the node values of the environment must stay what they were (differential oracle; nothing is
# assumed about the results themselves, so the alphabet may contain forms whose value the statement leaves open,
# e.g. a unit-less literal compared with a dimensional node - only "same as on a fresh environment" is demanded).
HIST_NODES = ["a", "c", "a2", "b", "k", "k2", "k3", "ms", "x", "s", "s2", "f", "wm", "d", "hh"]


def _h_log(ast):
    return ["log", ast, None]


def _h_num(ast, unit):
    return ["num", ast, unit]


def _h_tpl(*pieces):
    return ["tpl", list(pieces), None]


def _c(op, l, r):
    return ["cmp", op, l if isinstance(l, list) else node(l), r if isinstance(r, list) else node(r)]


HCALLS = [
    # node-vs-node comparisons in different units (float-float, int-int, custom units), both orders
    _h_log(_c(">", "a", "c")), _h_log(_c("<", "c", "a")), _h_log(_c("==", "a", "a2")), _h_log(_c("==", "a2", "a")),
    _h_log(_c("<=", "c", "a2")), _h_log(_c("!=", "a", "c")), _h_log(_c(">", "k3", "k2")), _h_log(_c("<", "k2", "k3")),
    _h_log(_c("==", "k3", "k2")), _h_log(_c("<", "ms", "k2")), _h_log(_c(">=", "k", "ms")), _h_log(_c("==", "d", "a")),
    _h_log(_c("<", "hh", "c")), _h_log(_c(">", "wm", "c")),
    _h_log(flat([_c(">", "a", "c"), _c("<", "k2", "k3")], ["&&"])), _h_log(["not", par(_c("==", "c", "a"))]),
    # node vs literal with unit / without unit (bare number of the node), other truth atoms
    _h_log(_c("==", "a", num("2", "m"))), _h_log(_c("==", "a", num("200", "cm"))), _h_log(_c("<", num("100", "cm"), "c")),
    _h_log(_c("<", "a", num("50"))), _h_log(_c(">=", "c", num("100"))), _h_log(_c(">", "k3", num("100"))),
    _h_log(_c("==", "k2", num("2"))), _h_log(_c("<", "wm", num("1"))), _h_log(_c("==", "b", num("3"))),
    _h_log(["bref", "f"]), _h_log(["def", "a"]), _h_log(_c("==", "s", "s2")),
    # numerical expressions on the same nodes
    _h_num(flat([Ra, Rc], ["+"]), "m"), _h_num(flat([Rc, ref("a2")], ["-"]), "cm"), _h_num(Rc, "cm"), _h_num(Ra, "cm"),
    _h_num(flat([ref("k3"), ref("k2")], ["/"]), None), _h_num(flat([Ra, Rb], ["*"]), "m"),
    _h_num(flat([Rd, Rhh], ["+"]), "[len]"), _h_num(flat([Rwm, Rc], ["+"]), "cm"), _h_num(ref("k3"), "m"),
    # templates print the bare numbers
    _h_tpl(tref("a")), _h_tpl(tref("c", None, ".1f")), _h_tpl(tref("k3", None, "d")), _h_tpl(tref("a2"), ["txt", " "],
                                                                                                tref("a")),
    _h_tpl(tref("k2")), _h_tpl(tref("d")), _h_tpl(tref("wm")), _h_tpl(tref("ms", None, "05d")), _h_tpl(tref("s", [[1, 3]])),
    # failing calls
    _h_num(flat([Ra, Rb], ["+"]), None), _h_log(_c("==", "a", "b")), _h_num(flat([Ra, ref("zz")], ["+"]), "m"),
]
# core alphabet for triples: every kind of call that can touch a node + every kind of reader
HCORE = [0, 1, 2, 3, 6, 8, 9, 11, 12, 14, 16, 19, 20, 21, 22, 28, 30, 32, 37, 38, 39, 41, 46, 47]


def _h_text(call):
    kind, ast, unit = call
    return dict(num=R.num_render, log=R.log_render, tpl=R.tpl_render)[kind](ast)


def _h_env():
    table = {n: ln for n, _, _, _, ln in _node_table("custom")}
    return _parse_text("custom", [table[n] for n in HIST_NODES])


def _h_snapshot(env):
    out = []
    for n in env.nodes:
        v = n.value
        out.append((n.name, type(v).__name__, repr(getattr(v, "value", v)), repr(getattr(v, "unit", None)),
                    repr(n.value_raw), repr(n.units_raw)))
    units = tuple(sorted((k, repr(v.get("magnitude")), repr(v.get("dimensions"))) for k, v in env.units.items()))
    return (tuple(out), units)


def _h_exec(env, call):
    from scinumtools.dip.solvers import NumericalSolver, LogicalSolver, TemplateSolver
    kind, ast, unit = call
    text = _h_text(call)

    def go():
        if kind == "num":
            with NumericalSolver(env) as s:
                r = s.solve(text, unit)
            return repr(float(r)) if unit is not None else (repr(float(r.value())), repr(r.units()))
        if kind == "log":
            with LogicalSolver(env) as s:
                return _truth(s.solve(text))
        with TemplateSolver(env) as s:
            return s.solve(text)
    o = outcome(go)
    _clean(force=o[0] == "err")
    return list(o)


_H_FRESH = {}
_H_PRISTINE = [None]


def _h_fresh(i):
    if i not in _H_FRESH:
        env = _h_env()
        if _H_PRISTINE[0] is None:
            _H_PRISTINE[0] = _h_snapshot(env)
        _H_FRESH[i] = _h_exec(env, HCALLS[i])
    return _H_FRESH[i]


def _is_nn_units(call):
    kind, ast, _ = call
    if kind != "log":
        return False
    found = []

    def walk(a):
        if isinstance(a, list):
            if a and a[0] == "cmp" and a[2][0] == "node" and a[3][0] == "node":
                ul, ur = _REF["custom"].nodes[a[2][1]][2], _REF["custom"].nodes[a[3][1]][2]
                if ul != ur:
                    found.append(1)
            for x in a:
                walk(x)
    walk(ast)
    return bool(found)


def run_history(idx, sh, calls=None):
    """execute one history on one environment; -> failure record or None"""
    calls = [HCALLS[i] for i in idx] if calls is None else calls
    fresh_of = (lambda k: _h_fresh(idx[k])) if idx is not None else None
    env = _h_env()
    pristine = _h_snapshot(env)
    sh.add_to_set("hist_states", hash(pristine))
    bad = None
    errs_before = False
    for k, call in enumerate(calls):
        got = _h_exec(env, call)
        sh.transitions += 1
        if fresh_of is not None:
            exp = fresh_of(k)
        else:
            exp = _h_exec(_h_env(), call)
        snap = _h_snapshot(env)
        sh.add_to_set("hist_states", hash(snap))
        if got[0] == "err" and bad is None:
            errs_after = True
        else:
            errs_after = False
        if bad is None and (got != exp or snap != pristine):
            tags = ["history-length=%d" % (k + 1), "call:" + call[0]]
            if any(_is_nn_units(c) for c in calls[:k + 1]):
                tags.append("after-node-vs-node-comparison-in-different-units")
            if errs_before:
                tags.append("after-failing-call")
            case = dict(kind="hist", env="custom", calls=[list(c) for c in calls[:k + 1]],
                        text=" ; ".join(_h_text(c) for c in calls[:k + 1]))
            if got != exp:
                bad = failure("history", case, exp, got, tags=tags, behaviour="result-differs-from-fresh-environment")
            else:
                changed = [a for a, b in zip(snap[0], pristine[0]) if a != b]
                bad = failure("history", case, "environment nodes unchanged", [list(c) for c in changed[:3]],
                              tags=tags, behaviour="environment-node-changed")
        errs_before = errs_before or errs_after
    sh.traces += 1
    sh.max_depth = max(sh.max_depth, len(calls))
    return bad


def g_hist(n, alphabet):
    return product(alphabet, repeat=n)


def hist_streams(tier, seed):
    S = [("hist/pairs", lambda: g_hist(2, range(len(HCALLS))))]
    if tier == "thorough":
        S.append(("hist/triples", lambda: g_hist(3, HCORE)))
    return S


# =================================================================================================== documents (E1)
# Sequences of DIP documents in ONE process that define the same custom unit symbol differently (`$unit len = 2 m`
# in the first text, `$unit len = 5 m` in the next, ...; in the text or through DIP.add_unit).  "Custom units defined
# in the same text are usable" and "the result ... equals the exact result" are demanded of every document, whatever
# the process evaluated before: every probe of every document is compared with the reference evaluator in which
# [len] has the definition of THAT document.  One case = one whole sequence (so that a replay in a fresh process sees
# the same history); everything the library keeps at module / class level is put back before and after each case.
REDEF_DEFS = [("2", "m"), ("5", "m"), ("10", "cm"), ("3", "s")]        # definitions of [len] (the last: another dimension)
REDEF_MODES = ("text", "api")
REDEF_NODES = [("a", "float", 2.0, "m", "a float = 2 m"), ("t", "float", 4.0, "s", "t float = 4 s"),
               ("d", "float", 1.0, "[len]", "d float = 1 [len]"), ("e", "float", 0.5, "[len]", "e float = 0.5 [len]")]
L3len = lit("3", "[len]")
REDEF_ALPHABET = [L3len, Rd, Ra, Rt]
REDEF_ALPHABET_THOROUGH = [L3len, Rd, Ra, Rt, L1len, lit("2", "s"), L3]
REDEF_INFILE = [L3len, Rd, Ra]


def _redef_num_probes(tier):
    al = REDEF_ALPHABET if tier == "quick" else REDEF_ALPHABET_THOROUGH
    out = list(g_flat(0, al)) + list(g_flat(1, al))
    out += [flat([L3len, Ra, Rd], ["+", "-"]), flat([Ra, L3len, Rd], ["+", "*"]), par(flat([Rd, L3len], ["+"])),
            flat([par(flat([Ra, Rd], ["+"])), L3len], ["/"]), fn("pow", Rd, lit("2")),
            fn("exp", flat([L3len, Rd], ["/"]))]
    return out


def _redef_log_probes():
    out = []
    lits = [num("1", "[len]"), num("2", "m"), num("5", "m"), num("10", "cm"), num("3", "s"), num("0.5", "[len]"),
            num("20", "[len]"), num("0.4", "[len]"), num("1.00001", "[len]")]
    for op in ("==", "<", ">="):
        for n in ("a", "d", "t"):
            for l in lits:
                out.append(["cmp", op, node(n), l])
                out.append(["cmp", op, l, node(n)])
        for l, r in (("a", "d"), ("d", "a"), ("d", "e"), ("e", "d"), ("t", "d"), ("d", "t")):
            out.append(["cmp", op, node(l), node(r)])
    return out


def _redef_infile_probes():
    return list(g_flat(0, REDEF_INFILE)) + list(g_flat(1, REDEF_INFILE))


_MODSTATE = None
_CONTAINERS = (list, dict, set)


def _modstate_snapshot():
    """remember everything the library keeps at module level or class level: the bindings of every scinumtools module
    (other than modules / functions / classes), and the content of every list / dict / set reachable from a module
    attribute, a class attribute or a default argument through lists / dicts / sets / tuples"""
    global _MODSTATE
    import sys
    import types
    import scinumtools.dip                        # noqa: F401  (everything the solvers use must be loaded first)
    import scinumtools.dip.solvers                # noqa: F401
    import scinumtools.units                      # noqa: F401
    import scinumtools.solver                     # noqa: F401
    mods = [m for n, m in sorted(sys.modules.items())
            if m is not None and (n == "scinumtools" or n.startswith("scinumtools."))]
    bindings, cont, seen = [], {}, set()

    def reach(obj, depth=0):
        if isinstance(obj, _CONTAINERS):
            if id(obj) in cont or depth > 4 or len(obj) > 5000:
                return
            cont[id(obj)] = (obj, obj.copy())
            for x in (obj.values() if isinstance(obj, dict) else list(obj)):
                reach(x, depth + 1)
        elif isinstance(obj, tuple) and depth <= 4:
            for x in obj:
                reach(x, depth + 1)

    def reach_fn(f):
        f = f.__func__ if isinstance(f, (staticmethod, classmethod)) else f
        if isinstance(f, types.FunctionType):
            reach(f.__defaults__ or ())
            reach(tuple((f.__kwdefaults__ or {}).values()))

    for m in mods:
        keep = {}
        for name, val in list(vars(m).items()):
            if name.startswith("__"):
                continue
            if isinstance(val, types.ModuleType):
                continue
            if isinstance(val, type):
                if getattr(val, "__module__", "").startswith("scinumtools") and id(val) not in seen:
                    seen.add(id(val))
                    keep_c = {}
                    for cn, cv in list(vars(val).items()):
                        if cn.startswith("__") and cn != "__init__":
                            continue
                        reach(cv)
                        reach_fn(cv)
                        if not callable(cv) and not isinstance(cv, (staticmethod, classmethod, property)) \
                                and not hasattr(cv, "__get__"):
                            keep_c[cn] = cv
                    bindings.append((val, keep_c, set(vars(val))))
                continue
            if isinstance(val, (types.FunctionType, types.BuiltinFunctionType)):
                reach_fn(val)
                continue
            reach(val)
            keep[name] = val
        bindings.append((m, keep, set(vars(m))))
    _MODSTATE = (bindings, cont)


def _modstate_restore():
    """put the remembered state back in place -> names of what had changed"""
    if _MODSTATE is None:
        return []
    changed = []
    bindings, cont = _MODSTATE
    for obj, old in cont.values():
        if isinstance(obj, dict):
            same = len(obj) == len(old) and all(k in obj and obj[k] is v for k, v in old.items())
        elif isinstance(obj, list):
            same = len(obj) == len(old) and all(x is y for x, y in zip(obj, old))
        else:
            same = len(obj) == len(old) and obj == old
        if not same:
            changed.append(type(obj).__name__)
            if isinstance(obj, list):
                obj[:] = old
            else:
                obj.clear()
                obj.update(old)
    for owner, keep, names in bindings:
        cur = vars(owner)
        for name, val in keep.items():
            if name not in cur or cur[name] is not val:
                changed.append("%s.%s" % (getattr(owner, "__name__", "?"), name))
                setattr(owner, name, val)
        for name in set(cur) - names:
            if not name.startswith("__"):
                changed.append("%s.%s(new)" % (getattr(owner, "__name__", "?"), name))
                try:
                    delattr(owner, name)
                except Exception:
                    pass
    return changed


def _redef_parse(mode, number, unit, infile):
    """one document: definition of [len], the nodes, the in-file probes -> environment"""
    from scinumtools.dip import DIP
    lines = [ln for *_, ln in REDEF_NODES]
    lines += ['r%d float = ("%s") %s' % (i, text, u) for i, (text, u) in enumerate(infile)]
    with DIP() as dip:
        if mode == "api":
            dip.add_unit("len", float(number) if "." in number else int(number), unit)
        else:
            lines.insert(0, "$unit len = %s %s" % (number, unit))
        dip.add_string("\n".join(lines) + "\n")
        return dip.parse()


def _redef_units(refv):
    dims = refv[1]
    if dims == R.NODIM:
        return [None]
    units = [R.si_unit(dims)]
    if dims == R.UNITS["[len]"][1]:
        units.append("[len]")
    return units


def _redef_solve_num(env, text, unit):
    from scinumtools.dip.solvers import NumericalSolver
    with NumericalSolver(env) as s:
        r = s.solve(text, unit)
    if unit is None:
        if hasattr(r, "units") and r.units():
            return ("dimensional", repr(r))
        return float(r.value())
    return r


def _redef_solve_log(env, text):
    from scinumtools.dip.solvers import LogicalSolver
    with LogicalSolver(env) as s:
        return s.solve(text)


def run_redef(docs, tier, sh):
    """docs: list of [mode, number text, unit]; -> failure record (first probe that disagrees) or None"""
    _modstate_restore()
    _clean(force=True)
    try:
        return _run_redef(docs, tier, sh)
    finally:
        _modstate_restore()
        _clean(force=True)


def _run_redef(docs, tier, sh):
    sub = "unit-redefinition"
    refenv = R.Env({n: (k, v, u) for n, k, v, u, _ in REDEF_NODES})
    seen_defs = []
    nprobes = 0
    for di, (mode, number, unit) in enumerate(docs):
        base = ["document=%d-of-%d" % (di + 1, len(docs)), "definition:" + mode, "env:redefinition"]
        if any(d != (number, unit) for d in seen_defs):
            base.append("symbol-defined-differently-by-an-earlier-document")
        if any(R.UNITS[d[1]][1] != R.UNITS[unit][1] for d in seen_defs):
            base.append("earlier-definition-of-another-dimension")
        seen_defs.append((number, unit))

        def case_of(kind, ast, text, u):
            return dict(kind="redef", env="custom", tier=tier, docs=[list(d) for d in docs], doc=di, probe=kind,
                        ast=ast, unit=u, text="%s  [document %d: len = %s %s]" % (text, di + 1, number, unit))

        def fix(bad, kind):
            bad["sub"] = sub
            bad["tags"] = sorted(set(t for t in bad["tags"] if not t.startswith("env:")) | set(base)
                                 | {"probe:" + kind})
            return bad

        with R.custom_units({"[len]": (number, unit)}):
            # in-file probes: node values computed while the document is parsed
            infile = []
            for ast in _redef_infile_probes():
                try:
                    refv = R.num_eval(ast, refenv, set())
                    u = _redef_units(refv)[-1]
                except (RefRaise, RefSkip):
                    continue
                if u is not None:
                    infile.append((ast, R.num_render(ast), u, refv))
            o = outcome(_redef_parse, mode, number, unit, [(t, u) for _, t, u, _ in infile], timeout=60)
            _clean(force=o[0] == "err")
            if o[0] != "ok":
                sh.count(sub + ":FAIL-document")
                return failure(sub, case_of("document", None, "<whole document>", None), "the document parses",
                               list(o[1:]), tags=sorted(base + ["probe:document"]), behaviour=_beh(o))
            env = o[1]
            found = {n.name: n for n in env.nodes}
            scratch = Shard()
            for i, (ast, text, u, refv) in enumerate(infile):
                n = found.get("r%d" % i)
                obs = ("node", None, None) if n is None or n.value is None else \
                    ("node", n.value.value, getattr(n.value, "unit", None))
                nprobes += 1
                bad = _judge_num(sub, case_of("infile-num", ast, text, u), ("ok", refv), ("ok", obs), set(), scratch)
                if bad:
                    sh.count(sub + ":FAIL-infile-numerical")
                    return fix(bad, "infile-num")
            # stand-alone numerical probes
            for ast in _redef_num_probes(tier):
                text = R.num_render(ast)
                notes = set()
                try:
                    refv = ("ok", R.num_eval(ast, refenv, notes))
                    units = _redef_units(refv[1])
                except RefRaise as e:
                    refv, units = ("raise", str(e)), [None]
                except RefSkip:
                    continue
                for u in units:
                    nprobes += 1
                    bad = _judge_num(sub, case_of("num", ast, text, u), refv,
                                     outcome(_redef_solve_num, env, text, u), notes, scratch)
                    _clean()
                    if bad:
                        sh.count(sub + ":FAIL-numerical")
                        return fix(bad, "num")
            # logical probes (comparisons across dimensions etc. are not demanded: RefSkip)
            for ast in _redef_log_probes():
                text = R.log_render(ast)
                try:
                    exp = R.log_eval(ast, refenv)
                except RefSkip:
                    continue
                nprobes += 1
                tags = sorted(R.log_features(ast, refenv))
                o = outcome(_redef_solve_log, env, text)
                _clean()
                case = case_of("log", ast, text, None)
                if o[0] == "err":
                    sh.count(sub + ":FAIL-logical")
                    return fix(failure(sub, case, exp, list(o[1:]), tags=tags, behaviour=_beh(o)), "log")
                t = _truth(o[1])
                if t is not exp:
                    sh.count(sub + ":FAIL-logical")
                    return fix(failure(sub, case, exp, _show(t), tags=tags, behaviour="wrong-truth-value"), "log")
                sh.count(sub + (":true" if exp else ":false"))
            for k, v in scratch.hist.items():
                sh.count(k, v)
    sh.add_extra("redefinition_documents", len(docs))
    sh.add_extra("redefinition_probe_evaluations", nprobes)
    return None


def g_redef(n, modes):
    """every sequence of n documents: definitions x way of defining"""
    for defs in product(REDEF_DEFS, repeat=n):
        for ms in product(modes, repeat=n):
            yield [[m, d[0], d[1]] for m, d in zip(ms, defs)]


def redef_streams(tier, seed):
    S = [("redef/pairs", lambda: g_redef(2, REDEF_MODES))]
    if tier == "thorough":
        S.append(("redef/triples", lambda: g_redef(3, REDEF_MODES)))
    return S


# =================================================================================================== plan / shards
def _streams(tier, seed):
    """name -> (runner kind, env, generator factory, extra)"""
    out = {}
    for name, env, g, extra in num_streams(tier, seed):
        out[name] = ("num", env, g, extra)
    for name, env, g in infile_num_streams(tier, seed):
        out[name] = ("inum", env, g, None)
    for name, env, g in log_streams(tier, seed):
        out[name] = ("log", env, g, None)
    for name, env, g in infile_log_streams(tier, seed):
        out[name] = ("ilog", env, g, None)
    for name, g in hist_streams(tier, seed):
        out[name] = ("hist", "custom", g, None)
    for name, g in redef_streams(tier, seed):
        out[name] = ("redef", "custom", g, None)
    out["tpl/all"] = ("tpl", "plain", lambda: g_tpl(tier), None)
    out["tpl/format-mismatch"] = ("tpl", "plain", lambda: g_tpl_mismatch(), None)
    out["tpl/custom-env"] = ("tpl", "custom", lambda: ([r] for r in _valid_refs(_REF["plain"]) + _custom_refs()), None)
    out["itpl/all"] = ("itpl", "plain", lambda: g_tpl_infile(tier), None)
    out["itpl/custom"] = ("itpl", "custom", lambda: ([r] for r in _small_refs() + _custom_refs()), None)
    return out


# approximate cost per case (ms) used only to size the shards
_COST = dict(num=1.6, inum=5.0, log=0.5, ilog=3.0, tpl=0.35, itpl=3.0, hist=12.0, redef=600.0)
_SHARD_MS = dict(quick=6000.0, thorough=60000.0)


def plan(tier, seed):
    init_worker()
    shards = []
    for name, (kind, env, g, extra) in _streams(tier, seed).items():
        n = sum(1 for _ in g())
        if n == 0:
            raise HarnessError("empty stream " + name)
        k = max(1, int(n * _COST[kind] / _SHARD_MS[tier] + 0.999))
        for i in range(k):
            shards.append((tier, seed, name, i, k))
    # biggest first (better packing)
    return shards


def run_shard(desc):
    tier, seed, name, i, k = desc
    kind, env, g, extra = _streams(tier, seed)[name]
    sh = Shard(PROPERTY)
    prime_inspect_cache()
    gen = islice(g(), i, None, k)
    before = sh.evaluations
    if kind == "num":
        sub = "numerical" if env == "plain" else "numerical-custom"
        for ast in gen:
            run_num(env, ast, extra, sh, sub)
    elif kind == "inum":
        run_infile_num(env, gen, sh)
    elif kind == "log":
        for ast in gen:
            run_log(env, ast, sh)
    elif kind == "ilog":
        run_infile_log(env, gen, sh)
    elif kind == "tpl":
        for p in gen:
            run_tpl(env, p, sh)
    elif kind == "itpl":
        run_infile_tpl(env, gen, sh)
    elif kind == "hist":
        for idx in gen:
            idx = tuple(idx)
            sh.evaluations += 1
            h = _hash("hist", idx)
            sh.add_to_set("cases", h)
            sh.add_to_set("nontrivial", h)
            bad = run_history(idx, sh)
            if bad:
                sh.count("history:FAIL")
                sh.fail(bad)
            else:
                sh.count("history:agrees")
                if len(sh.samples) < 2 and sh.evaluations % 101 == 0:
                    sh.sample(dict(sub="history", calls=[_h_text(HCALLS[i]) for i in idx]))
    elif kind == "redef":
        for docs in gen:
            sh.evaluations += 1
            h = _hash("redef", tier, repr(docs))
            sh.add_to_set("cases", h)
            sh.add_to_set("nontrivial", h)
            bad = run_redef(docs, tier, sh)
            if bad:
                sh.fail(bad)
            else:
                sh.count("unit-redefinition:sequence-agrees")
                if len(sh.samples) < 1:
                    sh.sample(dict(sub="unit-redefinition", documents=docs))
    _clean(force=True)
    sh.add_extra("evaluations/" + name.split("/")[0], sh.evaluations - before)
    sh.add_extra("unit_table_restores", _LEAKS[0])
    _LEAKS[0] = 0
    return sh


# =================================================================================================== replay
def replay(rec):
    init_worker()
    c = rec["case"]
    sh = Shard()
    kind, env = c["kind"], c["env"]
    try:
        if kind == "num":
            notes = set()
            try:
                refv = ("ok", R.num_eval(c["ast"], _REF[env], notes))
            except RefRaise as e:
                refv = ("raise", str(e))
            return (_judge_num(rec["sub"], c, refv, outcome(_solve_num, env, c["text"], c["unit"]), notes, sh)
                    or _env_guard(env, rec["sub"], c, _num_tags(c["ast"], env, notes), sh))
        if kind == "inum":
            got = []

            class _One(Shard):
                def fail(self, r):
                    got.append(r)
            one = _One()
            run_infile_num(env, [c["ast"]], one, rec["sub"])
            hits = [r for r in got if r["case"]["unit"] == c["unit"]]
            return hits[0] if hits else None
        if kind == "log":
            return (_judge_log(rec["sub"], c, R.log_eval(c["ast"], _REF[env]), outcome(_solve_log, env, c["text"]), sh)
                    or _env_guard(env, rec["sub"], c, _log_tags(c["ast"], env), sh))
        if kind == "ilog":
            o = outcome(_parse_infile, env, "log", [(c["ast"], c["text"], None)])
            o = ("ok", o[1][0]) if o[0] == "ok" else o
            return _judge_log(rec["sub"], c, R.log_eval(c["ast"], _REF[env]), o, sh)
        if kind == "tpl":
            return (_judge_tpl(rec["sub"], c, _tpl_expected(c["ast"], env), outcome(_solve_tpl, env, c["text"]), sh)
                    or _env_guard(env, rec["sub"], c, _tpl_tags(c["ast"], env), sh))
        if kind == "itpl":
            o = outcome(_parse_infile, env, "tpl", [(c["ast"], c["text"], None)])
            o = ("ok", o[1][0]) if o[0] == "ok" else o
            return _judge_tpl(rec["sub"], c, R.tpl_eval(c["ast"], _REF[env]), o, sh)
        if kind == "hist":
            return run_history(None, sh, calls=[list(x) for x in c["calls"]])
        if kind == "redef":
            return run_redef([list(d) for d in c["docs"]], c["tier"], sh)
        if kind == "batch":
            render = dict(num=R.num_render, log=R.log_render, tpl=R.tpl_render)[c["ikind"]]
            items = [(a, render(a), u) for a, u in c["items"]]
            o = outcome(_parse_infile, env, c["ikind"], items, timeout=60)
            if o[0] == "ok":
                return None
            return failure(rec["sub"], c, rec["expected"], list(o[1:]), tags=rec["tags"],
                           behaviour="batch-only-failure")
    finally:
        _LIVE.clear()
        _clean(force=True)
    raise HarnessError("unknown case kind %r" % kind)


# =================================================================================================== finish
def finish(total, tier, seed):
    h = total.hist
    cases = total.sets.get("cases", set())
    nontriv = total.sets.get("nontrivial", set())
    if len(cases) != total.evaluations:
        raise HarnessError("case streams overlap: %d evaluations but %d distinct cases"
                           % (total.evaluations, len(cases)))
    total.nontrivial = len(nontriv)

    def need(key, least=1):
        if h.get(key, 0) < least and not any(k.startswith(key.split(":")[0] + ":FAIL") for k in h):
            raise HarnessError("vacuous run: outcome %r seen %d times (< %d)" % (key, h.get(key, 0), least))
    for sub in ("numerical", "numerical-custom", "infile-numerical"):
        need(sub + ":agrees", 100)
        need(sub + ":refused-as-demanded", 20)
    for sub in ("logical", "infile-logical"):
        need(sub + ":true", 100)
        need(sub + ":false", 100)
    need("template:agrees", 100)
    need("history:agrees", 100)
    need("unit-redefinition:agrees", 100)
    need("unit-redefinition:refused-as-demanded", 20)
    need("unit-redefinition:true", 100)
    need("unit-redefinition:false", 100)
    need("unit-redefinition:sequence-agrees", 16)
    hstates = total.sets.get("hist_states", set())
    total.states = len(hstates)
    need("infile-template:agrees", 50)
    skipped = {k: v for k, v in h.items() if ":not-demanded:" in k}
    per_sub = {}
    for k, v in total.extra.items():
        if k.startswith("evaluations/"):
            per_sub[k.split("/", 1)[1]] = v
    return dict(
        states=len(hstates), transitions=total.transitions, traces_validated_against_impl=total.traces,
        max_depth=total.max_depth,
        histories="every ordered pair (thorough: + every triple over a 24-call core) of %d solver calls (node-vs-node "
                  "comparisons in different units, comparisons with and without unit, numerical expressions, "
                  "templates, failing calls) on one environment; each result == result on a fresh environment and "
                  "the environment's node values unchanged; states = distinct canonical environment snapshots"
                  % len(HCALLS),
        document_sequences="every ordered pair (thorough: + every triple) of documents over %d definitions of [len] "
                           "(%s) x 2 ways of defining it ($unit line, DIP.add_unit), all in one process; in every "
                           "document: flat numerical expressions with <=1 operator over %s (+ 6 larger shapes) in SI "
                           "unit and in [len], stand-alone and (over %s) as node values, and == < >= comparisons of "
                           "3 nodes with 9 literals (both orders) and 6 node pairs, each against the reference "
                           "evaluator with the definition of that document; module- and class-level state of the "
                           "library restored before and after every sequence"
                           % (len(REDEF_DEFS), ", ".join("%s %s" % d for d in REDEF_DEFS),
                              " ".join(R.num_render(x) for x in (REDEF_ALPHABET if tier == "quick"
                                                                 else REDEF_ALPHABET_THOROUGH)),
                              " ".join(R.num_render(x) for x in REDEF_INFILE)),
        redefinition_documents=total.extra.get("redefinition_documents", 0),
        redefinition_probe_evaluations=total.extra.get("redefinition_probe_evaluations", 0),
        distinct_nontrivial=len(nontriv),
        distinct_cases=len(cases),
        evaluations_by_family=per_sub,
        not_demanded_inputs_skipped=sum(skipped.values()),
        window=dict(flat3_operand_pair=seed % 81, of=81) if tier == "quick" else "all",
        caps_hit=[],
        bounds=dict(
            numerical="flat <=4 operators (+ - * /, blank separated); parentheses nesting <=2; functions exp log10 "
                      "sin cos pow (nesting <=2); operands 3, 2 m, 50 cm, -2 m, -3, {?a} {?b} {?c} {?t}, 1 [len], "
                      "0.5 [len], {?d}; sin/cos of 16 angle arguments (deg, rad, mrad literals, float and int nodes "
                      "in deg, products / sums / differences / ratios of angles) alone, as operands of larger "
                      "expressions and inside exp log10 pow; references to nodes modified after definition ({?wm} "
                      "{?wt} {?ws} {?cnt} {?dm}) and to the non-base custom unit (1 [hand], {?hh}) with <=2 "
                      "operators; requested unit SI / cm / cm2 / [len] / [hand] / none",
            logical="6 comparison operators x (node, literal) pairs incl. relative offsets 1e-9, 1e-5, 1e-3 in the "
                    "same and in convertible units, both operand orders, node-node, int node vs decimal literal, "
                    "string/bool equalities; modified float/int/bool/str nodes; two int nodes in different units "
                    "(16 ordered pairs); magnitudes 1e-3 and 5e6; magnitudes <= 1e-8 in the unit of the node (float "
                    "nodes 1e-9 m, 3e-9 m, 2 nm, 4e-12, 8e-12 vs 30 literals at relative offsets 0, 1e-10, 2e-5, 1e-3 "
                    "and factors 2 .. 1250, written in m / nm / km, 12 node pairs, && || and negated groups over 6 "
                    "such comparisons); the value zero and negative values: zero-valued nodes (float 0 m, 0 cm, 0; int "
                    "0, 0 cm) vs zero literals (0 / 0.0 / 0e0, with and without unit, unit of the node and another unit "
                    "of the dimension incl. custom units) and vs +-1, +-1e-9, 5e6; 15 non-zero / tiny / negative nodes "
                    "vs zero literals; negative nodes (-2.5 m, -0.5, int -3, int -150 cm) vs 45 literals at relative "
                    "offsets 0, 1e-9, 1e-5, 4e-2 on both sides, same / convertible unit, opposite sign; 46 node pairs "
                    "(zero-zero across units, zero-positive, zero-negative, negative-negative); all six operators, "
                    "both orders, plain / negated / parenthesised, && || and negated groups over 8 such comparisons, "
                    "stand-alone and as bool node values; ~, !{ref}, ~!{ref}; && || with <=4 connectives, groups, "
                    "nesting <=2",
            template="{{ref}}, {{ref}:fmt} for 13 formats x 18 scalar nodes (6 of them modified after definition), string slices, array elements, plain "
                     "braces, <=3 pieces, adjacent references",
            in_file="numerical / logical / template expressions as node values of float / bool / str nodes in DIP "
                    "texts without custom unit, with `$unit len = 2 m` + `$unit hand = 10 cm`, and with DIP.add_unit",
            tolerance="numerical |got-exp| <= 1e-12 * propagated error scale",
        ),
        tier_alphabets="quick: 3-operator flat space over 4 operands + seed window of the 9-operand space, "
                       "4-operator space over 2 operands + 6 distinct-value tuples; thorough: 9 / 4 operands",
    )


MANIFEST = dict(
    text="Complete enumeration of three bounded DIP expression grammars (numerical: <=4 blank-separated + - * / "
         "operators, parentheses and functions nested <=2, unit-carrying literals incl. angle units inside sin/cos, "
         "node references and a custom unit; logical: 6 comparisons incl. relative offsets 1e-9/1e-5/1e-3 at magnitudes "
         "from 4e-12 to 5e6 in the unit of the node, zero-valued and negative nodes against zero / negative literals "
         "with and without (convertible) units on both sides of all six operators, negation, definedness tests, && || "
         "with groups; templates: references with slices and 13 format specs, plain braces, adjacent references) "
         "executed on NumericalSolver/LogicalSolver/TemplateSolver and as node values through DIP.parse, each "
         "compared with a reference evaluator over the generating AST. Coverage statement: every expression within "
         "the bounds evaluates to the exact value (1e-12 x error scale), refuses additions across dimensions, "
         "yields the documented truth value and the Python-formatted text; and in every ordered pair (thorough: "
         "triple) of documents parsed in one process that define the custom unit [len] differently (2 m, 5 m, 10 cm, "
         "3 s; $unit line or DIP.add_unit) each document's numerical / logical expressions use the definition of "
         "their own document.",
    note="Trusted: the AST reference evaluators and renderers (exact Fractions, hand-written unit factors, Python "
         "format()); inputs on which the documentation is silent are excluded (listed in the module docstring). "
         "Expressions beyond the bounds rely on the small-scope hypothesis.",
    technique="bounded exhaustive grammar enumeration on the real solvers, differential oracle vs AST reference "
              "evaluators",
)
