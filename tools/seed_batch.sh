#!/bin/bash
# usage: tools/seed_batch.sh <Cxx> <worktree> <id-prefix> <n> [n...]   e.g. seed_batch.sh C01 /tmp/seed2-C01 r2s 1 2 3
prop=$1; wt=$2; pre=$3; shift 3
for n in "$@"; do
  id=$prop-$pre$n
  /verif/tools/seed_eval.sh $id $prop $wt $n 2>&1 | grep '^SEED' | cut -c1-330
  [ -f $wt/NOTES.md ] && cp $wt/NOTES.md /verif/seeded/$id/NOTES.md
done
