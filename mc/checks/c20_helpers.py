"""C20 - table, row and grid helpers behave like their simple models.

E1 (explicit-state exploration on the real objects)
  * ParameterTable, keyed and un-keyed: breadth-first search over operation sequences (append / t[k]=rec for every
    key and record, del by key / by position incl. absent ones; roots: empty table and table built by the
    constructor).  A state is represented by the shortest history reaching it; successors are computed by replaying
    the history on a FRESH real table (the class cannot be deep-copied: its __getattr__ raises KeyError).  States are
    de-duplicated on the canonical form of vars(table) (everything the object holds).  After the last operation of
    every explored history the complete public read-out (keys, len, shape, t[k], t[i], t.k, k in t, iteration,
    items(), data(), every record by item / attribute / data()) is compared with an insertion-ordered dict / a list.
  * RowCollector in five configurations (list mode with / without declared columns, array mode with typed, float
    and dict-defined columns): append(list), append(dict), sort(col), sort(col, reverse=True) for every column, rows
    with ties on every column.  Model: list of rows.  After append the rows must equal the model in order; after
    sort the sorted column must be monotone and the multiset of whole rows unchanged (values compared with ==),
    then the model adopts the implementation's order (order among ties is not demanded).
  * Fault transitions (round 2): operations the object must refuse are part of the alphabets.  Table: t[k] = 4 /
    t.append(k, None) (no record can be built) for every key, t.append(4) un-keyed.  A refused assignment of an
    existing key must leave the table unchanged.  For a refused assignment of a NEW key the statement does not say
    whether the key's position is reserved, so the keyed model is a SET of candidate dicts (fork: nothing happened /
    position reserved); while a refused key is pending only access by key / attribute / `in` of the other keys is
    judged; once every pending key has been assigned or deleted the full read-out must equal ONE candidate (the
    object must be a consistent map again).  Deviation bound: at most 1 refused new key pending at a time
    (thorough: an additional 4-key run with 2 pending).  Collector (configurations with declared columns): dict
    rows with a missing / an extra name; if refused, the collector must still hold exactly the model's rows (no
    partial append); if accepted the case is not judged and not explored further.
  * Read operations (round 3): a history is replayed on a fresh object and judged by the read-out after its last
    operation, so reads were never INSIDE a history.  Every public read-out is now an operation of the alphabet
    (table: t.k / t[k] / k in t per key, t[i] per position, keys(), len, shape(), iteration, items(), data(), and
    the whole read-out at once; collector: to_dict(), rc[col], rc.col per column, size/len/shape,
    to_dataframe().to_string(), all at once).  Their own result is not judged; a read that changes vars(object)
    (e.g. fills a cache) yields a NEW canonical state, which is then explored like any other, and the read-out
    after every later operation must still equal the model (a stale cache shows up as attr-differs etc.).
  * Size families (round 4): boundary sizes are a dimension of their own and the BFS never holds more entries than
    its key alphabet.  For every n in 1..12 (thorough 1..24) a table of exactly n entries (keyed and un-keyed, built
    by n appends and by the constructor; collectors: n rows in all five configurations) is followed by every read
    operation (now including str(), repr() and %-/format-style printing) or none, the full read-out, and then one
    more operation at EVERY position (delete / overwrite) or at the end (append, refused append, delete of an
    absent key; collectors: append list/dict, refused dict row, sorts), again with the full read-out.
  * Object identity of names (round 5): keys and column names are multi-character ('ka', 'cx'; one-character
    strings are singletons in CPython) and EVERY name handed to the library (append / set / del / t[k] / t.k /
    `in`, constructor parameters, column declarations, dict-row names, sort, rc[col], rc.col) is a freshly built
    equal string object (_fk), as names computed at run time are; the models compare with ==.
  * Key names (round 7): the key NAME is a dimension.  7 further keyed-table BFS runs (same alphabet, dict model
    and fixed point) use 2 keys that are names of ParameterTable / record attributes (keys, items, data, shape,
    append, to_text, _keys, _data, _settings, _keyname, to_dataframe, _to_string, p, q) plus one ordinary key
    (thorough: plus one 5-key run keys/items/data/shape/ka).  Only the attribute read-out t.<key> of such a name is
    not demanded (statement silent); the unchanged library behaves like the dict model for everything else.
  * Guard for the de-duplication argument: ALL operation sequences up to a smaller depth are executed unpruned
    (with the single read operation "whole read-out").
E2 (complete enumeration)
  * DataPlotGrid: every (n, ncols, list|dict, normal|transposed): data cells + missing cells are pairwise distinct,
    cover {0..nrows-1}x{0..ncols-1} exactly once, indices run 0..nrows*ncols-1 in order, payload is the data in
    order, row-major (normal) / column-major (transposed) as documented.
  * DataPlotGrid, overlapping iterations (round 4): items() is a generator, so several iterations of ONE grid object
    can be alive at once.  For 2 generators (n 0..8, ncols 1..4, list/dict) and 3 generators (n 2..6, ncols 2..3)
    with every combination of (missing, transpose) arguments, every schedule of next() calls whose first 4 calls
    are arbitrary and whose rest is drained generator after generator or round-robin is executed (generators created
    up front or lazily at their first call); each generator must yield exactly what the same call yields alone on a
    fresh object (which the plain grid cases judge).  Thorough: n 0..12 x ncols 1..6 with 6 free calls, 3 generators
    n 0..8 x ncols 1..4 with 4.
  * DataCombination: every list of item lists within the bound, three value variants (unique labels, the same
    numbers in every list, tuples as item lists) plus (round 2) EVERY equality pattern inside the item lists
    (restricted growth strings: [0,1,0] = first and third value equal) rendered three ways: repeated labels,
    ==-equal values of different type (1, 1.0, True, Fraction(1)), equal but unhashable values ([0], [0]).
    keys()/values()/items() must equal the Cartesian product computed by plain nested recursion (no itertools);
    index tuples compared with ==, values by type + repr.

Not demanded (left out of the alphabets, the statement is silent): negative positions, integer keys, positional
delete on a keyed table, `in`/keys()/attribute access on an un-keyed table, records with a wrong number of values,
list rows on a collector without columns, rows whose length differs from the number of columns, that a dict row with
missing/extra names is refused (only: no partial append if it is), the state of a keyed table between a refused
assignment of a new key and its retry/delete, columns holding values of different types, sort by an unknown column, order among tied rows,
the container type of the read-outs (list / ndarray / dict view), to_dataframe()/to_text().
"""
import hashlib

from .. import isolation
from ..common import Shard, failure, outcome, HarnessError

PROPERTY = "C20"
LEVEL = "model_checking"
RULE = ("E1 case = one transition (canonical implementation state, operation) of the explored state graph, executed "
        "by replaying the shortest history that reaches the state on a fresh real object and comparing the full "
        "public read-out with the model; distinct by construction (BFS de-duplicates states on vars(object)); "
        "non-trivial = the operation acts on a non-empty table/collector (overwrite, delete, positional shift, "
        "re-insert, sort or append after rows exist).  The unpruned guard pass (all sequences up to a smaller depth) "
        "is counted in evaluations/transitions only.  E2 case = one (n, ncols, list|dict, normal|transposed) grid "
        "(non-trivial: n >= 2) or one (shape or equality patterns of the item lists, value variant) combination "
        "(non-trivial: >= 2 lists).  Refused operations (fault transitions) and public read-outs (read operations) "
        "are ordinary transitions of the graph; size-family histories (exactly n entries, one read, one operation) "
        "count as non-trivial only for n beyond the BFS key/depth bound.  Interleaving case = one (grid, argument "
        "tuple, effective next()-schedule, lazy|upfront creation), schedules de-duplicated; non-trivial = some "
        "generator is resumed after another one ran and >= 2 generators yield items")
ASSUMPTIONS = [
    "vars(object) (recursively, incl. value types and numpy dtypes) is all the state the four classes hold, so two "
    "histories ending in the same canonical state have equal futures; guarded by executing every operation "
    "sequence up to depth 3 (quick) / 4 (thorough) without pruning",
    "reference models: Python dict (insertion ordered, overwrite keeps position) / list / list of row tuples / "
    "nested-loop Cartesian product; values compared by type+repr for table records, by == for collector rows",
    "order among rows with equal sort key is not demanded; the model adopts the implementation's order after a "
    "sort that passed the monotonicity and multiset checks",
    "a refused assignment of a not-yet-present key may or may not reserve the key's position (both candidate models "
    "are kept); the table is judged in full only when no refused key is pending, and must then equal one candidate",
]

# ------------------------------------------------------------------------------------------------ bounds
def _names(chars):
    """multi-character key names ('ka', 'kb', ...): one-character strings are singletons in CPython"""
    return ["k" + c for c in chars]


def _fk(name):
    """a freshly built string object equal to `name` (round 5): every key / column name handed to the library is
    a different object than the one used before, as keys computed at run time are (f-strings, concatenation)"""
    return (name + "#")[:-1]


FIELDS = ["p", "q"]
RECS = [[1, 2.5], [0, "x"], [None, "yy"]]          # records (second one starts with a falsy value)
PT = dict(
    quick=dict(keys=_names("abcd"), nrec=2, depth=6, useq=3, urec=3, upos=5, pending=1),
    thorough=dict(keys=_names("abcde"), nrec=2, depth=7, useq=4, urec=3, upos=6, pending=1),
)
# additional keyed-table BFS runs (thorough): fewer keys, two refused new keys pending at a time
PT_EXTRA = dict(quick=[], thorough=[dict(keys=_names("abcd"), nrec=2, depth=7, useq=0, urec=3, upos=5, pending=2)])
# key NAMES as a dimension (round 7): keyed-table BFS runs whose key alphabet consists of names that are also
# attributes of the ParameterTable class / of its records (methods, dataclass fields, record fields) plus one
# ordinary key.  noattr = keys for which the attribute read-out t.<key> is not demanded (the statement is silent on
# which of the two meanings wins); everything else (t[k], in, keys(), len, position, iteration, items(), data(),
# delete, overwrite, refused assignment) is judged against the same dict model.
COLLIDE_PAIRS = [["keys", "items"], ["data", "shape"], ["append", "to_text"], ["_keys", "_data"],
                 ["_settings", "_keyname"], ["to_dataframe", "_to_string"], ["p", "q"]]
PT_COLLIDE = dict(
    quick=[dict(keys=pair + ["ka"], noattr=list(pair), nrec=2, depth=6, useq=0, urec=3, upos=4, pending=1)
           for pair in COLLIDE_PAIRS],
    thorough=[dict(keys=pair + ["ka"], noattr=list(pair), nrec=2, depth=7, useq=0, urec=3, upos=4, pending=1)
              for pair in COLLIDE_PAIRS]
    + [dict(keys=["keys", "items", "data", "shape", "ka"], noattr=["keys", "items", "data", "shape"], nrec=2, depth=7,
            useq=0, urec=3, upos=6, pending=1)],
)
ROWS = [[1, "b"], [2, "a"], [1, "a"], [3, "c"]]     # ties on both columns
ROWS_T = [[1, "b"], [2, "a"], [1, "a"], [3, "cc"]]  # typed array mode: one string longer than one character
ROWS_N = [[1, 2.5], [2, 1.5], [1, 1.5], [3, 0.0]]   # numeric rows for float64 array columns
COLS = ["cx", "cy"]
RC_CFG = {
    # name: (array, columns given, rows, dict key orders, list rows allowed)
    "list-cols": dict(array=False, cols="list", rows=ROWS),
    "list-nocols": dict(array=False, cols=None, rows=ROWS),
    "array-typed": dict(array=True, cols="typed", rows=ROWS_T),
    "array-float": dict(array=True, cols="list", rows=ROWS_N),
    "array-nocols": dict(array=True, cols=None, rows=ROWS_N),
}
RC = dict(quick=dict(depth=5, useq=3), thorough=dict(depth=6, useq=4))
GRID = dict(quick=dict(nmax=12, cmax=6), thorough=dict(nmax=40, cmax=12))
COMB = dict(quick=dict(lists=3, length=3, plists=3, plength=3), thorough=dict(lists=4, length=4, plists=3, plength=4))
PVARIANTS = ("pattern-labels", "pattern-eqtypes", "pattern-unhashable")
# size families (round 4): tables / collectors of exactly n entries, n beyond anything the BFS reaches
LIN = dict(
    quick=dict(keys=_names("abcdefghijkl"), nrec=2, urec=3, upos=12, pending=1, nmax=12, rows=12),
    thorough=dict(keys=_names("abcdefghijklmnopqrstuvwx"), nrec=2, urec=3, upos=24, pending=1, nmax=24, rows=24),
)
# overlapping iterations of one DataPlotGrid (round 4): (k generators, n range, ncols range, kinds, prefix length)
MIX = dict(
    quick=[(2, (0, 8), (1, 4), ("list", "dict"), 4), (3, (2, 6), (2, 3), ("list",), 4)],
    thorough=[(2, (0, 12), (1, 6), ("list", "dict"), 6), (3, (0, 8), (1, 4), ("list", "dict"), 4)],
)


# ------------------------------------------------------------------------------------------------ helpers
def _np():
    import numpy
    return numpy


def canon(x):
    """canonical, hashable form of everything an object holds (value types included)"""
    tx = type(x)
    if tx is str or tx is int or tx is bool or x is None:
        return (tx.__name__, x)
    np = _np()
    if isinstance(x, np.ndarray):
        return ("nd", str(x.dtype), tuple(canon(v) for v in x.tolist()))
    if isinstance(x, np.generic):
        return ("np", type(x).__name__, repr(x.item()))
    if isinstance(x, dict):
        return ("d", tuple((canon(k), canon(v)) for k, v in x.items()))
    if isinstance(x, (list, tuple)):
        return (type(x).__name__, tuple(canon(v) for v in x))
    if hasattr(x, "__dict__") and type(x).__module__.startswith("scinumtools"):
        return ("o", type(x).__name__, canon(vars(x)))
    return (type(x).__name__, repr(x))


def _digest(prefix, c):
    return prefix + ":" + hashlib.md5(repr(c).encode()).hexdigest()


def _obs(fn):
    """one observation: ['ok', value] or ['raises', TypeName]"""
    try:
        return ["ok", fn()]
    except Exception as e:
        return ["raises", type(e).__name__]


_VC = {}


def _v(v):
    """[type name, repr] of a stored value (cached per object; the cache keeps the object alive)"""
    e = _VC.get(id(v))
    if e is not None and e[0] is v:
        return e[1]
    r = [type(v).__name__, repr(v)]
    if len(_VC) < 10000:
        _VC[id(v)] = (v, r)
    return r


def _rec(r):
    """everything public of one record (ParameterSettings)"""
    return dict(keys=list(r.keys()), item=[_v(r[f]) for f in FIELDS], attr=[_v(getattr(r, f)) for f in FIELDS],
                data=[[k, _v(v)] for k, v in r.data().items()])


_RM = {}


def _rec_model(vals):
    e = _RM.get(vals)
    if e is None:
        vv = [_v(x) for x in vals]
        e = _RM[vals] = dict(keys=list(FIELDS), item=vv, attr=vv, data=[[f, x] for f, x in zip(FIELDS, vv)])
    return e


def _first_diff(exp, got):
    """exp/got: lists of (name, value); returns (name, exp, got) of the first difference"""
    for (n, e), (_, g) in zip(exp, got):
        if e[0] == "raises" and g[0] == "raises":
            continue                                  # the exception type of a refused access is not demanded
        if e != g:
            return n, e, g
    return None


def _beh(name, e, g):
    kind = name.split("[")[0]
    if g[0] == "raises":
        return "%s-raises:%s" % (kind, g[1])
    if e[0] == "raises":
        return "%s-accepted" % kind
    return "%s-differs" % kind


# ================================================================================================ ParameterTable
LIMBO = ("<key registered by a failed assignment, no record>",)
BAD = {"append!": 4, "set!": None}          # values no record can be built from (not iterable)


def _pt_new(keyed, root, cfg):
    """fresh real table + model (keyed: LIST of candidate dicts, see _pt_apply; un-keyed: list)"""
    from scinumtools import ParameterTable
    if root[0] == "new":
        if keyed:
            return ParameterTable(list(FIELDS), keys=True), [{}]
        return ParameterTable(list(FIELDS)), []
    n = root[1]
    if keyed:
        params = {cfg["keys"][i]: list(RECS[i % 2]) for i in range(n)}
        return (ParameterTable(list(FIELDS), {_fk(k): v for k, v in params.items()}, keys=True),
                [{k: tuple(v) for k, v in params.items()}])
    params = [list(RECS[i % 2]) for i in range(n)]
    return ParameterTable(list(FIELDS), params), [tuple(v) for v in params]


def _pt_reads(keyed, cfg, fine):
    """READ operations of the alphabet (a public read-out may have side effects, e.g. a cache): fine = every
    accessor separately (per key / per position), otherwise one operation performing the whole read-out"""
    if not fine:
        return [["read", "all"]]
    ops = []
    if keyed:
        for k in cfg["keys"]:
            if k not in cfg.get("noattr", ()):
                ops.append(["read", "attr", k])
            ops += [["read", "key", k], ["read", "in", k]]
        for i in range(len(cfg["keys"]) + 1):
            ops.append(["read", "pos", i])
        ops += [["read", "keys"]]
    else:
        for i in range(cfg["upos"]):
            ops.append(["read", "pos", i])
    ops += [["read", "len"], ["read", "shape"], ["read", "iter"], ["read", "items"], ["read", "data"],
            ["read", "str"], ["read", "repr"], ["read", "format"], ["read", "all"]]
    return ops


def _pt_read(t, keyed, op, cfg):
    """perform one read operation; its own outcome is not judged (the read-out after the history is)"""
    kind = op[1]
    if kind == "attr":
        _obs(lambda: getattr(t, _fk(op[2])))
    elif kind == "key":
        _obs(lambda: t[_fk(op[2])])
    elif kind == "in":
        _obs(lambda: _fk(op[2]) in t)
    elif kind == "pos":
        _obs(lambda: t[op[2]])
    elif kind == "keys":
        _obs(lambda: list(t.keys()))
    elif kind == "len":
        _obs(lambda: len(t))
    elif kind == "shape":
        _obs(lambda: t.shape())
    elif kind == "iter":
        _obs(lambda: _iter_capped(t, 12))
    elif kind == "items":
        _obs(lambda: [(k, r.data()) for k, r in t.items()])
    elif kind == "data":
        _obs(lambda: t.data())
    elif kind == "str":
        _obs(lambda: str(t))
    elif kind == "repr":
        _obs(lambda: repr(t))
    elif kind == "format":
        _obs(lambda: "%s|{}|{!r}".format(t, t) % (t,))
    else:
        _obs(lambda: (str(t), repr(t)))
        n = _obs(lambda: len(t))
        _pt_readout(t, n[1] if n[0] == "ok" and isinstance(n[1], int) and 0 <= n[1] < 12 else 0, keyed, cfg)


def _pt_ops(keyed, cfg, model=None, fine=True):
    """operations enabled in the state described by the model.  Deviation bound: a refused assignment of a NEW key
    is enabled only while fewer than cfg['pending'] such refusals are unresolved (not yet retried / deleted)."""
    ops = []
    if keyed:
        for k in cfg["keys"]:
            for r in range(cfg["nrec"]):
                ops.append(["append", k, r])
                ops.append(["set", k, r])
        for k in cfg["keys"]:
            ops.append(["del", k])
        pending = max(sum(1 for v in c.values() if v is LIMBO) for c in model) if model else 0
        for k in cfg["keys"]:                     # fault transitions: the record cannot be built
            if pending >= cfg["pending"] and any(k not in c for c in (model or [])):
                continue
            ops.append(["append!", k])
            ops.append(["set!", k])
    else:
        for r in range(cfg["urec"]):
            ops.append(["append", r])
        for i in range(cfg["upos"]):
            ops.append(["del", i])
        ops.append(["append!"])
    return ops + _pt_reads(keyed, cfg, fine)


def _dedup(cands):
    out, seen = [], set()
    for c in cands:
        key = tuple(c.items())
        if key not in seen:
            seen.add(key)
            out.append(c)
    return out


def _pt_apply(t, m, keyed, op, cfg=None):
    """Apply op to the real table and to the model; returns (expected kind or None, observed outcome, model).

    Keyed model = list of candidate insertion-ordered dicts.  The statement does not say what a REFUSED assignment
    of a not-yet-present key leaves behind, so such an operation forks every candidate into 'nothing happened' and
    'the key's position is reserved' (value LIMBO, as the library does); a candidate containing LIMBO is an
    undefined state.  A later successful assignment of the key resolves it (dict assignment keeps the reserved
    position), a delete removes it whatever its outcome.  Expected kind None = outcome of the operation not judged."""
    def _del(x):
        del t[x]
    if op[0] == "read":
        _pt_read(t, keyed, op, cfg)
        return None, ["ok", None], m
    if keyed:
        kinds = set()
        if op[0] in ("append", "set"):
            rec = tuple(RECS[op[2]])
            got = _obs((lambda: t.append(_fk(op[1]), list(rec))) if op[0] == "append"
                       else (lambda: t.__setitem__(_fk(op[1]), list(rec))))
            for c in m:
                c[op[1]] = rec
            kinds.add("ok")
        elif op[0] in ("append!", "set!"):
            bad = BAD[op[0]]
            got = _obs((lambda: t.append(_fk(op[1]), bad)) if op[0] == "append!" else (lambda: t.__setitem__(_fk(op[1]), bad)))
            forks = []
            for c in m:
                if op[1] not in c:
                    f = dict(c)
                    f[op[1]] = LIMBO
                    forks.append(f)
            m = m + forks
            kinds.add("raises")
        else:
            got = _obs(lambda: _del(_fk(op[1])))
            for c in m:
                if op[1] not in c:
                    kinds.add("raises")
                else:
                    kinds.add(None if c[op[1]] is LIMBO else "ok")
                    del c[op[1]]
        m = _dedup(m)
        kind = kinds.pop() if len(kinds) == 1 else None
        return kind, got, m
    if op[0] == "append":
        got = _obs(lambda: t.append(list(RECS[op[1]])))
        m.append(tuple(RECS[op[1]]))
        return "ok", got, m
    if op[0] == "append!":
        got = _obs(lambda: t.append(BAD["append!"]))
        return "raises", got, m
    got = _obs(lambda: _del(op[1]))
    if op[1] < len(m):
        del m[op[1]]
        return "ok", got, m
    return "raises", got, m


def _iter_capped(t, cap):
    out = []
    for r in t:
        out.append(_rec(r))
        if len(out) > cap:
            out.append("...iteration does not stop")
            break
    return out


def _pt_expected(m, keyed, cfg):
    exp = []
    n = len(m)
    if keyed:
        recs = [_rec_model(v) for v in m.values()]
        exp.append(("keys", ["ok", list(m)]))
        exp.append(("len", ["ok", n]))
        exp.append(("shape", ["ok", [n, len(FIELDS)]]))
        for k in cfg["keys"]:
            exp.append(("key[%s]" % k, ["ok", _rec_model(m[k])] if k in m else ["raises", "KeyError"]))
        for i in range(n):
            exp.append(("pos[%d]" % i, ["ok", recs[i]]))
        exp.append(("posend[%d]" % n, ["raises", "IndexError"]))
        for k in cfg["keys"]:
            if k in cfg.get("noattr", ()):
                continue                              # name of a class attribute: t.<key> not demanded
            exp.append(("attr[%s]" % k, ["ok", _rec_model(m[k])] if k in m else ["raises", "KeyError"]))
        for k in cfg["keys"]:
            exp.append(("in[%s]" % k, ["ok", k in m]))
        exp.append(("iter", ["ok", recs]))
        exp.append(("items", ["ok", [[k, r] for k, r in zip(m, recs)]]))
        exp.append(("data", ["ok", [[k, r["data"]] for k, r in zip(m, recs)]]))
    else:
        recs = [_rec_model(v) for v in m]
        exp.append(("len", ["ok", n]))
        exp.append(("shape", ["ok", [n, len(FIELDS)]]))
        for i in range(n):
            exp.append(("pos[%d]" % i, ["ok", recs[i]]))
        exp.append(("posend[%d]" % n, ["raises", "IndexError"]))
        exp.append(("iter", ["ok", recs]))
        exp.append(("items", ["ok", [[i, r] for i, r in enumerate(recs)]]))
        exp.append(("data", ["ok", [r["data"] for r in recs]]))
    return exp


def _pt_partial(cands, cfg):
    """what is demanded in an undefined state: access by key / attribute / `in` for every key on which all
    candidates agree (present with the same record, or absent)"""
    exp = []
    for k in cfg["keys"]:
        vals = [c.get(k, "absent") for c in cands]
        if any(v is LIMBO for v in vals) or any(v != vals[0] for v in vals):
            continue
        if vals[0] == "absent":
            exp += [("key[%s]" % k, ["raises", "KeyError"]), ("attr[%s]" % k, ["raises", "KeyError"]),
                    ("in[%s]" % k, ["ok", False])]
        else:
            r = _rec_model(vals[0])
            exp += [("key[%s]" % k, ["ok", r]), ("attr[%s]" % k, ["ok", r]), ("in[%s]" % k, ["ok", True])]
        if k in cfg.get("noattr", ()):
            exp = [x for x in exp if x[0] != "attr[%s]" % k]
    return exp


def _pt_readout(t, n, keyed, cfg):
    """the same observations on the real table (n = length according to the model)"""
    got = []
    if keyed:
        got.append(("keys", _obs(lambda: list(t.keys()))))
        got.append(("len", _obs(lambda: len(t))))
        got.append(("shape", _obs(lambda: list(t.shape()))))
        for k in cfg["keys"]:
            got.append(("key[%s]" % k, _obs(lambda: _rec(t[_fk(k)]))))
        for i in range(n):
            got.append(("pos[%d]" % i, _obs(lambda: _rec(t[i]))))
        got.append(("posend[%d]" % n, _obs(lambda: _rec(t[n]))))
        for k in cfg["keys"]:
            if k in cfg.get("noattr", ()):
                continue
            got.append(("attr[%s]" % k, _obs(lambda: _rec(getattr(t, _fk(k))))))
        for k in cfg["keys"]:
            got.append(("in[%s]" % k, _obs(lambda: _fk(k) in t)))
        got.append(("iter", _obs(lambda: _iter_capped(t, n + 2))))
        got.append(("items", _obs(lambda: [[k, _rec(r)] for k, r in t.items()])))
        got.append(("data", _obs(lambda: [[k, [[f, _v(x)] for f, x in d.items()]] for k, d in t.data().items()])))
    else:
        got.append(("len", _obs(lambda: len(t))))
        got.append(("shape", _obs(lambda: list(t.shape()))))
        for i in range(n):
            got.append(("pos[%d]" % i, _obs(lambda: _rec(t[i]))))
        got.append(("posend[%d]" % n, _obs(lambda: _rec(t[n]))))
        got.append(("iter", _obs(lambda: _iter_capped(t, n + 2))))
        got.append(("items", _obs(lambda: [[i, _rec(r)] for i, r in t.items()])))
        got.append(("data", _obs(lambda: [[[f, _v(x)] for f, x in d.items()] for d in t.data()])))
    return got


def _pt_tags(keyed, hist, cfg):
    """features of the history (input side)"""
    tags = ["keyed" if keyed else "unkeyed"]
    if cfg.get("noattr"):
        tags.append("key-names-of-class-attributes")
    live, dead, failed, n = set(), set(), {}, 0       # failed: key -> new keys inserted since the refusal
    if hist[0][0] == "ctor":
        tags.append("ctor-params")
        n = hist[0][1]
        live = set(cfg["keys"][:n])
    peak = n
    for j, op in enumerate(hist[1:], start=1):
        if op[0] == "read":
            if j < len(hist) - 1:
                tags.append("after-read:" + op[1])    # a read-out happened before later operations
            continue
        if keyed:
            if op[0] in ("append", "set"):
                if op[1] in live:
                    tags.append("overwrite")
                elif op[1] in failed:
                    tags.append("retry-after-failed-assignment")
                    if failed[op[1]]:
                        tags.append("insertion-between-failed-assignment-and-retry")
                elif op[1] in dead:
                    tags.append("reinsert-after-delete")
                if op[1] not in live:
                    for k in failed:
                        if k != op[1]:
                            failed[k] += 1
                live.add(op[1])
                failed.pop(op[1], None)
            elif op[0] in ("append!", "set!"):
                if op[1] in live:
                    tags.append("failed-overwrite")
                else:
                    tags.append("failed-assignment-of-new-key")
                    failed.setdefault(op[1], 0)
            else:
                if op[1] in live:
                    tags.append("delete")
                    live.discard(op[1])
                    dead.add(op[1])
                elif op[1] in failed:
                    tags.append("delete-after-failed-assignment")
                    failed.pop(op[1], None)
                else:
                    tags.append("delete-absent")
            n = len(live)
        else:
            if op[0] == "append":
                n += 1
            elif op[0] == "append!":
                tags.append("failed-append")
            elif op[1] < n:
                tags.append("delete")
                n -= 1
            else:
                tags.append("delete-absent")
        peak = max(peak, n)
    if peak >= 4:
        tags.append("entries>=4")
    if peak >= 9:
        tags.append("entries>=9")
    if len(hist) > 1:
        tags.append("last=" + hist[-1][0])
    return tags


def _pt_run(keyed, hist, cfg):
    """Replay a history on a fresh real table; compare op outcome + full read-out after the LAST operation.
    Returns (table, model, failure-or-None)."""
    sub = "table-keyed" if keyed else "table-unkeyed"
    t, m = _pt_new(keyed, hist[0], cfg)
    kind, got = "ok", ["ok", None]
    for op in hist[1:]:
        kind, got, m = _pt_apply(t, m, keyed, op, cfg)
    case = dict(part=sub, tier_bounds=dict(keys=cfg["keys"]), history=hist)
    if kind is not None and got[0] != kind:
        return t, m, failure(sub, case, "operation %s" % kind, got, tags=_pt_tags(keyed, hist, cfg),
                             behaviour="op-%s" % ("accepted" if got[0] == "ok" else "raises:" + got[1]))
    if not keyed:
        d = _first_diff(_pt_expected(m, False, cfg), _pt_readout(t, len(m), False, cfg))
    elif any(v is LIMBO for c in m for v in c.values()):
        # undefined state (a refused assignment of a new key is pending): judge only what all candidates agree on
        exp = _pt_partial(m, cfg)
        allgot = dict(_pt_readout(t, 0, True, cfg))
        d = _first_diff(exp, [(n_, allgot[n_]) for n_, _ in exp])
    else:
        rd = _pt_readout(t, len(m[0]), True, cfg)
        diffs = [_first_diff(_pt_expected(c, True, cfg), rd) for c in m]
        keep = [c for c, x in zip(m, diffs) if x is None]
        if keep:
            m, d = keep, None                         # the implementation chose among the admissible orders
        else:                                         # report against the candidate that agrees longest
            names = [n_ for n_, _ in rd]
            d = max(diffs, key=lambda x: names.index(x[0]))
    if d:
        name, e, g = d
        return t, m, failure(sub, case, {name: e}, {name: g}, tags=_pt_tags(keyed, hist, cfg),
                             behaviour=_beh(name, e, g))
    return t, m, None


# ================================================================================================ RowCollector
def _rc_new(cname, root):
    from scinumtools import RowCollector
    c = RC_CFG[cname]
    if c["cols"] == "list":
        cols = [_fk(c_) for c_ in COLS]
    elif c["cols"] == "typed":
        cols = {_fk("cx"): dict(dtype=int), _fk("cy"): dict(dtype=str)}
    else:
        cols = None
    rows = [list(r) for r in c["rows"][:root[1]]] if root[0] == "ctor" else None
    if cols is None:
        rc = RowCollector(array=c["array"])
        return rc, dict(cols=[], rows=[])
    rc = RowCollector(cols, rows, array=c["array"])
    return rc, dict(cols=list(COLS), rows=[tuple(r) for r in (rows or [])])


def _rc_reads(fine):
    """READ operations (public read-outs may have side effects)"""
    if not fine:
        return [["read", "all"]]
    ops = [["read", "dict"], ["read", "size"], ["read", "frame"], ["read", "str"]]
    for col in COLS:
        ops += [["read", "item", col], ["read", "attr", col]]
    return ops + [["read", "all"]]


def _rc_read(rc, op):
    """perform one read operation; its own outcome is not judged (the read-out after the history is)"""
    kind = op[1]
    if kind in ("dict", "all"):
        _obs(lambda: {k: list(v) for k, v in rc.to_dict().items()})
    if kind in ("size", "all"):
        _obs(lambda: (rc.size(), len(rc), rc.shape()))
    if kind in ("frame", "all"):
        _obs(lambda: rc.to_dataframe().to_string())
    if kind in ("str", "all"):
        _obs(lambda: (str(rc), repr(rc)))
    for col in COLS:
        if kind == "all" or (kind == "item" and op[2] == col):
            _obs(lambda: list(rc[_fk(col)]))
        if kind == "all" or (kind == "attr" and op[2] == col):
            _obs(lambda: list(getattr(rc, _fk(col))))


def _rc_ops(cname, model, fine=True):
    """operations enabled in the state described by the model"""
    c = RC_CFG[cname]
    ops = []
    if c["cols"] is None:
        for i in range(len(c["rows"])):
            ops.append(["dict", i, "cx,cy"])
            ops.append(["dict", i, "cy,cx"])
        if not model["cols"]:
            return ops + _rc_reads(fine)     # nothing to sort by, list rows not demanded before columns exist
    else:
        for i in range(len(c["rows"])):
            ops.append(["list", i])
        for i in range(len(c["rows"])):
            ops.append(["dict", i, "cy,cx"])
        ops.append(["dict!", 0, "missing"])      # fault transitions: a dict row that cannot be stored
        ops.append(["dict!", 1, "extra"])
    for col in COLS:
        ops.append(["sort", col, False])
        ops.append(["sort", col, True])
    return ops + _rc_reads(fine)


def _n(v):
    np = _np()
    return v.item() if isinstance(v, np.generic) else v


def _rc_rows(rc, model):
    """read the collector out through every public accessor; returns list of row tuples in model column order"""
    d = rc.to_dict()
    names = list(d.keys())
    if sorted(names) != sorted(model["cols"]):
        raise _Diff("columns", sorted(model["cols"]), names)
    cols = {}
    for name in model["cols"]:
        a = [_n(v) for v in d[name]]
        b = [_n(v) for v in rc[_fk(name)]]
        c = [_n(v) for v in getattr(rc, _fk(name))]
        if not (a == b == c):
            raise _Diff("accessors", a, dict(item=b, attr=c))
        cols[name] = a
    lens = sorted(set(len(v) for v in cols.values()))
    if len(lens) > 1:
        raise _Diff("columns-ragged", "columns of equal length", {k: len(v) for k, v in cols.items()})
    nrows = lens[0] if lens else 0
    for what, val, exp in (("size", rc.size(), nrows), ("len", len(rc), nrows),
                           ("shape", list(rc.shape()), [len(model["cols"]), nrows])):
        if val != exp:
            raise _Diff(what, exp, val)
    return [tuple(cols[name][i] for name in model["cols"]) for i in range(nrows)]


class _Diff(Exception):
    def __init__(self, what, exp, got):
        Exception.__init__(self, what)
        self.what, self.exp, self.got = what, exp, got


def _rows_js(rows):
    return [list(r) for r in rows]


def _same(a, b):
    """row lists equal under == with the same str/non-str kind per value"""
    if len(a) != len(b):
        return False
    for ra, rb in zip(a, b):
        if len(ra) != len(rb):
            return False
        for x, y in zip(ra, rb):
            if isinstance(x, str) != isinstance(y, str) or not (x == y):
                return False
    return True


def _multiset(rows):
    from collections import Counter
    return Counter(tuple(r) for r in rows)


def _rc_tags(cname, hist):
    c = RC_CFG[cname]
    tags = ["array-mode" if c["array"] else "list-mode", "config=" + cname]
    if hist[0][0] == "ctor":
        tags.append("ctor-rows")
    kinds = [op[0] for op in hist[1:]]
    if "sort" in kinds[:-1]:
        tags.append("after-sort")
    if "dict!" in kinds[:-1]:
        tags.append("after-refused-append")
    for op in hist[1:-1]:
        if op[0] == "read":
            tags.append("after-read:" + op[1])
    if kinds:
        last = hist[-1]
        tags.append("last=" + last[0])
        if last[0] in ("list", "dict") and c["cols"] == "typed" and len(str(c["rows"][last[1]][1])) > 1:
            tags.append("str-longer-than-column-itemsize")
        if last[0] == "sort" and last[2]:
            tags.append("reverse")
    return tags


def _rc_run(cname, hist):
    """Replay a history on a fresh collector; verify the LAST operation.  Returns (rc, model, failure-or-None)."""
    sub = "rows-" + cname
    c = RC_CFG[cname]
    rc, model = _rc_new(cname, hist[0])
    case = dict(part=sub, history=hist)
    last = len(hist) - 1
    if last == 0:
        try:
            got = _rc_rows(rc, model)
        except _Diff as d:
            return rc, model, failure(sub, case, {d.what: d.exp}, {d.what: d.got}, tags=_rc_tags(cname, hist),
                                      behaviour=d.what + "-differs")
        if not _same(got, model["rows"]):
            return rc, model, failure(sub, case, _rows_js(model["rows"]), _rows_js(got),
                                      tags=_rc_tags(cname, hist), behaviour="ctor-rows-not-preserved")
        return rc, model, None
    for k, op in enumerate(hist[1:], start=1):
        if op[0] == "read":
            _rc_read(rc, op)
            if k != last:
                continue
            try:                                     # a read must leave exactly the model's rows
                got = _rc_rows(rc, model)
            except _Diff as d_:
                return rc, model, failure(sub, case, {d_.what: d_.exp}, {d_.what: d_.got},
                                          tags=_rc_tags(cname, hist), behaviour="read-" + d_.what)
            except Exception as e:
                return rc, model, failure(sub, case, "read-out works", [type(e).__name__, str(e)[:200]],
                                          tags=_rc_tags(cname, hist), behaviour="readout-raises:" + type(e).__name__)
            if not _same(got, model["rows"]):
                return rc, model, failure(sub, case, _rows_js(model["rows"]), _rows_js(got),
                                          tags=_rc_tags(cname, hist), behaviour="read-changed-table")
            continue
        if op[0] == "dict!":
            row = c["rows"][op[1]]
            d = ({_fk("cx"): row[0]} if op[2] == "missing"
                 else {_fk("cx"): row[0], _fk("cy"): row[1], _fk("cz"): 0})
            res = _obs(lambda: rc.append(d))
            if res[0] == "ok":
                model["undefined"] = True            # accepting such a row is not judged and not explored further
                return rc, model, None
            if k != last:
                continue
            try:                                     # refused: the collector must still hold exactly the model's rows
                got = _rc_rows(rc, model)
            except _Diff as d_:
                return rc, model, failure(sub, case, {d_.what: d_.exp}, {d_.what: d_.got},
                                          tags=_rc_tags(cname, hist), behaviour="refused-append-" + d_.what)
            except Exception as e:
                return rc, model, failure(sub, case, "read-out works", [type(e).__name__, str(e)[:200]],
                                          tags=_rc_tags(cname, hist), behaviour="readout-raises:" + type(e).__name__)
            if not _same(got, model["rows"]):
                return rc, model, failure(sub, case, _rows_js(model["rows"]), _rows_js(got),
                                          tags=_rc_tags(cname, hist), behaviour="refused-append-changed-table")
            continue
        if op[0] == "list":
            row = c["rows"][op[1]]
            res = _obs(lambda: rc.append(list(row)))
        elif op[0] == "dict":
            row = c["rows"][op[1]]
            names = op[2].split(",")
            if not model["cols"]:
                model["cols"] = list(names)          # a dict on a column-less collector defines the columns
            res = _obs(lambda: rc.append({_fk(nm): row[COLS.index(nm)] for nm in names}))
        else:
            res = _obs(lambda: rc.sort(_fk(op[1]), reverse=True) if op[2] else rc.sort(_fk(op[1])))
        if op[0] in ("list", "dict"):
            model["rows"].append(tuple(row[COLS.index(nm)] for nm in model["cols"]))
        if res[0] != "ok":
            if k == last:
                return rc, model, failure(sub, case, "operation accepted", res, tags=_rc_tags(cname, hist),
                                          behaviour="op-raises:" + res[1])
            return rc, model, None                   # an earlier history already reports this
        if op[0] != "sort" and k != last:
            continue
        try:
            got = _rc_rows(rc, model)
        except _Diff as d:
            if k == last:
                return rc, model, failure(sub, case, {d.what: d.exp}, {d.what: d.got},
                                          tags=_rc_tags(cname, hist), behaviour=d.what + "-differs")
            return rc, model, None
        except Exception as e:
            if k == last:
                return rc, model, failure(sub, case, "read-out works", [type(e).__name__, str(e)[:200]],
                                          tags=_rc_tags(cname, hist), behaviour="readout-raises:" + type(e).__name__)
            return rc, model, None
        if op[0] == "sort":
            ci = model["cols"].index(op[1])
            keycol = [r[ci] for r in got]
            mono = all((keycol[i] >= keycol[i + 1]) if op[2] else (keycol[i] <= keycol[i + 1])
                       for i in range(len(keycol) - 1))
            same = _multiset(got) == _multiset(model["rows"])
            if k == last and not (mono and same):
                tags = _rc_tags(cname, hist)
                mk = [r[ci] for r in model["rows"]]
                if len(set(mk)) < len(mk):
                    tags.append("ties-in-sort-column")
                if len(model["rows"]) >= 2:
                    tags.append("rows>=2")
                return rc, model, failure(sub, case,
                                          dict(multiset_of=_rows_js(model["rows"]), sorted_by=op[1], reverse=op[2]),
                                          _rows_js(got), tags=tags,
                                          behaviour="sort-multiset-changed" if not same else "sort-not-monotone")
            if not (mono and same):
                return rc, model, None
            model["rows"] = got                      # order among ties is not demanded: adopt it
        elif k == last and not _same(got, model["rows"]):
            beh = "append-row-not-preserved"
            if len(got) == len(model["rows"]) and _same(got[:-1], model["rows"][:-1]):
                g, e = got[-1], model["rows"][-1]
                if any(isinstance(x, str) and isinstance(y, str) and x != y and y.startswith(x)
                       for x, y in zip(g, e)):
                    beh = "appended-string-truncated"
            else:
                beh = "append-changed-table"
            return rc, model, failure(sub, case, _rows_js(model["rows"]), _rows_js(got),
                                      tags=_rc_tags(cname, hist), behaviour=beh)
    return rc, model, None


def init_worker():
    from scinumtools import RowCollector, ParameterTable, DataPlotGrid, DataCombination
    import scinumtools as _d
    classes = [RowCollector, ParameterTable, DataPlotGrid, DataCombination]
    for n in ("ParameterSettings",):
        if hasattr(_d, n):
            classes.append(getattr(_d, n))
    isolation.class_state_snapshot(classes)


# ================================================================================================ E1 drivers
def _e1_run(part, name, hist, cfg):
    """(object, model, failure, nonempty-before-last-op)"""
    def go():
        if part == "pt":
            return _pt_run(name == "keyed", hist, cfg)
        return _rc_run(name, hist)
    isolation.class_state_restore()          # nothing an earlier history left on the classes can reach this one
    o = outcome(go)
    if o[0] == "ok" and o[1][2] is None and len(hist) <= LATER_DEPTH:
        # a SECOND object built while the first one is alive must behave like a new one (the simple model has no
        # state outside the object): every short continuation from "new" is verified on it, in every configuration
        # of the same helper, before the class-level state is put back
        later = outcome(_later_instance, part, name, cfg)
        if later[0] == "err" or later[1] is not None:
            sub = ("table-" + name) if part == "pt" else ("rows-" + name)
            inner = later[1] if later[0] == "ok" else dict(behaviour="execution-" + later[1], observed=list(later[1:]),
                                                          expected="history executes", case={})
            isolation.class_state_restore()
            return o[1][0], o[1][1], failure(
                sub, dict(part=sub, history=hist, tier_bounds=dict(keys=(cfg or {}).get("keys")),
                          later=inner.get("case")),
                dict(later_instance=inner.get("expected")), dict(later_instance=inner.get("observed")),
                tags=["later-instance", "first-history-last=" + hist[-1][0]],
                behaviour="later-instance:" + str(inner.get("behaviour")))
    isolation.class_state_restore()
    if o[0] == "err":
        sub = ("table-" + name) if part == "pt" else ("rows-" + name)
        return None, None, failure(sub, dict(part=sub, history=hist, tier_bounds=dict(keys=(cfg or {}).get("keys"))),
                                   "history executes", list(o[1:]), tags=["harness-level"],
                                   behaviour="execution-" + o[1])
    return o[1]


LATER_DEPTH = 4          # histories of at most this length (root + 3 operations) are followed by the later-instance probe


def _later_instance(part, name, cfg):
    """every history  new, op  (and  new  alone) on fresh objects of every configuration of the helper"""
    if part == "pt":
        todo = [(True, cfg), (False, cfg)]
        for keyed, c in todo:
            t, m, bad = _pt_run(keyed, [["new"]], c)
            if bad:
                return bad
            for op in _pt_ops(keyed, c, m if keyed else None, False):
                bad = _pt_run(keyed, [["new"], op], c)[2]
                if bad:
                    return bad
        return None
    for cname in RC_CFG:
        rc, m, bad = _rc_run(cname, [["new"]])
        if bad:
            return bad
        for op in _rc_ops(cname, m, False):
            bad = _rc_run(cname, [["new"], op])[2]
            if bad:
                return bad
    return None


def _e1_ops(part, name, model, cfg, fine=True):
    if part == "pt":
        return _pt_ops(name == "keyed", cfg, model if name == "keyed" else None, fine)
    return _rc_ops(name, model, fine)


def _e1_roots(part, name):
    if part == "pt":
        return [[["new"]], [["ctor", 2]]]
    if RC_CFG[name]["cols"] is None:
        return [[["new"]]]
    return [[["new"]], [["ctor", 2]]]


def _size(part, model):
    if part == "rc":
        return len(model["rows"])
    return len(model[0]) if model and isinstance(model[0], dict) else len(model)


def _bfs(part, name, cfg, depth, sh, label=""):
    pre = "%s-%s" % (part, name)
    seen = {}
    frontier = []
    for hist in _e1_roots(part, name):
        obj, model, bad = _e1_run(part, name, hist, cfg)
        sh.evaluations += 1
        sh.traces += 1
        if bad:
            sh.fail(bad)
            continue
        st = _digest(pre, canon(obj))
        if st not in seen:
            seen[st] = hist
            sh.add_to_set("states", st)
            frontier.append((hist, model))
    d = 0
    while frontier and d < depth:
        d += 1
        nxt = []
        for hist, model in frontier:
            nonempty = _size(part, model) > 0
            for op in _e1_ops(part, name, model, cfg):
                h = hist + [op]
                obj, m2, bad = _e1_run(part, name, h, cfg)
                sh.evaluations += 1
                sh.transitions += 1
                sh.traces += 1
                if nonempty:
                    sh.nontrivial += 1
                sh.count("%s:%s" % (pre, op[0]))
                if cfg and cfg.get("noattr") and op[0] != "read" and op[1] in cfg["noattr"]:
                    sh.count("%s:%s-key-named-like-class-attribute" % (pre, op[0].rstrip("!")))
                if bad:
                    sh.fail(bad)
                    continue                         # do not explore beyond the first divergence
                if part == "rc" and m2.get("undefined"):
                    sh.count(pre + ":unjudged-accepted-malformed-row")
                    continue
                st = _digest(pre, canon(obj))
                if st not in seen:
                    seen[st] = h
                    sh.add_to_set("states", st)
                    nxt.append((h, m2))
                    if len(h) == 5 and len(sh.samples) < 1:
                        sh.sample(dict(part=pre, history=h))
        sh.max_depth = max(sh.max_depth, d)
        frontier = nxt
    sh.add_extra("bfs_states_" + pre + label, len(seen))
    sh.add_extra("bfs_levels_" + pre + label, d)
    sh.add_extra("bfs_closed_" + pre + label, 0 if frontier else 1)    # 1: fixed point, every reachable state expanded


def _seq(part, name, cfg, depth, first, sh):
    """all operation sequences of length 1..depth that start with operation number `first` (unpruned)"""
    pre = "%s-%s" % (part, name)
    root = [["new"]]

    def rec(hist):
        obj, model, bad = _e1_run(part, name, hist, cfg)
        sh.evaluations += 1
        sh.transitions += 1
        sh.traces += 1
        sh.count("%s:unpruned-len%d" % (pre, len(hist) - 1))
        sh.max_depth = max(sh.max_depth, len(hist) - 1)
        if bad:
            sh.fail(bad)
            return
        if part == "rc" and model.get("undefined"):
            return
        sh.add_to_set("states", _digest(pre, canon(obj)))
        if len(hist) - 1 < depth:
            for op in _e1_ops(part, name, model, cfg, fine=False):
                rec(hist + [op])

    obj, model, bad = _e1_run(part, name, root, cfg)
    ops = _e1_ops(part, name, model, cfg, fine=False)
    if first < len(ops):
        rec(root + [ops[first]])


def _n_first_ops(part, name, cfg):
    _, model, _ = _e1_run(part, name, [["new"]], cfg)
    return len(_e1_ops(part, name, model, cfg, fine=False))


# ================================================================================================ E2: grid
def _grid_case(n, ncols, kind, transpose):
    from scinumtools import DataPlotGrid
    case = dict(part="grid", n=n, ncols=ncols, kind=kind, transpose=transpose)
    tags = ["kind=" + kind, "transposed" if transpose else "normal"]
    nrows = -(-n // ncols)
    if n % ncols:
        tags.append("incomplete-last-row")
    if nrows != ncols:
        tags.append("nrows!=ncols")
    if kind == "list":
        data = ["d%d" % i for i in range(n)]
        payload = [(d,) for d in data]
    else:
        data = {"k%d" % i: "v%d" % i for i in range(n)}
        payload = [(k, v) for k, v in data.items()]

    def run():
        g = DataPlotGrid(data, ncols) if ncols != 2 else DataPlotGrid(data, ncols=2)
        return (g.ndata, g.ncols, g.nrows, [tuple(x) for x in g.items(transpose=transpose)],
                [tuple(x) for x in g.items(missing=True, transpose=transpose)])
    o = outcome(run)
    if o[0] == "err":
        return failure("grid", case, "grid enumerates", list(o[1:]), tags=tags, behaviour="raises:" + o[1])
    ndata, nc, nr, items, missing = o[1]
    if (ndata, nc, nr) != (n, ncols, nrows):
        return failure("grid", case, [n, ncols, nrows], [ndata, nc, nr], tags=tags, behaviour="dimensions-differ")
    js = lambda xs: [list(x) for x in xs]
    total = nrows * ncols
    if [x[0] for x in items] != list(range(n)) or [x[3:] for x in items] != payload \
            or any(len(x) != 3 + len(payload[0]) for x in items):
        return failure("grid", case, "indices 0..n-1 with the data in order", js(items), tags=tags,
                       behaviour="data-cells-index-or-payload")
    if [x[0] for x in missing] != list(range(n, total)) or any(len(x) != 3 for x in missing):
        return failure("grid", case, "missing indices n..nrows*ncols-1", js(missing), tags=tags,
                       behaviour="missing-cells-index")
    pos_d = [(x[1], x[2]) for x in items]
    pos_m = [(x[1], x[2]) for x in missing]
    pos = pos_d + pos_m
    full = set((r, c) for r in range(nrows) for c in range(ncols))
    if len(set(pos)) != len(pos) or set(pos) != full:
        where = "data" if (len(set(pos_d)) != len(pos_d) or not set(pos_d) <= full) else "missing"
        return failure("grid", case, "positions cover the %dx%d grid exactly once" % (nrows, ncols),
                       dict(data=js(pos_d), missing=js(pos_m)), tags=tags, behaviour="cover-broken-by-%s-cells" % where)
    want = [((i % nrows, i // nrows) if transpose else (i // ncols, i % ncols)) for i in range(total)]
    if pos != want:
        where = "data" if pos_d != want[:n] else "missing"
        return failure("grid", case, js(want), js(pos), tags=tags, behaviour="order-differs-in-%s-cells" % where)
    return None


# ================================================================================================ size families
def _lin_run(part, name, hist, cfg, sh, pre, new_sizes):
    obj, model, bad = _e1_run(part, name, hist, cfg)
    sh.evaluations += 1
    sh.transitions += 1
    sh.traces += 1
    sh.max_depth = max(sh.max_depth, len(hist) - 1)
    if new_sizes:
        sh.nontrivial += 1           # sizes within the BFS bound repeat BFS transitions: not counted as distinct
    sh.count(pre + ":size-family")
    if bad:
        sh.fail(bad)
        return False
    sh.add_to_set("states", _digest(pre, canon(obj)))
    return True


def _lin_pt(keyed, tier, n, sh):
    """Boundary sizes are a dimension of their own: tables of exactly n entries (built by n appends and by the
    constructor), then every read operation (or none), then the full read-out, then one follow-up operation at
    every position (delete / overwrite) or at the end (append, refused append, delete of an absent key)."""
    cfg = LIN[tier]
    keys = cfg["keys"]
    name = "keyed" if keyed else "unkeyed"
    pre = "pt-" + name
    if keyed:
        build = [["append", keys[i], i % 2] for i in range(n)]
        reads = [["read", "keys"], ["read", "str"], ["read", "repr"], ["read", "format"]]
        for k in keys[:min(n + 1, len(keys))]:
            reads += [["read", "attr", k], ["read", "key", k], ["read", "in", k]]
        follow = []
        for p in range(n):
            follow += [["del", keys[p]], ["set", keys[p], 1]]
        if n < len(keys):
            follow += [["append", keys[n], 0], ["set!", keys[n]], ["del", keys[n]]]
    else:
        build = [["append", i % 2] for i in range(n)]
        reads = [["read", "str"], ["read", "repr"]]
        follow = [["del", p] for p in range(n + 1)] + [["append", 2], ["append!"]]
    reads += [["read", "pos", i] for i in range(n + 1)]
    reads += [["read", "len"], ["read", "shape"], ["read", "iter"], ["read", "items"], ["read", "data"],
              ["read", "all"]]
    new = n > len(PT[tier]["keys"])
    for root in ([["ctor", n]], [["new"]] + build):
        for r in [None] + reads:
            h = root + ([r] if r else [])
            if not _lin_run("pt", name, h, cfg, sh, pre, new):
                continue
            for o in follow:
                _lin_run("pt", name, h + [o], cfg, sh, pre, new)
    if n == 9 and keyed:
        sh.sample(dict(part=pre, size_family=n, history=[["ctor", n], ["read", "str"], ["del", keys[4]]]))


def _lin_rc(cname, tier, sh):
    c = RC_CFG[cname]
    pre = "rc-" + cname
    for n in range(1, LIN[tier]["rows"] + 1):
        if c["cols"] is None:
            build = [["dict", i % 4, "cx,cy"] for i in range(n)]
            follow = [["dict", 0, "cy,cx"]]
        else:
            build = [["list", i % 4] for i in range(n)]
            follow = [["list", 0], ["dict", 1, "cy,cx"], ["dict!", 0, "missing"]]
        follow += [["sort", "cx", False], ["sort", "cy", True]]
        new = n > RC[tier]["depth"]
        root = [["new"]] + build
        for r in [None] + _rc_reads(True):
            h = root + ([r] if r else [])
            if not _lin_run("rc", cname, h, None, sh, pre, new):
                continue
            for o in follow:
                _lin_run("rc", cname, h + [o], None, sh, pre, new)


# ================================================================================================ E2: overlapping grid iterations
ARGS4 = [(False, False), (False, True), (True, False), (True, True)]     # (missing, transpose)


def _grid_data(n, kind):
    if kind == "list":
        return ["d%d" % i for i in range(n)]
    return {"k%d" % i: "v%d" % i for i in range(n)}


def _tuples_of(k):
    if k == 0:
        return [()]
    return [(a,) + rest for a in ARGS4 for rest in _tuples_of(k - 1)]


def _prefixes(k, length):
    if length == 0:
        return [()]
    return [(i,) + rest for i in range(k) for rest in _prefixes(k, length - 1)]


def _schedules(lens, length):
    """effective next()-schedules of len(lens) generators: every prefix of `length` calls (calls on a finished
    generator are dropped), then the rest drained one generator after the other / round-robin.  A generator with m
    items takes m+1 calls (the last one ends it)."""
    k = len(lens)
    out = set()
    for pre in _prefixes(k, length):
        left = [m + 1 for m in lens]
        eff = []
        for i in pre:
            if left[i]:
                left[i] -= 1
                eff.append(i)
        seq = list(eff)
        for i in range(k):
            seq += [i] * left[i]
        out.add(tuple(seq))
        rr, l2 = list(eff), list(left)
        while any(l2):
            for i in range(k):
                if l2[i]:
                    l2[i] -= 1
                    rr.append(i)
        out.add(tuple(rr))
    return sorted(out)


_ALONE = {}


def _grid_alone(n, ncols, kind, arg):
    key = (n, ncols, kind, arg)
    if key not in _ALONE:
        from scinumtools import DataPlotGrid
        _ALONE[key] = outcome(lambda: [tuple(x) for x in DataPlotGrid(_grid_data(n, kind), ncols).items(
            missing=arg[0], transpose=arg[1])])
    return _ALONE[key]


def _mix_case(n, ncols, kind, args, sched, lazy):
    """several items() generators of ONE grid object consumed in the interleaving `sched`; each generator must yield
    exactly what the same call yields on a fresh object when consumed alone"""
    from scinumtools import DataPlotGrid
    args = [tuple(a) for a in args]
    case = dict(part="grid-interleave", n=n, ncols=ncols, kind=kind, args=[list(a) for a in args],
                schedule=list(sched), lazy=lazy)
    tags = ["generators=%d" % len(args), "kind=" + kind]
    if len(set(a[1] for a in args)) > 1:
        tags.append("mixed-transpose")
    if len(set(a[0] for a in args)) > 1:
        tags.append("mixed-missing")
    alone = [_grid_alone(n, ncols, kind, a) for a in args]
    if any(o[0] == "err" for o in alone):
        return None                                  # the single iteration is judged by the plain grid cases

    def run():
        g = DataPlotGrid(_grid_data(n, kind), ncols)
        gens = [None] * len(args)
        if not lazy:
            gens = [g.items(missing=a[0], transpose=a[1]) for a in args]
        outs = [[] for _ in args]
        for i in sched:
            if gens[i] is None:
                gens[i] = g.items(missing=args[i][0], transpose=args[i][1])
            try:
                outs[i].append(tuple(next(gens[i])))
            except StopIteration:
                pass
        return outs
    o = outcome(run)
    if o[0] == "err":
        return failure("grid-interleave", case, "iterations run", list(o[1:]), tags=tags, behaviour="raises:" + o[1])
    for i, (got, exp) in enumerate(zip(o[1], alone)):
        if got != exp[1]:
            return failure("grid-interleave", case, dict(generator=i, alone=[list(x) for x in exp[1]]),
                           dict(generator=i, interleaved=[list(x) for x in got]), tags=tags,
                           behaviour="interleaved-sequence-differs")
    return None


def _mix_shard(k, n, ncols, kinds, length, sh):
    for kind in kinds:
        for args in _tuples_of(k):
            alone = [_grid_alone(n, ncols, kind, a) for a in args]
            if any(o[0] == "err" for o in alone):
                continue
            lens = [len(o[1]) for o in alone]
            for sched in _schedules(lens, length):
                runs = [sched[j] for j in range(len(sched)) if j == 0 or sched[j] != sched[j - 1]]
                overlap = len(runs) > len(set(runs))     # some generator is resumed after another one ran
                for lazy in (False, True):
                    bad = _mix_case(n, ncols, kind, args, sched, lazy)
                    sh.evaluations += 1
                    if overlap and sum(1 for m in lens if m) >= 2:
                        sh.nontrivial += 1
                    sh.count("grid-interleave:%d-generators" % k)
                    if bad:
                        sh.fail(bad)
                    elif (n, ncols, kind, k, lazy) == (5, 2, "list", 2, False) and args == ((False, False), (False, True)) \
                            and len(sh.samples) < 1 and overlap:
                        sh.sample(dict(part="grid-interleave", n=n, ncols=ncols, kind=kind,
                                       args=[list(a) for a in args], schedule=list(sched)))


# ================================================================================================ E2: combination
def _shapes(nlists, maxlen):
    """all tuples of `nlists` lengths in 0..maxlen, by nested recursion"""
    if nlists == 0:
        return [()]
    return [(a,) + rest for a in range(maxlen + 1) for rest in _shapes(nlists - 1, maxlen)]


def _patterns(n):
    """all equality patterns of n positions (restricted growth strings): [0,1,0] = first and third value equal"""
    if n == 0:
        return [()]
    out = []
    for p in _patterns(n - 1):
        for b in range((max(p) + 1 if p else 0) + 1):
            out.append(p + (b,))
    return out


def _pattern_lists(nlists, maxlen):
    """all tuples of nlists equality patterns of length 0..maxlen"""
    one = [p for n in range(maxlen + 1) for p in _patterns(n)]
    if nlists == 0:
        return [()]
    return [(a,) + rest for a in one for rest in _pattern_lists(nlists - 1, maxlen)]


def _product(lists):
    """Cartesian product by plain recursion: [(index tuple, value tuple)], first list varying slowest"""
    if not lists:
        return [((), ())]
    out = []
    for i, v in enumerate(lists[0]):
        for ks, vs in _product(lists[1:]):
            out.append(((i,) + ks, (v,) + vs))
    return out


def _eq_value(block, occurrence):
    """values of one block compare equal (==, same hash) but have different types"""
    from fractions import Fraction
    base = [1, 0, 2, 3, 4][block]
    if block < 2:
        return [base, float(base), bool(base), Fraction(base)][occurrence % 4]
    return [base, float(base), complex(base), Fraction(base)][occurrence % 4]


def _comb_lists(shape, variant, patterns=None):
    if variant == "unique":
        return [["%s%d" % (chr(97 + i), j) for j in range(n)] for i, n in enumerate(shape)]
    if variant == "shared":
        return [[j * 10 for j in range(n)] for n in shape]           # same values in every list
    if variant == "tuples":
        return [tuple((i, j) for j in range(n)) for i, n in enumerate(shape)]   # item lists given as tuples
    out = []
    for p in patterns:
        if variant == "pattern-labels":              # repeated values inside an item list
            out.append([["lin", "log", "sqrt", "exp", "inv"][b] for b in p])
        elif variant == "pattern-eqtypes":           # ==-equal values of different type inside an item list
            seen = {}
            lst = []
            for b in p:
                lst.append(_eq_value(b, seen.get(b, 0)))
                seen[b] = seen.get(b, 0) + 1
            out.append(lst)
        else:                                        # "pattern-unhashable": equal but distinct list objects
            out.append([[b] for b in p])
    return out


def _comb_case(shape, variant, patterns=None):
    from scinumtools import DataCombination
    case = dict(part="combination", shape=list(shape), variant=variant)
    tags = ["lists=%d" % len(shape), "variant=" + variant]
    if patterns is not None:
        case["patterns"] = [list(p) for p in patterns]
        if any(len(set(p)) < len(p) for p in patterns):
            tags.append("equal-values-in-one-list")
    if len(shape) >= 3:
        tags.append("lists>=3")
    if 0 in shape:
        tags.append("empty-item-list")
    lists = _comb_lists(shape, variant, patterns)
    exp = _product(lists)

    def run():
        dc = DataCombination(lists)
        return ([tuple(k) for k in dc.keys()], [tuple(v) for v in dc.values()],
                [(tuple(k), tuple(v)) for k, v in dc.items()])
    o = outcome(run)
    if o[0] == "err":
        return failure("combination", case, "enumerates", list(o[1:]), tags=tags, behaviour="raises:" + o[1])
    keys, values, items = o[1]
    jk = lambda ks: [list(k) for k in ks]
    jv = lambda vs: [[_v(x) for x in v] for v in vs]          # values compared by type + repr (1 is not 1.0)
    ekeys, evals = [k for k, _ in exp], [v for _, v in exp]
    if keys != ekeys:
        return failure("combination", case, jk(ekeys), jk(keys), tags=tags, behaviour="keys-differ")
    if jv(values) != jv(evals):
        return failure("combination", case, jv(evals), jv(values), tags=tags, behaviour="values-differ")
    ikeys, ivals = [k for k, _ in items], [v for _, v in items]
    if ikeys != ekeys:
        beh = "items-index-tuples-differ"
        if len(ikeys) == len(ekeys) and len(set(ikeys)) < len(ikeys):
            beh = "items-index-tuples-repeated"
        return failure("combination", case, jk(ekeys), jk(ikeys), tags=tags, behaviour=beh)
    if jv(ivals) != jv(evals):
        return failure("combination", case, jv(evals), jv(ivals), tags=tags, behaviour="items-values-differ")
    return None


# ================================================================================================ module API
def plan(tier, seed):
    shards = [("bfs", "pt", "keyed", tier), ("bfs", "pt", "unkeyed", tier)]
    for i in range(len(PT_EXTRA[tier])):
        shards.append(("bfs", "pt", "keyed", tier, i))
    for i in range(len(PT_COLLIDE[tier])):
        shards.append(("bfsc", tier, i))
    for name in RC_CFG:
        shards.append(("bfs", "rc", name, tier))
    for name in ("keyed", "unkeyed"):
        for first in range(_n_first_ops("pt", name, PT[tier])):
            shards.append(("seq", "pt", name, tier, first))
    for name in RC_CFG:
        for first in range(_n_first_ops("rc", name, None)):
            shards.append(("seq", "rc", name, tier, first))
    for n in range(1, LIN[tier]["nmax"] + 1):
        shards.append(("lin", "pt", "keyed", tier, n))
        shards.append(("lin", "pt", "unkeyed", tier, n))
    for name in RC_CFG:
        shards.append(("lin", "rc", name, tier))
    for k, (n0, n1), (c0, c1), kinds, length in MIX[tier]:
        for n in range(n0, n1 + 1):
            for ncols in range(c0, c1 + 1):
                shards.append(("gridmix", k, n, ncols, kinds, length))
    for ncols in range(1, GRID[tier]["cmax"] + 1):
        shards.append(("grid", ncols, tier))
    for nl in range(COMB[tier]["lists"] + 1):
        shards.append(("comb", nl, tier))
    # equality patterns inside the item lists: one shard per pattern of the first list (+ one for "no list")
    shards.append(("combpat", None, tier))
    for first in range(len(_pattern_lists(1, COMB[tier]["plength"]))):
        shards.append(("combpat", first, tier))
    return shards


def run_shard(desc):
    sh = Shard(PROPERTY)
    kind = desc[0]
    if kind == "bfs":
        part, name, tier = desc[1:4]
        cfg = PT[tier] if part == "pt" else None
        if len(desc) > 4:
            cfg = PT_EXTRA[tier][desc[4]]
        depth = cfg["depth"] if part == "pt" else RC[tier]["depth"]
        _bfs(part, name, cfg, depth, sh, label="" if len(desc) == 4 else "-x%d" % desc[4])
    elif kind == "bfsc":
        cfg = PT_COLLIDE[desc[1]][desc[2]]
        _bfs("pt", "keyed", cfg, cfg["depth"], sh, label="-names%d" % desc[2])
    elif kind == "seq":
        _, part, name, tier, first = desc
        cfg = PT[tier] if part == "pt" else None
        depth = PT[tier]["useq"] if part == "pt" else RC[tier]["useq"]
        _seq(part, name, cfg, depth, first, sh)
    elif kind == "lin":
        if desc[1] == "pt":
            _lin_pt(desc[2] == "keyed", desc[3], desc[4], sh)
        else:
            _lin_rc(desc[2], desc[3], sh)
    elif kind == "gridmix":
        _mix_shard(desc[1], desc[2], desc[3], desc[4], desc[5], sh)
    elif kind == "grid":
        _, ncols, tier = desc
        for n in range(GRID[tier]["nmax"] + 1):
            for k in ("list", "dict"):
                for tr in (False, True):
                    bad = _grid_case(n, ncols, k, tr)
                    sh.evaluations += 1
                    if n >= 2:
                        sh.nontrivial += 1
                    nrows = -(-n // ncols)
                    sh.count("grid:" + ("complete" if nrows * ncols == n else "with-missing-cells"))
                    if bad:
                        sh.fail(bad)
                    elif n == 5 and ncols == 3 and tr and k == "list":
                        sh.sample(dict(part="grid", n=n, ncols=ncols, kind=k, transpose=tr))
    elif kind == "combpat":
        _, first, tier = desc
        c = COMB[tier]
        if first is None:
            todo = [()]
        else:
            head = _pattern_lists(1, c["plength"])[first]
            todo = [head + rest for nl in range(c["plists"]) for rest in _pattern_lists(nl, c["plength"])]
        for pats in todo:
            shape = tuple(len(p) for p in pats)
            rep = any(len(set(p)) < len(p) for p in pats)
            for variant in PVARIANTS:
                bad = _comb_case(shape, variant, pats)
                sh.evaluations += 1
                if len(pats) >= 2:
                    sh.nontrivial += 1
                sh.count("combination:" + ("with-equal-values-in-a-list" if rep else "pattern-all-distinct"))
                if bad:
                    sh.fail(bad)
                elif pats == ((0, 1, 0), (0, 0)) and variant == "pattern-eqtypes":
                    sh.sample(dict(part="combination", variant=variant, patterns=[list(p) for p in pats],
                                   lists=repr(_comb_lists(shape, variant, pats))))
    else:
        _, nl, tier = desc
        for shape in _shapes(nl, COMB[tier]["length"]):
            for variant in ("unique", "shared", "tuples"):
                bad = _comb_case(shape, variant)
                sh.evaluations += 1
                if nl >= 2:
                    sh.nontrivial += 1
                sh.count("combination:" + ("empty-product" if 0 in shape else "non-empty-product"))
                if bad:
                    sh.fail(bad)
                elif shape == (2, 1, 3) and variant == "unique":
                    sh.sample(dict(part="combination", shape=list(shape), variant=variant))
    return sh


def replay(rec):
    c = rec["case"]
    part = c["part"]
    if part == "grid":
        return _grid_case(c["n"], c["ncols"], c["kind"], c["transpose"])
    if part == "grid-interleave":
        return _mix_case(c["n"], c["ncols"], c["kind"], c["args"], tuple(c["schedule"]), c["lazy"])
    if part == "combination":
        pats = tuple(tuple(p) for p in c["patterns"]) if "patterns" in c else None
        return _comb_case(tuple(c["shape"]), c["variant"], pats)
    hist = [list(op) for op in c["history"]]
    if part.startswith("table-"):
        keys = c["tier_bounds"]["keys"]
        cfg = [c for c in [PT["quick"], PT["thorough"], LIN["quick"], LIN["thorough"]] + PT_COLLIDE["thorough"]
               if c["keys"] == keys][0]
        return _e1_run("pt", part[len("table-"):], hist, cfg)[2]
    return _e1_run("rc", part[len("rows-"):], hist, None)[2]


def finish(total, tier, seed):
    states = total.sets.get("states", set())
    total.states = len(states)
    h = total.hist
    clean = not total.failures and not total.known
    if clean:
        need = ["pt-keyed:del", "pt-keyed:set", "pt-keyed:append", "pt-unkeyed:del", "grid:with-missing-cells",
                "grid:complete", "combination:empty-product", "combination:non-empty-product",
                "combination:with-equal-values-in-a-list", "pt-keyed:set!", "pt-keyed:append!", "pt-unkeyed:append!",
                "pt-keyed:read", "pt-unkeyed:read", "pt-keyed:size-family", "pt-unkeyed:size-family",
                "grid-interleave:2-generators", "grid-interleave:3-generators"]
        need += ["pt-keyed:%s-key-named-like-class-attribute" % o for o in ("append", "set", "del")]
        need += ["rc-%s:sort" % n for n in RC_CFG] + ["rc-%s:dict" % n for n in RC_CFG]
        need += ["rc-%s:read" % n for n in RC_CFG]
        need += ["rc-%s:dict!" % n for n in RC_CFG if RC_CFG[n]["cols"] is not None]
        miss = [k for k in need if not h.get(k)]
        if miss:
            raise HarnessError("vacuous run, no cases of: %s" % miss)
        if total.extra.get("bfs_closed_pt-keyed") != 1:
            raise HarnessError("keyed-table state graph did not reach its fixed point within the depth bound")
        for i in range(len(PT_COLLIDE[tier])):
            if total.extra.get("bfs_closed_pt-keyed-names%d" % i) != 1:
                raise HarnessError("keyed-table state graph (key names run %d) did not reach its fixed point" % i)
    per = {}
    for s in states:
        per[s.split(":")[0]] = per.get(s.split(":")[0], 0) + 1
    return dict(states=len(states), states_per_object=dict(sorted(per.items())),
                bounds=dict(table=PT[tier], row_collector=dict(RC[tier], configs=sorted(RC_CFG), rows=ROWS,
                                                              rows_typed=ROWS_T, rows_numeric=ROWS_N),
                            table_key_names=PT_COLLIDE[tier],
                            grid=GRID[tier], combination=COMB[tier], size_families=LIN[tier],
                            grid_interleavings=[list(x) for x in MIX[tier]]),
                caps_hit=[])

MANIFEST = dict(
    text="Explicit-state BFS on the real ParameterTable (keyed: 4 keys x 2 records, append/setitem/delete incl. absent "
         "keys, REFUSED assignments (record cannot be built) as fault transitions and every public read-out as a "
         "read operation (reads may have side effects), roots empty and "
         "constructor-filled; un-keyed: 3 records, positional delete, refused append) to the fixed point of the "
         "state graph (depth bound 6), 7 more keyed runs whose keys are names of class / record attributes (keys, items, "
         "data, shape, append, _keys, _data, p, q ...: pairs + one ordinary key; t.<key> not demanded for them) and on the real RowCollector in 5 configurations (list/array mode, declared, "
         "typed and dict-defined columns; append list/dict, refused dict rows, read operations, sort by every column asc/desc, rows "
         "with ties) to depth 5, de-duplicated on vars(object); after every transition the complete public read-out "
         "is compared with an insertion-ordered dict / list / list of rows (sort: monotone column, multiset of rows "
         "unchanged). All operation sequences up to depth 3 are additionally executed unpruned. Complete enumeration "
         "of DataPlotGrid (n 0..12, ncols 1..6, list/dict, normal/transposed: exact cover, index order, "
         "row/column-major; plus 2 and 3 overlapping items() generators of one grid object in every argument "
         "combination and every schedule with 4 free next() calls, each compared with its solo sequence), size "
         "families (tables and collectors of exactly 1..12 entries x every read incl. str/repr x one operation at "
         "every position) and DataCombination (all 85 shapes of 0-3 item lists of length 0-3 in 3 value variants, "
         "and all 820 tuples of equality patterns inside the item lists rendered as repeated labels, ==-equal values "
         "of different type and unhashable equal values, vs a nested-loop product). Thorough: 5 keys (plus a 4-key run with 2 pending "
         "refusals), depth 7/6, unpruned depth 4, n 0..40 x ncols 1..12, 0-4 lists of length 0-4, patterns to length 4. Class-level containers and mutable default arguments of the helper classes are restored between histories; every E1 history of length <= 4 is followed, while its object is alive, by new and new+op for every operation of every configuration on fresh objects (later-instance probe).",
    note="Trusted: Python dict/list semantics as the model, canonicalisation of vars(object) as the complete state. "
         "Not covered: negative positions, integer keys, ragged rows, mixed-type columns, order among tied rows, the "
         "state between a refused assignment of a new key and its retry, to_dataframe/to_text; histories beyond the "
         "bounds rely on the fixed point (table) / small-scope hypothesis (row collector).",
    technique="explicit-state BFS over operation and fault histories on the real objects vs dict/list models; complete enumeration for grid and product",
)
