"""Readers for C19: every exported configuration text is read back by the format's own reader / compiler.

Each reader takes the exported text, a list of `Item`s (mapped symbol name, rank of the value in the environment, mode) and
a list of names that must NOT be defined, and returns

    ("ok", {name: Obs-dict})            or            ("fail", stage, message)

with stage in {"compile", "run", "load", "absent"}.  An Obs-dict has

    kind    'bool' | 'int' | 'float' | 'str' | 'empty' (C macro with empty body) | 'other'
    width   storage bits of the declared (element) type, None where the format has no such notion
    signed  True / False / None
    shape   None for a scalar, else list of extents measured in the target language
    values  scalar or flat list in row-major *index* order (element [i][j] of the target object at position i*n1+j)
    exact   for floats: the value is exactly the printed double (long double / real(16) carry more bits)
    ctype   raw type text of the target language (for messages)
    unit    unit text where the format carries one (DIP, JSON, YAML, TOML), else None

The printer programs are generated from (name, rank, mode) only and dispatch on the *declared* type inside the target
language (_Generic, templates, generic interfaces, traits), so they share no code with the exporters.
Nothing is written outside the scratch directory passed in (TMPDIR is pointed there for the compilers).
"""
import os
import re
import json
import subprocess
from collections import namedtuple

Item = namedtuple("Item", "name rank mode none")      # mode: 'const' | 'define'; none: environment value is none

IDENT = re.compile(r"^[A-Za-z_][A-Za-z0-9_]*$")
COMPILE_TIMEOUT = 300
RUN_TIMEOUT = 60


def _env(d):
    e = dict(os.environ)
    e["TMPDIR"] = d
    e["LC_ALL"] = "C"
    e.pop("RUSTFLAGS", None)
    return e


def _sh(cmd, d, timeout):
    try:
        r = subprocess.run(cmd, cwd=d, env=_env(d), capture_output=True, timeout=timeout)
        return r.returncode, r.stdout, r.stderr.decode("utf-8", "replace")
    except subprocess.TimeoutExpired:
        return -999, b"", "timeout after %ss: %s" % (timeout, " ".join(cmd[:3]))


def _write(d, name, text):
    with open(os.path.join(d, name), "w", encoding="utf-8", newline="\n") as f:
        f.write(text)


def _first_error(stderr):
    """first error line of the compiler plus the beginning of its output (which quotes the offending source line)"""
    first = stderr.strip()[:200]
    for line in stderr.splitlines():
        if re.search(r"\berror\b|Error:", line):
            first = line.strip()[:200]
            break
    return first + " || " + " ".join(stderr.split())[:420]


def _unhex(h):
    return bytes.fromhex(h).decode("utf-8", "replace")


# ------------------------------------------------------------------------------------------------ value tokens
def _tok(t):
    """value token printed by the C / C++ / Fortran programs -> (kind, value, exact)"""
    c, rest = t[0], t[1:]
    if c == "b":
        return "bool", bool(int(rest)), True
    if c == "i" or c == "u":
        return "int", int(rest), True
    if c == "f":
        v, ex = rest.rsplit(":", 1)
        return "float", float(v), ex.strip() == "1"
    if c == "s":
        return "str", _unhex(rest), True
    if c == "n":
        return "str", None, True
    return "other", t, True


def _collect(lines, sep):
    """S/E/D/X records -> {name: obs}"""
    obs = {}
    for ln in lines:
        p = ln.split(sep)
        if p[0] == "S":
            name, mode, tname, size, dims = p[1], p[2], p[3], p[4], p[5]
            obs[name] = dict(mode=mode, ctype=tname, size=int(size) if size != "-" else None,
                             shape=None if dims == "-" else [int(x) for x in dims.split(",") if x != ""],
                             values=[], idx=[], exact=True, unit=None)
        elif p[0] == "E":
            o = obs[p[1]]
            kind, v, ex = _tok(p[3])
            o["values"].append(v)
            o["idx"].append(p[2])
            o["exact"] = o["exact"] and ex
            o.setdefault("vkind", kind)
        elif p[0] == "D":
            obs.setdefault(p[1], dict(mode="define", ctype="macro", size=None, shape=None, values=[], idx=[],
                                      exact=True, unit=None))["macro"] = _unhex(p[2])
        elif p[0] == "X":
            obs[p[1]] = None
    return obs


def _finish(obs):
    """flat value list -> scalar for scalars; check that indices arrived in row-major order"""
    out = {}
    for name, o in obs.items():
        if o is None:
            continue
        if o["shape"] is None:
            o["values"] = o["values"][0] if o["values"] else None
        o.pop("idx", None)
        out[name] = o
    return out


# ------------------------------------------------------------------------------------------------ C and C++
C_TYPES = {  # _Generic name -> (kind, signed)
    "bool": ("bool", None), "char": ("int", None), "schar": ("int", True), "uchar": ("int", False),
    "short": ("int", True), "ushort": ("int", False), "int": ("int", True), "uint": ("int", False),
    "long": ("int", True), "ulong": ("int", False), "llong": ("int", True), "ullong": ("int", False),
    "i128": ("int", True), "u128": ("int", False),
    "float": ("float", None), "double": ("float", None), "ldouble": ("float", None), "str": ("str", None),
}

C_PRELUDE = r"""
#include <stdio.h>
#include <string.h>
#include "config.h"
#define STR_(x) #x
#define XSTR_(x) STR_(x)
#define TN(x) _Generic((x), _Bool:"bool", char:"char", signed char:"schar", unsigned char:"uchar", short:"short", \
  unsigned short:"ushort", int:"int", unsigned:"uint", long:"long", unsigned long:"ulong", long long:"llong", \
  unsigned long long:"ullong", __int128:"i128", unsigned __int128:"u128", float:"float", double:"double", \
  long double:"ldouble", char*:"str", const char*:"str", default:"other")
static void pv_b(_Bool v){printf("b%d",(int)v);}
static void pv_i(long long v){printf("i%lld",v);}
static void pv_u(unsigned long long v){printf("u%llu",v);}
static void pv_u128(unsigned __int128 v){char b[48];int n=47;b[n]=0;if(!v)b[--n]='0';while(v){b[--n]='0'+(int)(v%10);v/=10;}printf("u%s",b+n);}
static void pv_i128(__int128 v){if(v<0){printf("i-");v=-v;char b[48];int n=47;b[n]=0;while(v){b[--n]='0'+(int)(v%10);v/=10;}printf("%s",b+n);}else{unsigned __int128 w=v;char b[48];int n=47;b[n]=0;if(!w)b[--n]='0';while(w){b[--n]='0'+(int)(w%10);w/=10;}printf("i%s",b+n);}}
static void pv_f(float v){printf("f%.17g:1",(double)v);}
static void pv_d(double v){printf("f%.17g:1",v);}
static void pv_ld(long double v){printf("f%.17g:%d",(double)v,(int)((long double)(double)v==v));}
static void pv_s(const char*s){if(!s){printf("n");return;}printf("s");for(;*s;s++)printf("%02x",(unsigned char)*s);}
static void pv_o(const void*p){(void)p;printf("?");}
#define PV(x) _Generic((x), _Bool:pv_b, char:pv_i, signed char:pv_i, short:pv_i, int:pv_i, long:pv_i, long long:pv_i, \
  unsigned char:pv_u, unsigned short:pv_u, unsigned:pv_u, unsigned long:pv_u, unsigned long long:pv_u, \
  __int128:pv_i128, unsigned __int128:pv_u128, float:pv_f, double:pv_d, long double:pv_ld, char*:pv_s, \
  const char*:pv_s, default:pv_o)(x)
static void hexs(const char*s){for(;*s;s++)printf("%02x",(unsigned char)*s);}
struct verif_absent_ { int x; };
"""

CPP_PRELUDE = r"""
#include <cstdio>
#include <cstring>
#include <type_traits>
#include "config.h"
#define STR_(x) #x
#define XSTR_(x) STR_(x)
template<class T> const char* tn_(const T&){
  using U = typename std::remove_cv<T>::type;
  if constexpr(std::is_same<U,bool>::value) return "bool";
  else if constexpr(std::is_same<U,char>::value) return "char";
  else if constexpr(std::is_same<U,signed char>::value) return "schar";
  else if constexpr(std::is_same<U,unsigned char>::value) return "uchar";
  else if constexpr(std::is_same<U,short>::value) return "short";
  else if constexpr(std::is_same<U,unsigned short>::value) return "ushort";
  else if constexpr(std::is_same<U,int>::value) return "int";
  else if constexpr(std::is_same<U,unsigned>::value) return "uint";
  else if constexpr(std::is_same<U,long>::value) return "long";
  else if constexpr(std::is_same<U,unsigned long>::value) return "ulong";
  else if constexpr(std::is_same<U,long long>::value) return "llong";
  else if constexpr(std::is_same<U,unsigned long long>::value) return "ullong";
  else if constexpr(std::is_same<U,__int128>::value) return "i128";
  else if constexpr(std::is_same<U,unsigned __int128>::value) return "u128";
  else if constexpr(std::is_same<U,float>::value) return "float";
  else if constexpr(std::is_same<U,double>::value) return "double";
  else if constexpr(std::is_same<U,long double>::value) return "ldouble";
  else if constexpr(std::is_same<U,char*>::value || std::is_same<U,const char*>::value) return "str";
  else if constexpr(std::is_array<U>::value && std::is_same<typename std::remove_cv<typename std::remove_extent<U>::type>::type,char>::value) return "str";
  else return "other";
}
static void pstr_(const char*s){if(!s){printf("n");return;}printf("s");for(;*s;s++)printf("%02x",(unsigned char)*s);}
static void pbig_(unsigned __int128 w){char b[48];int n=47;b[n]=0;if(!w)b[--n]='0';while(w){b[--n]='0'+(int)(w%10);w/=10;}printf("%s",b+n);}
template<class T> void pv_(const T& v){
  using U = typename std::remove_cv<T>::type;
  if constexpr(std::is_same<U,bool>::value) printf("b%d",(int)v);
  else if constexpr(std::is_same<U,__int128>::value) { if(v<0){printf("i-");pbig_((unsigned __int128)(-v));}else{printf("i");pbig_((unsigned __int128)v);} }
  else if constexpr(std::is_same<U,unsigned __int128>::value) { printf("u"); pbig_(v); }
  else if constexpr(std::is_floating_point<U>::value) printf("f%.17g:%d",(double)v,(int)((long double)(double)v==(long double)v));
  else if constexpr(std::is_integral<U>::value && std::is_signed<U>::value) printf("i%lld",(long long)v);
  else if constexpr(std::is_integral<U>::value) printf("u%llu",(unsigned long long)v);
  else if constexpr(std::is_convertible<U,const char*>::value) pstr_(v);
  else printf("?");
}
#define TN(x) tn_(x)
#define PV(x) pv_(x)
static void hexs(const char*s){for(;*s;s++)printf("%02x",(unsigned char)*s);}
struct verif_absent_ { int x; };
"""


def _c_item(it):
    n, r = it.name, it.rank
    if it.mode == "define":
        out = ["#ifdef %s" % n,
               '  printf("D\\t%s\\t"); hexs(XSTR_(%s)); printf("\\n");' % (n, n)]
        if not it.none:
            out += ['  printf("S\\t%s\\tdefine\\t%%s\\t%%zu\\t-\\n", TN(%s), sizeof(%s));' % (n, n, n),
                    '  printf("E\\t%s\\t-\\t"); PV(%s); printf("\\n");' % (n, n)]
        out += ["#else", '  printf("X\\t%s\\n");' % n, "#endif"]
        return out
    if r == 0:
        return ['  printf("S\\t%s\\tconst\\t%%s\\t%%zu\\t-\\n", TN(%s), sizeof(%s));' % (n, n, n),
                '  printf("E\\t%s\\t-\\t"); PV(%s); printf("\\n");' % (n, n)]
    el = n + "".join("[0]" for _ in range(r))
    dims = []
    for k in range(r):
        a = n + "[0]" * k
        dims.append("sizeof(%s)/sizeof(%s[0])" % (a, a))
    out = ["  { size_t d_[%d] = {%s};" % (r, ", ".join(dims)),
           '    printf("S\\t%s\\tconst\\t%%s\\t%%zu\\t", TN(%s), sizeof(%s));' % (n, el, el),
           "    for (int k_=0;k_<%d;k_++) printf(\"%%zu,\", d_[k_]); printf(\"\\n\");" % r]
    loops = "".join("for (size_t i%d=0;i%d<d_[%d];i%d++) " % (k, k, k, k) for k in range(r))
    idx = "".join("[i%d]" % k for k in range(r))
    fmt = ",".join("%zu" for _ in range(r))
    args = ",".join("i%d" % k for k in range(r))
    out.append('    %s{ printf("E\\t%s\\t%s\\t",%s); PV(%s%s); printf("\\n"); } }' % (loops, n, fmt, args, n, idx))
    return out


def read_c(d, text, items, absent=(), cxx=False):
    for it in items:
        if not IDENT.match(it.name):
            return ("fail", "compile", "symbol name %r is not an identifier" % it.name)
    _write(d, "config.h", text + "\n")
    body = [CPP_PRELUDE if cxx else C_PRELUDE]
    for a in absent:
        if IDENT.match(a):
            body.append("#ifdef %s\n#error verif-absent %s\n#endif\nextern struct verif_absent_ %s;" % (a, a, a))
    body.append("int main(void){")
    for it in items:
        body.extend(_c_item(it))
    body.append("  return 0; }")
    src = "main.cpp" if cxx else "main.c"
    _write(d, src, "\n".join(body) + "\n")
    cmd = (["g++", "-std=c++17"] if cxx else ["gcc", "-std=c11"]) + ["-O0", "-w", "-o", "prog", src]
    rc, out, err = _sh(cmd, d, COMPILE_TIMEOUT)
    if rc != 0:
        stage = "compile"
        if absent and ("verif-absent" in err or "verif_absent_" in err):
            stage = "absent"
        return ("fail", stage, _first_error(err))
    rc, out, err = _sh(["./prog"], d, RUN_TIMEOUT)
    if rc != 0:
        return ("fail", "run", "exit %s %s" % (rc, err[:200]))
    obs = _finish(_collect(out.decode("utf-8", "replace").splitlines(), "\t"))
    for name, o in obs.items():
        kind, signed = C_TYPES.get(o["ctype"], ("other", None))
        if o["ctype"] == "macro":
            kind = "empty" if o.get("macro", "") == "" else "other"
        if o["ctype"] == "char":
            signed = True
        o["kind"], o["signed"] = kind, signed
        o["width"] = o["size"] * 8 if o["size"] is not None and kind in ("int", "float", "bool") else None
    return ("ok", obs)


def read_cpp(d, text, items, absent=()):
    return read_c(d, text, items, absent, cxx=True)


# ------------------------------------------------------------------------------------------------ Fortran
def _f_helper():
    L = ["module verif_rd_", "  implicit none"]
    specs = []
    for k in (1, 2, 4, 8):
        specs.append(("l%d" % k, "logical(%d)" % k, "logical"))
    for k in (1, 2, 4, 8, 16):
        specs.append(("i%d" % k, "integer(%d)" % k, "integer"))
    for k in (4, 8, 10, 16):
        specs.append(("r%d" % k, "real(%d)" % k, "real"))
    specs.append(("c", "character(len=*)", "character"))
    L.append("  interface tname_")
    L.append("    module procedure " + ", ".join("tn_" + s[0] for s in specs))
    L.append("  end interface")
    L.append("  interface pval_")
    L.append("    module procedure " + ", ".join("pv_" + s[0] for s in specs))
    L.append("  end interface")
    L.append("contains")
    for tag, decl, fam in specs:
        L += ["  function tn_%s(x) result(s)" % tag, "    %s, intent(in) :: x" % decl, "    character(len=24) :: s",
              "    write(s,'(A,I0)') '%s:', storage_size(x)" % fam if fam != "character" else "    write(s,'(A,I0)') 'character:', len(x)",
              "  end function"]
        L += ["  subroutine pv_%s(x)" % tag, "    %s, intent(in) :: x" % decl]
        if fam == "logical":
            L += ["    if (x) then", "      write(*,'(A)',advance='no') 'b1'", "    else",
                  "      write(*,'(A)',advance='no') 'b0'", "    end if"]
        elif fam == "integer":
            L += ["    write(*,'(A,I0)',advance='no') 'i', x"]
        elif fam == "real":
            L += ["    integer :: e", "    e = 0", "    if (real(real(x,8),kind(x)) == x) e = 1",
                  "    write(*,'(A,ES26.17E3,A,I1)',advance='no') 'f', real(x,8), ':', e"]
        else:
            L += ["    integer :: i", "    write(*,'(A)',advance='no') 's'", "    do i = 1, len(x)",
                  "      write(*,'(Z2.2)',advance='no') ichar(x(i:i))", "    end do"]
        L += ["  end subroutine"]
    L.append("end module verif_rd_")
    return L


def read_fortran(d, text, items, absent=(), module="ConfigurationModule"):
    for it in items:
        if not IDENT.match(it.name):
            return ("fail", "compile", "symbol name %r is not an identifier" % it.name)
    _write(d, "config.f90", text + "\n")
    L = _f_helper()
    L += ["program verif_main_", "  use %s" % module, "  use verif_rd_", "  implicit none",
          "  integer :: i1_, i2_, i3_, i4_, k_", "  integer, allocatable :: sh_(:)"]
    for a in absent:
        if IDENT.match(a):
            L.append("  integer :: %s" % a)
    for it in items:
        n, r = it.name, it.rank
        if r == 0:
            L += ["  write(*,'(A)',advance='no') 'S|%s|const|'//trim(tname_(%s))//'|-|-'" % (n, n), "  write(*,*)",
                  "  write(*,'(A)',advance='no') 'E|%s|-|'" % n, "  call pval_(%s)" % n, "  write(*,*)"]
        else:
            first = n + "(" + ",".join("1" for _ in range(r)) + ")"
            L += ["  sh_ = shape(%s)" % n,
                  "  write(*,'(A)',advance='no') 'S|%s|const|'//trim(tname_(%s))//'|-|'" % (n, first),
                  "  do k_ = 1, size(sh_)", "    write(*,'(I0,A)',advance='no') sh_(k_), ','", "  end do", "  write(*,*)"]
            for k in range(r):
                L.append("  " + "  " * k + "do i%d_ = 1, size(%s,%d)" % (k + 1, n, k + 1))
            ind = "  " + "  " * r
            fmt = ",',',".join(["I0"] * r)
            L.append(ind + "write(*,\"(A,%s,A)\",advance='no') 'E|%s|', %s, '|'" %
                     (fmt, n, ", ".join("i%d_-1" % (k + 1) for k in range(r))))
            L.append(ind + "call pval_(%s(%s))" % (n, ",".join("i%d_" % (k + 1) for k in range(r))))
            L.append(ind + "write(*,*)")
            for k in reversed(range(r)):
                L.append("  " + "  " * k + "end do")
    L.append("end program verif_main_")
    _write(d, "main.f90", "\n".join(L) + "\n")
    rc, out, err = _sh(["gfortran", "-O0", "-w", "-ffree-line-length-none", "-o", "prog", "config.f90", "main.f90"],
                       d, COMPILE_TIMEOUT)
    if rc != 0:
        stage = "compile"
        if absent and re.search(r"conflicts with symbol from module|already has basic type|has already been host|use-associated", err, re.I) \
                and "main.f90" in err and "config.f90:" not in err:
            stage = "absent"
        return ("fail", stage, _first_error(err))
    rc, out, err = _sh(["./prog"], d, RUN_TIMEOUT)
    if rc != 0:
        return ("fail", "run", "exit %s %s" % (rc, err[:200]))
    lines = [ln.strip() for ln in out.decode("utf-8", "replace").splitlines() if ln.strip()]
    obs = _finish(_collect(lines, "|"))
    for name, o in obs.items():
        fam, bits = o["ctype"].split(":")
        o["kind"] = {"logical": "bool", "integer": "int", "real": "float", "character": "str"}.get(fam, "other")
        o["width"] = int(bits) if fam in ("integer", "real") else None
        o["signed"] = None                      # Fortran has no unsigned integers: not demanded
        if fam == "character":
            o["charlen"] = int(bits)
            # character(len=n) entities are blank padded: trailing blanks are not part of the value
            if isinstance(o["values"], list):
                o["values"] = [v.rstrip(" ") if isinstance(v, str) else v for v in o["values"]]
            elif isinstance(o["values"], str):
                o["values"] = o["values"].rstrip(" ")
    return ("ok", obs)


# ------------------------------------------------------------------------------------------------ Rust
RUST_PRELUDE = r"""#![allow(warnings)]
trait Pv { fn pv(&self) -> String; }
impl Pv for bool { fn pv(&self) -> String { format!("b{}", if *self {1} else {0}) } }
macro_rules! pvi { ($($t:ty),*) => { $( impl Pv for $t { fn pv(&self) -> String { format!("i{}", self) } } )* } }
pvi!(i8, i16, i32, i64, i128, isize, u8, u16, u32, u64, u128, usize);
impl Pv for f32 { fn pv(&self) -> String { format!("F32:{:08x}", self.to_bits()) } }
impl Pv for f64 { fn pv(&self) -> String { format!("F64:{:016x}", self.to_bits()) } }
impl Pv for &str { fn pv(&self) -> String { let mut s = String::from("s"); for b in self.bytes() { s.push_str(&format!("{:02x}", b)); } s } }
fn tn<T>(_: &T) -> &'static str { std::any::type_name::<T>() }
"""


def _rust_type(t):
    """'[[i32; 3]; 2]' -> ('i32', [2, 3])"""
    dims = []
    t = t.strip()
    while t.startswith("["):
        m = re.match(r"^\[(.*);\s*(\d+)\]$", t)
        if not m:
            break
        dims.append(int(m.group(2)))
        t = m.group(1).strip()
    return t, dims


def read_rust(d, text, items, absent=()):
    import struct
    for it in items:
        if not IDENT.match(it.name):
            return ("fail", "compile", "symbol name %r is not an identifier" % it.name)
    _write(d, "config.rs", text + "\n")
    L = [RUST_PRELUDE, "mod config {", '    include!("config.rs");']
    for a in absent:
        if IDENT.match(a):
            L.append("    const %s: () = ();  // verif-absent" % a)
    L += ["}", "fn main() {"]
    for it in items:
        n, r = it.name, it.rank
        L.append('    println!("S\\t%s\\t{}", tn(&config::%s));' % (n, n))
        if r == 0:
            L.append('    println!("E\\t%s\\t-\\t{}", config::%s.pv());' % (n, n))
        else:
            loops, acc = "", "config::" + n
            for k in range(r):
                loops += "for i%d in 0..%s.len() { " % (k, acc)
                acc += "[i%d]" % k
            fmt = ",".join("{}" for _ in range(r))
            args = ", ".join("i%d" % k for k in range(r))
            L.append('    %sprintln!("E\\t%s\\t%s\\t{}", %s, %s.pv()); %s' % (loops, n, fmt, args, acc, "}" * r))
    L.append("}")
    _write(d, "main.rs", "\n".join(L) + "\n")
    rc, out, err = _sh(["rustc", "--edition", "2021", "-C", "opt-level=0", "-C", "debuginfo=0", "-o", "prog", "main.rs"],
                       d, COMPILE_TIMEOUT)
    if rc != 0:
        stage = "compile"
        if absent and "E0428" in err:
            stage = "absent"
        return ("fail", stage, _first_error(err))
    rc, out, err = _sh(["./prog"], d, RUN_TIMEOUT)
    if rc != 0:
        return ("fail", "run", "exit %s %s" % (rc, err[:200]))
    obs = {}
    for ln in out.decode("utf-8", "replace").splitlines():
        p = ln.split("\t")
        if p[0] == "S":
            el, dims = _rust_type(p[2])
            kind, width, signed = "other", None, None
            m = re.match(r"^([iuf])(\d+)$", el)
            if el == "bool":
                kind = "bool"
            elif el == "&str":
                kind = "str"
            elif m:
                kind = "float" if m.group(1) == "f" else "int"
                width = int(m.group(2))
                signed = None if kind == "float" else m.group(1) == "i"
            obs[p[1]] = dict(mode="const", ctype=p[2], kind=kind, width=width, signed=signed, shape=dims or None,
                             values=[], exact=True, unit=None)
        elif p[0] == "E":
            t = p[3]
            if t.startswith("F32:"):
                v = struct.unpack(">f", bytes.fromhex(t[4:]))[0]
            elif t.startswith("F64:"):
                v = struct.unpack(">d", bytes.fromhex(t[4:]))[0]
            else:
                v = _tok(t)[1]
            obs[p[1]]["values"].append(v)
    for o in obs.values():
        if o["shape"] is None:
            o["values"] = o["values"][0] if o["values"] else None
    return ("ok", obs)


# ------------------------------------------------------------------------------------------------ Bash
BASH_READER = r"""
__b=$(compgen -v)
source "$1" 2>"$2"
__rc=$?
__a=$(compgen -v)
printf 'RC\0%s\0' "$__rc"
for __n in $(comm -13 <(sort <<<"$__b") <(sort <<<"$__a")); do
  case $__n in __*|BASH_*|PIPESTATUS|_|FUNCNAME|LINENO|OPTIND) continue;; esac
  __d=$(declare -p "$__n" 2>/dev/null)
  __f=${__d#declare }
  __f=${__f%% *}
  printf 'V\0%s\0%s\0' "$__n" "$__f"
  declare -n __r=$__n
  if [[ $__f == *a* || $__f == *A* ]]; then
    for __k in "${!__r[@]}"; do printf 'K\0%s\0%s\0' "$__k" "${__r[$__k]}"; done
  else
    printf 'K\0\0%s\0' "$__r"
  fi
  unset -n __r
done
printf 'END\0'
"""


def read_bash(d, text, items, absent=()):
    _write(d, "config.sh", text + "\n")
    _write(d, "reader.sh", BASH_READER)
    env = {"PATH": os.environ.get("PATH", "/usr/bin:/bin"), "TMPDIR": d, "LC_ALL": "C", "HOME": d}
    try:
        r = subprocess.run(["bash", "--noprofile", "--norc", "reader.sh", "config.sh", "stderr.txt"], cwd=d, env=env,
                           capture_output=True, timeout=RUN_TIMEOUT)
    except subprocess.TimeoutExpired:
        return ("fail", "load", "timeout")
    errtxt = r.stderr.decode("utf-8", "replace")
    try:
        errtxt += open(os.path.join(d, "stderr.txt")).read()
    except OSError:
        pass
    f = r.stdout.split(b"\0")
    if r.returncode != 0 or b"END" not in f or errtxt.strip():
        return ("fail", "load", " ".join(errtxt.split())[:240] or "exit %s" % r.returncode)
    f = [x.decode("utf-8", "replace") for x in f]
    obs, i, cur = {}, 0, None
    while i < len(f):
        if f[i] == "RC":
            if f[i + 1] != "0":
                return ("fail", "load", "source returned %s" % f[i + 1])
            i += 2
        elif f[i] == "V":
            flags = f[i + 2]
            struct_ = "assoc" if "A" in flags else "indexed" if "a" in flags else "scalar"
            cur = dict(mode="var", ctype="bash:" + flags, kind="text", width=None, signed=None, struct=struct_,
                       exported="x" in flags, items={}, unit=None, exact=True)
            obs[f[i + 1]] = cur
            i += 3
        elif f[i] == "K":
            cur["items"][f[i + 1]] = f[i + 2]
            i += 3
        else:
            i += 1
    return ("ok", obs)


# ------------------------------------------------------------------------------------------------ data formats
def _py_obs(v):
    """python object from json/yaml/toml -> obs (a {'value':..,'unit':..} table is a value with a unit)"""
    unit = None
    if isinstance(v, dict) and set(v) == {"value", "unit"}:
        unit, v = v["unit"], v["value"]

    def shape_of(x):
        if not isinstance(x, list):
            return []
        sub = [shape_of(e) for e in x]
        if sub and any(s != sub[0] for s in sub):
            return [len(x), "ragged"]
        return [len(x)] + (sub[0] if sub else [])

    def flat(x):
        if isinstance(x, list):
            out = []
            for e in x:
                out.extend(flat(e))
            return out
        return [x]

    sh = shape_of(v)
    vals = flat(v) if isinstance(v, list) else v
    probe = vals if isinstance(vals, list) else [vals]
    kinds = set()
    for e in probe:
        kinds.add("none" if e is None else "bool" if isinstance(e, bool) else "int" if isinstance(e, int)
                  else "float" if isinstance(e, float) else "str" if isinstance(e, str) else "other")
    kind = kinds.pop() if len(kinds) == 1 else ("other" if kinds else "empty")
    return dict(mode="data", ctype=kind, kind=kind, width=None, signed=None, shape=sh if isinstance(v, list) else None,
                values=vals, exact=True, unit=unit)


def read_json(d, text, items, absent=()):
    try:
        data = json.loads(text)
    except Exception as e:
        return ("fail", "load", "%s: %s" % (type(e).__name__, str(e)[:160]))
    if not isinstance(data, dict):
        return ("fail", "load", "top level is not an object")
    return ("ok", {k: _py_obs(v) for k, v in data.items()})


def read_yaml(d, text, items, absent=()):
    import yaml
    try:
        data = yaml.safe_load(text)
    except Exception as e:
        return ("fail", "load", "%s: %s" % (type(e).__name__, " ".join(str(e).split())[:160]))
    if data is None:
        data = {}
    if not isinstance(data, dict):
        return ("fail", "load", "top level is not a mapping")
    return ("ok", {str(k): _py_obs(v) for k, v in data.items()})


def read_toml(d, text, items, absent=()):
    import tomllib
    try:
        data = tomllib.loads(text)
    except Exception as e:
        return ("fail", "load", "%s: %s" % (type(e).__name__, str(e)[:160]))
    return ("ok", {k: _py_obs(v) for k, v in data.items()})


def read_dip(d, text, items, absent=()):
    from scinumtools.dip import DIP
    from scinumtools.dip.settings import Format
    from scinumtools.dip.datatypes import StringType, BooleanType, FloatType, IntegerType
    try:
        with DIP() as dip:
            dip.add_string(text)
            env = dip.parse()
        data = env.data(Format.NODE)
    except Exception as e:
        return ("fail", "load", "%s: %s" % (type(e).__name__, " ".join(str(e).split())[:160]))
    obs = {}
    for name, node in data.items():
        t = node.value                      # declared type from the node, value and unit from its value object
        o = _py_obs(t.value if t is not None else None)
        kw = getattr(node, "keyword", None)
        if kw == "bool":
            kind, width, signed = "bool", None, None
        elif kw == "int":
            kind, width, signed = "int", int(node.precision), not node.unsigned
        elif kw == "float":
            kind, width, signed = "float", int(node.precision), None
        elif kw == "str":
            kind, width, signed = "str", None, None
        else:
            kind, width, signed = "other", None, None
        o.update(vkind=o["kind"], kind=kind, width=width, signed=signed, unit=getattr(t, "unit", None),
                 ctype=type(t).__name__)
        obs[name] = o
    return ("ok", obs)


READERS = dict(c=read_c, cpp=read_cpp, fortran=read_fortran, rust=read_rust, bash=read_bash, json=read_json,
               yaml=read_yaml, toml=read_toml, dip=read_dip)
COMPILED = ("c", "cpp", "fortran", "rust")
