"""Generator AST, renderer and reference interpretation for the DIP subset used by C16 and C17.

A program is a list of *statements* (plain dicts, JSON-serialisable, so a failing case can be stored and replayed
verbatim).  `render()` turns statements into DIP text; `interpret()` computes, from the statements alone, what the
documentation / property statements say the result must be.  The reference never looks at DIP text and shares no
code, table or regular expression with the library: numbers are exact `Fraction`s, unit factors come from the small
hard-coded SI table below.

Statement kinds ("k"):
  group   ind name
  def     ind name type dims val unit        val None => declaration; dims None or [[lo,hi],..] (None = open)
  mod     ind name val unit
  opt     ind val unit                        one option line       "= 3 cm"
  opts    ind vals unit                       list form             "!options [2,3] cm"
  cond    ind expr                            "!condition ('...')"
  fmt     ind re                              "!format '...'"
  tags    ind tags
  const   ind
  import  ind name src query                  "{src?query}" or "name {src?query}"
  source  name prog                           "$source name = <file>"; prog = statements of the remote file
  unit    name val unit                       "$unit name = val unit"
Values: numeric leaves are decimal *strings* ("3.000003"), string leaves are {"s": text}, booleans are True/False,
arrays are nested lists of leaves, an injection is {"ref": {"src": None|name, "path": p, "slice": None|[[a,b],..]}}
(slice element [a,a] = index a, [a,b] = a:b with None for an open end).
Expressions: ["self"], ["node", path] ({?path}), ["num", text, unit], ["str", text], ["bool", b], ["cmp", op, l, r],
["and", a, b], ["or", a, b], ["not", x], ["par", x].
"""
import json
from fractions import Fraction as F

# --------------------------------------------------------------------------------------------- units (own table)
# symbol -> (factor to the coherent SI unit, dimension label); exact by definition of the prefixes / of the erg
UNITS = {
    "m": (F(1), "L"), "cm": (F(1, 100), "L"), "mm": (F(1, 1000), "L"), "km": (F(1000), "L"),
    "s": (F(1), "T"), "ms": (F(1, 1000), "T"), "us": (F(1, 10 ** 6), "T"), "ns": (F(1, 10 ** 9), "T"),
    "J": (F(1), "E"), "erg": (F(1, 10 ** 7), "E"), "kJ": (F(1000), "E"),
    "g": (F(1, 1000), "M"), "kg": (F(1), "M"),
}
EQ_RTOL = F(1, 10 ** 6)          # published Numeric.PRECISION ("EQUAL_PRECISION" of the documentation)
GREY_LO = F(1, 10 ** 8)          # relative offsets between GREY_LO and GREY_HI are never generated (guard)
GREY_HI = F(9, 10 ** 6)
NONE = {"none": True}            # the literal `none`


class RefError(Exception):
    """the generator produced something the reference cannot judge safely (a bug of the check, never a violation)"""


class Reject(Exception):
    """the reference says: parse() must raise"""


class Undemanded(Exception):
    """documentation / statement are silent: the case must not be judged"""


# --------------------------------------------------------------------------------------------- rendering
def _leaf_text(v, typ):
    if isinstance(v, dict) and "none" in v:
        return "none"
    if isinstance(v, dict) and "s" in v:
        return v["s"]
    if isinstance(v, bool):
        return "true" if v else "false"
    return str(v)


def _json_leafs(v, typ):
    if isinstance(v, list):
        return "[" + ",".join(_json_leafs(x, typ) for x in v) + "]"
    if isinstance(v, dict) and "s" in v:
        return json.dumps(v["s"])
    if isinstance(v, bool):
        return "true" if v else "false"
    return str(v)


def render_slice(sl):
    parts = []
    for a, b in sl:
        if a is not None and a == b:
            parts.append(str(a))
        else:
            parts.append(("" if a is None else str(a)) + ":" + ("" if b is None else str(b)))
    return "[" + ",".join(parts) + "]"


def render_ref(r):
    txt = "{" + (r["src"] or "") + "?" + r["path"] + "}"
    if r.get("slice"):
        txt += render_slice(r["slice"])
    return txt


def render_value(v, typ):
    if isinstance(v, dict) and "ref" in v:
        return render_ref(v["ref"])
    if isinstance(v, list):
        return _json_leafs(v, typ)
    if isinstance(v, dict) and "none" in v:
        return "none"
    if isinstance(v, dict) and "s" in v:
        s = v["s"]
        return s if (s and " " not in s and "#" not in s and v.get("bare")) else "'" + s + "'"
    return _leaf_text(v, typ)


def render_dims(dims):
    out = []
    for lo, hi in dims:
        if lo is not None and lo == hi:
            out.append(str(lo))
        else:
            out.append(("" if lo is None else str(lo)) + ":" + ("" if hi is None else str(hi)))
    return "[" + ",".join(out) + "]"


def render_expr(e):
    k = e[0]
    if k == "self":
        return "{?}"
    if k == "node":
        return "{?" + e[1] + "}"
    if k == "num":
        return e[1] + (" " + e[2] if e[2] else "")
    if k == "str":
        return "'" + e[1] + "'"
    if k == "bool":
        return "true" if e[1] else "false"
    if k == "cmp":
        return render_expr(e[2]) + " " + e[1] + " " + render_expr(e[3])
    if k == "and":
        return render_expr(e[1]) + " && " + render_expr(e[2])
    if k == "or":
        return render_expr(e[1]) + " || " + render_expr(e[2])
    if k == "not":
        return "~" + render_expr(e[1])
    if k == "par":
        return "(" + render_expr(e[1]) + ")"
    raise RefError("unknown expression %r" % (e,))


def render(prog, files=None):
    """DIP text of a program.  `files` maps source name -> path of the already written remote file."""
    lines = []
    for st in prog:
        k = st["k"]
        ind = " " * st.get("ind", 0)
        if k == "group":
            lines.append(ind + st["name"])
        elif k == "def":
            t = st.get("tname", st["type"]) + (render_dims(st["dims"]) if st.get("dims") else "")
            s = ind + st["name"] + " " + t
            if st["val"] is not None:
                s += " = " + render_value(st["val"], st["type"])
            if st.get("unit"):
                s += " " + st["unit"]
            lines.append(s)
        elif k == "mod":
            s = ind + st["name"] + " = " + render_value(st["val"], st.get("type"))
            if st.get("unit"):
                s += " " + st["unit"]
            lines.append(s)
        elif k == "opt":
            lines.append(ind + "= " + render_value(st["val"], None) + (" " + st["unit"] if st.get("unit") else ""))
        elif k == "opts":
            body = render_ref(st["ref"]) if st.get("ref") else _json_leafs(st["vals"], None)
            lines.append(ind + "!options " + body + (" " + st["unit"] if st.get("unit") else ""))
        elif k == "cond":
            q = '"' if "'" in render_expr(st["expr"]) else "'"
            lines.append(ind + "!condition (" + q + render_expr(st["expr"]) + q + ")")
        elif k == "fmt":
            lines.append(ind + "!format '" + st["re"] + "'")
        elif k == "tags":
            lines.append(ind + "!tags " + json.dumps(st["tags"], separators=(",", ":")))
        elif k == "const":
            lines.append(ind + "!constant")
        elif k == "import":
            r = "{" + (st.get("src") or "") + "?" + st["query"] + "}"
            lines.append(ind + (st["name"] + " " if st.get("name") else "") + r)
        elif k == "source":
            if files is None or st["name"] not in files:
                raise RefError("no file for source " + st["name"])
            lines.append(ind + "$source " + st["name"] + " = " + files[st["name"]])
        elif k == "unit":
            lines.append(ind + "$unit " + st["name"] + " = " + st["val"] + (" " + st["unit"] if st.get("unit") else ""))
        else:
            raise RefError("unknown statement %r" % (st,))
    return "\n".join(lines)


# --------------------------------------------------------------------------------------------- reference model
class RNode:
    __slots__ = ("type", "unit", "value", "dims", "options", "cond", "fmt", "tags", "const", "declared")

    def __init__(self, typ, unit=None, value=None, dims=None):
        self.type, self.unit, self.value, self.dims = typ, unit, value, dims
        self.options, self.cond, self.fmt, self.tags, self.const, self.declared = [], None, None, None, False, False

    def copy(self):
        n = RNode(self.type, self.unit, _cp(self.value), [list(d) for d in self.dims] if self.dims else None)
        n.options, n.cond, n.fmt = list(self.options), self.cond, self.fmt
        n.tags, n.const, n.declared = (list(self.tags) if self.tags else None), self.const, self.declared
        return n

    def dump(self):
        return (self.type, self.unit, _canon(self.value), _canon(self.dims), _canon(self.options),
                json.dumps(self.cond), self.fmt, _canon(self.tags), self.const)


def _cp(v):
    return [_cp(x) for x in v] if isinstance(v, list) else v


def _canon(v):
    if isinstance(v, (list, tuple)):
        return tuple(_canon(x) for x in v)
    return v


class REnv:
    def __init__(self):
        self.nodes = {}          # path -> RNode, insertion ordered
        self.units = {}          # "[name]" -> (factor, dimension label)
        self.sources = {}        # name -> REnv of the remote file
        self.parents = []        # (indent, name) stack
        self.last = None         # path of the node the next property lines belong to (None: none allowed)

    def copy(self):
        e = REnv()
        e.nodes = {k: v.copy() for k, v in self.nodes.items()}
        e.units = dict(self.units)
        e.sources = dict(self.sources)
        e.parents = list(self.parents)
        return e

    def dump(self):
        return (tuple((k, v.dump()) for k, v in self.nodes.items()), tuple(sorted(self.units.items())))


def unit_info(env, u):
    if u is None:
        return None
    if u in UNITS:
        return UNITS[u]
    if u in env.units:
        return env.units[u]
    if u.startswith("[") and u.endswith("]"):
        raise Undemanded("custom unit %s is not defined" % u)
    raise RefError("unit %r is not in the reference table" % u)


def convert(env, x, ufrom, uto):
    """x [ufrom] expressed in [uto]; Reject when the dimensions differ"""
    if ufrom is None or uto is None or ufrom == uto:
        return x
    ff, df = unit_info(env, ufrom)
    ft, dt = unit_info(env, uto)
    if df != dt:
        raise Reject("conversion %s -> %s" % (ufrom, uto))
    r = ff / ft
    return _map(x, lambda v: v * r)


def _map(x, fn):
    if isinstance(x, list):
        return [_map(v, fn) for v in x]
    return None if x is None else fn(x)


def leaf(v, typ):
    """generator leaf -> reference value"""
    if isinstance(v, list):
        return [leaf(x, typ) for x in v]
    if isinstance(v, dict) and "none" in v:
        return None
    if typ in ("int", "float"):
        if not isinstance(v, str):
            raise RefError("numeric leaf must be decimal text: %r" % (v,))
        x = F(v)
        if typ == "int" and x.denominator != 1:
            raise RefError("non-integral literal for int node")
        return x
    if typ == "str":
        if not (isinstance(v, dict) and "s" in v):
            raise RefError("string leaf must be {'s':..}: %r" % (v,))
        return v["s"]
    if typ == "bool":
        if not isinstance(v, bool):
            raise RefError("bool leaf must be bool: %r" % (v,))
        return v
    raise RefError("type %r" % typ)


def shape(v):
    s = []
    while isinstance(v, list):
        s.append(len(v))
        if not v:
            break
        v = v[0]
    return s


def check_dims(node, v):
    """dimension bounds are enforced at every assignment"""
    if node.dims is None:
        if isinstance(v, list):
            raise Undemanded("array assigned to scalar node")
        return
    sh = shape(v)
    if len(sh) > len(node.dims):
        raise Undemanded("value has more axes than declared")
    if len(sh) < len(node.dims):
        # a declared dimension the value does not have cannot lie within finite bounds
        if any(lo is not None or hi is not None for lo, hi in node.dims[len(sh):]):
            raise Reject("declared dimension missing in the value")
        raise Undemanded("missing dimension is declared without bounds")
    for n, (lo, hi) in zip(sh, node.dims):
        if lo is not None and n < lo:
            raise Reject("dimension below lower bound")
        if hi is not None and n > hi:
            raise Reject("dimension above upper bound")


def apply_slice(v, sl):
    """Python / numpy basic indexing on nested lists and strings"""
    if not sl:
        return v
    (a, b), rest = sl[0], sl[1:]
    if a is not None and a == b:
        if not isinstance(v, (list, str)) or a >= len(v):
            raise Undemanded("index out of range")
        return apply_slice(v[a], rest)
    if not isinstance(v, (list, str)):
        raise Undemanded("slice of a scalar")
    part = v[slice(a, b)]
    if isinstance(part, str):
        if rest:
            raise Undemanded("second slice on a string")
        return part
    return [apply_slice(x, rest) for x in part]


def close(a, b):
    """a == b up to the published relative precision; guard against the grey zone"""
    if a == b:
        return True
    d = abs(a - b) / abs(b) if b != 0 else None
    if d is None:
        raise RefError("comparison with zero is not generated")
    if GREY_LO < d < GREY_HI:
        raise RefError("relative offset %s in the grey zone" % float(d))
    return d <= EQ_RTOL          # purely relative (the library passes atol=0 since the round-2 observation)


def eval_expr(env, e, selfnode):
    """-> ('b', bool) | ('n', Fraction, unit) | ('s', str)"""
    k = e[0]
    if k == "self":
        n = selfnode
        if n.value is None or isinstance(n.value, list):
            raise Undemanded("condition on empty / array value")
        if n.type in ("int", "float"):
            return ("n", n.value, n.unit)
        return ("b", n.value) if n.type == "bool" else ("s", n.value)
    if k == "node":
        # {?path}: the CURRENT value of another node of the environment (at validation time: its final value)
        n = env.nodes.get(e[1])
        if n is None:
            raise Undemanded("condition refers to a node that does not exist")
        if n.value is None or isinstance(n.value, list):
            raise Undemanded("condition refers to an empty / array value")
        if n.type in ("int", "float"):
            return ("n", n.value, n.unit)
        return ("b", n.value) if n.type == "bool" else ("s", n.value)
    if k == "num":
        return ("n", F(e[1]), e[2])
    if k == "str":
        return ("s", e[1])
    if k == "bool":
        return ("b", e[1])
    if k == "par":
        return eval_expr(env, e[1], selfnode)
    if k == "not":
        x = eval_expr(env, e[1], selfnode)
        if x[0] != "b":
            raise Undemanded("negation of a non-boolean")
        return ("b", not x[1])
    if k in ("and", "or"):
        a, b = eval_expr(env, e[1], selfnode), eval_expr(env, e[2], selfnode)
        if a[0] != "b" or b[0] != "b":
            raise Undemanded("logical operator on non-boolean")
        return ("b", (a[1] and b[1]) if k == "and" else (a[1] or b[1]))
    if k == "cmp":
        op = e[1]
        a, b = eval_expr(env, e[2], selfnode), eval_expr(env, e[3], selfnode)
        if a[0] != b[0]:
            raise Undemanded("comparison of different kinds")
        if a[0] in ("s", "b"):
            if op == "==":
                return ("b", a[1] == b[1])
            if op == "!=":
                return ("b", a[1] != b[1])
            raise Undemanded("ordering of strings/booleans")
        ua, ub = a[2], b[2]
        x, y = a[1], b[1]
        if ua is not None and ub is not None:
            fa, da = unit_info(env, ua)
            fb, db = unit_info(env, ub)
            if da != db:
                raise Undemanded("comparison across dimensions")
            x, y = x * fa, y * fb
        elif (ua is None) != (ub is None):
            raise Undemanded("comparison of a dimensional with a plain number")
        eq = close(x, y)
        if op == "==":
            return ("b", eq)
        if op == "!=":
            if eq and x != y:
                raise Undemanded("'!=' inside the tolerance (documentation and code differ; C18)")
            return ("b", not eq)
        if op == "<=":
            return ("b", eq or x < y)
        if op == ">=":
            return ("b", eq or x > y)
        if op == "<":
            return ("b", x < y)
        if op == ">":
            return ("b", x > y)
    raise RefError("expression %r" % (e,))


def satisfied(env, node):
    """all constraints of one node on its current value -> list of violated kinds"""
    import re
    bad = []
    if node.value is None:
        if node.declared:
            bad.append("declaration")
        elif node.options:
            bad.append("options")        # none is not one of the listed options
        elif node.cond is not None or node.fmt is not None:
            raise Undemanded("condition / format of an empty (none) value")
        return bad
    if node.options:
        if isinstance(node.value, list):
            raise Undemanded("options on array")
        hit = False
        for ov, ou in node.options:
            if node.type == "str":
                hit = hit or ov == node.value
            else:
                o = convert(env, ov, ou, node.unit) if (ou and node.unit) else ov
                if ou and not node.unit:
                    raise Undemanded("option with unit on plain node")
                hit = hit or close(node.value, o)
        if not hit:
            bad.append("options")
    if node.cond is not None:
        r = eval_expr(env, node.cond, node)
        if r[0] != "b":
            raise Undemanded("condition is not boolean")
        if not r[1]:
            bad.append("condition")
    if node.fmt is not None:
        if node.type != "str" or isinstance(node.value, list):
            raise Undemanded("format on non-string")
        if not (node.fmt.startswith("^") and node.fmt.endswith("$")):
            raise Undemanded("unanchored format")
        if not re.match(node.fmt, node.value):
            bad.append("format")
    return bad


def _path(env, st, register=True):
    ind, name = st.get("ind", 0), st["name"]
    while env.parents and ind <= env.parents[-1][0]:
        env.parents.pop()
    p = ".".join([x[1] for x in env.parents] + [name])
    if register:
        env.parents.append((ind, name))
    return p


def _request(env, src, query):
    """-> list of (relative name, RNode) selected by a request, in source order"""
    if src:
        if src not in env.sources:
            raise Reject("unknown source")
        nodes = env.sources[src].nodes
    else:
        nodes = env.nodes
        if not nodes:
            raise Reject("no local nodes")
    if query == "*":
        return [(k, n) for k, n in nodes.items()]
    if query.endswith(".*"):
        pre = query[:-1]
        return [(k[len(pre):], n) for k, n in nodes.items() if k.startswith(pre)]
    return [(k.split(".")[-1], n) for k, n in nodes.items() if k == query]


def _resolve(env, val, typ, host_unit):
    """value of a def/mod statement -> (reference value, unit the number is expressed in)"""
    if isinstance(val, dict) and "ref" in val:
        r = val["ref"]
        sel = _request(env, r["src"], r["path"])
        if len(sel) != 1:
            raise Reject("injection selects %d nodes" % len(sel))
        src = sel[0][1]
        if src.type != typ:
            raise Undemanded("injection across data types")
        if src.value is None:
            if src.declared or r.get("slice") or src.dims:
                raise Undemanded("injection from a declared-only node / slice or array of an empty value")
            return None, (host_unit if host_unit else src.unit)      # the current value is `none`
        v = apply_slice(_cp(src.value), r.get("slice"))
        return v, (host_unit if host_unit else src.unit)
    return leaf(val, typ), host_unit


def _is_ref(val):
    return isinstance(val, dict) and "ref" in val


def step(env, st):
    """apply one statement to the reference environment (mutates env)"""
    k = st["k"]
    if k == "group":
        _path(env, st)
        env.last = None
    elif k == "def":
        p = _path(env, st)
        if st["type"] in ("str", "bool") and st.get("unit"):
            raise Reject("unit on str/bool")
        if st.get("unit"):
            unit_info(env, st["unit"])
        if p in env.nodes:
            # typed modification of an existing node
            node = env.nodes[p]
            if node.type != st["type"]:
                raise Reject("data type changed")
            if st["val"] is None:
                raise Undemanded("re-declaration")
            if _is_ref(st["val"]) and st["val"]["ref"].get("slice"):
                # observed: the slice is ignored there (the whole array is assigned); exotic combination of two
                # documented features, recorded as an observation and not judged
                raise Undemanded("typed re-definition by a sliced injection")
            _assign(env, node, st["val"], st.get("unit"))
            env.last = None          # property lines after a re-definition: not demanded
            return
        node = RNode(st["type"], None, None, st.get("dims"))
        if st["val"] is None:
            node.declared = True
            node.unit = st.get("unit")
        else:
            v, u = _resolve(env, st["val"], st["type"], st.get("unit"))
            if v is None:
                if node.dims or u is not None and not _is_ref(st["val"]):
                    raise Undemanded("none for an array node / none written together with a unit")
            else:
                check_dims(node, v)
            node.value, node.unit = v, u
        env.nodes[p] = node
        env.last = p
    elif k == "mod":
        p = _path(env, st)
        if p not in env.nodes:
            raise Reject("modification of an undefined node")
        _assign(env, env.nodes[p], st["val"], st.get("unit"))
        env.last = None
    elif k in ("opt", "opts", "cond", "fmt", "tags", "const"):
        if env.last is None:
            raise Undemanded("property line not directly after a definition")
        node = env.nodes[env.last]
        if k == "opt":
            if node.type == "bool":
                raise Reject("options on bool")
            if _is_ref(st["val"]):
                v, u = _resolve(env, st["val"], node.type, st.get("unit"))
                if v is None or isinstance(v, list):
                    raise Undemanded("option line referring to an empty / array value")
                node.options.append((v, u))
            else:
                node.options.append((leaf(st["val"], node.type), st.get("unit")))
        elif k == "opts":
            if node.type == "bool":
                raise Reject("options on bool")
            if st.get("ref"):
                # the list is the referenced node's current value, in the unit the line states or else in that node's
                v, u = _resolve(env, {"ref": st["ref"]}, node.type, st.get("unit"))
                if not isinstance(v, list) or any(isinstance(x, list) or x is None for x in v):
                    raise Undemanded("option list referring to a scalar / nested / empty value")
                for x in v:
                    node.options.append((x, u))
            else:
                for v in st["vals"]:
                    node.options.append((leaf(v, node.type), st.get("unit")))
        elif k == "cond":
            node.cond = st["expr"]
        elif k == "fmt":
            if node.type != "str":
                raise Reject("format on non-string")
            node.fmt = st["re"]
        elif k == "tags":
            node.tags = (node.tags or []) + list(st["tags"])
        elif k == "const":
            node.const = True
    elif k == "import":
        sel = _request(env, st.get("src"), st["query"])
        ind = st.get("ind", 0)
        while env.parents and ind <= env.parents[-1][0]:
            env.parents.pop()
        prefix = [x[1] for x in env.parents] + ([st["name"]] if st.get("name") else [])
        if not sel:
            raise _EmptyImport()
        new = []
        for rel, n in sel:
            p = ".".join(prefix + [rel])
            if p in env.nodes or any(p == q for q, _ in new):
                raise Undemanded("imported name collides with an existing node")
            if n.value is None:
                raise Undemanded("import of an empty node")
            new.append((p, n.copy()))
        for p, n in new:
            env.nodes[p] = n
        # property lines directly below an import that re-creates exactly ONE node extend that imported copy
        env.last = new[0][0] if len(new) == 1 else None
    elif k == "source":
        sub = REnv()
        if st["name"] in env.sources:
            raise Reject("source exists")
        for s2 in st["prog"]:
            step(sub, s2)
        finish(sub)
        env.sources[st["name"]] = sub
        env.last = None
    elif k == "unit":
        key = "[" + st["name"] + "]"
        if key in env.units:
            raise Reject("unit exists")
        f, d = unit_info(env, st["unit"])
        env.units[key] = (F(st["val"]) * f, d)
        env.last = None
    else:
        raise RefError("statement %r" % (st,))


class _EmptyImport(Exception):
    pass


def _assign(env, node, val, unit):
    if node.const:
        raise Reject("constant node")
    v, u = _resolve(env, val, node.type, unit)
    if v is None:
        # `none` empties the node; it is fully defined and keeps the unit of its definition
        if node.dims or (u is not None and not _is_ref(val)):
            raise Undemanded("none for an array node / none written together with a unit")
        if u is not None and node.type in ("str", "bool"):
            raise Reject("unit on str/bool")
        if u is not None and node.unit is None:
            raise Undemanded("unit given for a node defined without unit")
        if u is not None and node.unit is not None and unit_info(env, u)[1] != unit_info(env, node.unit)[1]:
            raise Undemanded("empty value carried in a unit of another dimension")
        node.value, node.declared = None, False
        return
    if u is not None and node.type in ("str", "bool"):
        raise Reject("unit on str/bool")
    if u is not None and node.unit is None:
        raise Undemanded("unit given for a node defined without unit")
    if u is not None:
        unit_info(env, u)
        v = convert(env, v, u, node.unit)
        if node.type == "int" and any(x.denominator != 1 for x in _flat(v)):
            raise Undemanded("int node assigned a non-integral converted value")
    check_dims(node, v)
    node.value, node.declared = v, False


def _flat(v):
    if isinstance(v, list):
        for x in v:
            yield from _flat(x)
    else:
        yield v


def finish(env):
    """final validation: Reject when some node violates a constraint"""
    for p, n in env.nodes.items():
        bad = satisfied(env, n)
        if bad:
            raise Reject("node %s violates %s" % (p, "+".join(bad)))


def interpret(prog, base=None):
    """-> ('ok', REnv) | ('reject', why) | ('undemanded', why) | ('ok-or-reject', REnv without the empty import)

    `base`: reference environment of a previously parsed program (chaining); it is copied, never changed.
    """
    env = base.copy() if base is not None else REnv()
    env.last = None
    empty = False
    try:
        for st in prog:
            try:
                step(env, st)
            except _EmptyImport:
                empty = True          # "rejected or adds nothing": continue without the statement
        finish(env)
    except Reject as e:
        return ("reject", str(e))
    except Undemanded as e:
        return ("undemanded", str(e))
    return ("ok-or-reject" if empty else "ok", env)


# --------------------------------------------------------------------------------------------- observation helpers
def observe_env(env):
    """canonical dump of a real Environment: nodes (all constraint fields) and custom units"""
    nodes = []
    for n in env.nodes.nodes:
        val = getattr(n, "value", None)
        v = getattr(val, "value", val)
        u = getattr(val, "unit", None)
        opts = tuple((repr(getattr(o.value, "value", o.value)), getattr(o.value, "unit", None))
                     for o in (getattr(n, "options", None) or []))
        dims = tuple(tuple(d) for d in n.dimension) if n.dimension else None
        tags = tuple(n.tags) if getattr(n, "tags", None) else None
        nodes.append((n.name, n.keyword, _plain(v), u, n.units_raw, dims, opts, getattr(n, "condition", None),
                      getattr(n, "format", None), tags, bool(getattr(n, "constant", False)), bool(n.defined)))
    units = tuple(sorted((k, repr(v.get("magnitude")), repr(v.get("dimensions")), repr(v.get("value")),
                          repr(v.get("units"))) for k, v in env.units.units.items()))
    return (tuple(nodes), units, getattr(env, "envtype", None))


def _plain(v):
    try:
        import numpy as np
        if isinstance(v, np.ndarray):
            v = v.tolist()
        elif isinstance(v, np.generic):
            v = v.item()
    except Exception:
        pass
    if isinstance(v, (list, tuple)):
        return tuple(_plain(x) for x in v)
    if isinstance(v, float):
        return repr(v)
    if isinstance(v, (int, str, bool)) or v is None:
        return v
    return repr(v)


def value_matches(obs, ref, typ, rel=1e-9):
    """observed python value (number / str / bool / nested list) against the reference value"""
    try:
        import numpy as np
        if isinstance(obs, np.ndarray):
            obs = obs.tolist()
        elif isinstance(obs, np.generic):
            obs = obs.item()
    except Exception:
        pass
    if ref is None or obs is None:
        return ref is None and obs is None
    if isinstance(ref, list):
        if not isinstance(obs, (list, tuple)) or len(obs) != len(ref):
            return False
        return all(value_matches(o, r, typ, rel) for o, r in zip(obs, ref))
    if isinstance(obs, (list, tuple)):
        return False
    if typ == "bool":
        return isinstance(obs, bool) and obs == ref
    if typ == "str":
        return isinstance(obs, str) and obs == ref
    if isinstance(obs, bool) or not isinstance(obs, (int, float)):
        return False
    r = float(ref)
    return abs(float(obs) - r) <= rel * abs(r)


def compare_env(obs_env, renv, check_props=True):
    """Compare a real Environment with the reference environment.  -> None or a short difference text"""
    from scinumtools.dip.settings import Format
    try:
        data = obs_env.data(Format.TUPLE)
    except Exception as e:
        return "env.data() raises %s: %s" % (type(e).__name__, str(e)[:120])
    names = list(data.keys())
    if sorted(names) != sorted(renv.nodes.keys()) or len(names) != len(obs_env.nodes.nodes):
        # the order of the parameters is not part of the statements, the set of names is
        return "node names %r, expected %r" % (names, list(renv.nodes.keys()))
    real = {n.name: n for n in obs_env.nodes.nodes}
    for p, rn in renv.nodes.items():
        d = data[p]
        if isinstance(d, tuple) and len(d) == 2 and isinstance(d[1], str) and rn.type in ("int", "float"):
            v, u = d
        else:
            v, u = d, None
        if u != rn.unit:
            return "%s: unit %r, expected %r" % (p, u, rn.unit)
        if not value_matches(v, rn.value, rn.type):
            return "%s: value %r, expected %s" % (p, v, show(rn.value))
        n = real[p]
        if n.keyword != rn.type:
            return "%s: type %r, expected %r" % (p, n.keyword, rn.type)
        if check_props:
            nopt = len(getattr(n, "options", None) or [])
            if nopt != len(rn.options):
                return "%s: %d options, expected %d" % (p, nopt, len(rn.options))
            for o, (ov, ou) in zip(getattr(n, "options", None) or [], rn.options):
                got = getattr(o.value, "value", o.value)
                gu = getattr(o.value, "unit", None)
                if rn.type == "str":
                    if got != ov:
                        return "%s: option %r, expected %r" % (p, got, ov)
                    continue
                want = convert(renv, ov, ou, rn.unit) if (ou and rn.unit) else ov
                try:
                    g = float(got)
                    if gu and rn.unit and gu != rn.unit:
                        g = g * float(unit_info(renv, gu)[0] / unit_info(renv, rn.unit)[0])
                except Exception as e:
                    return "%s: option %r %r unreadable (%s)" % (p, got, gu, type(e).__name__)
                if not value_matches(g, want, "float", 1e-9):
                    return "%s: option %r %r, expected %s" % (p, got, gu, show(want))
            if (getattr(n, "condition", None) is None) != (rn.cond is None):
                return "%s: condition %r, expected %r" % (p, getattr(n, "condition", None), rn.cond)
            if rn.cond is not None and n.condition != render_expr(rn.cond):
                return "%s: condition %r, expected %r" % (p, n.condition, render_expr(rn.cond))
            if getattr(n, "format", None) != rn.fmt:
                return "%s: format %r, expected %r" % (p, getattr(n, "format", None), rn.fmt)
            if (list(n.tags) if getattr(n, "tags", None) else None) != rn.tags:
                return "%s: tags %r, expected %r" % (p, getattr(n, "tags", None), rn.tags)
            if bool(getattr(n, "constant", False)) != rn.const:
                return "%s: constant flag %r" % (p, getattr(n, "constant", False))
    return None


def dec(x):
    """exact decimal text of a Fraction with a terminating expansion"""
    x = F(x)
    if x.denominator == 1:
        return str(x.numerator)
    d, k = x.denominator, 0
    while d % 10 == 0:
        d //= 10
    n = x
    while n.denominator != 1:
        n *= 10
        k += 1
        if k > 40:
            raise RefError("no terminating decimal for %r" % (x,))
    digits = str(abs(n.numerator)).rjust(k + 1, "0")
    return ("-" if x < 0 else "") + digits[:-k] + "." + digits[-k:]


def show(v):
    if isinstance(v, list):
        return "[" + ", ".join(show(x) for x in v) + "]"
    if isinstance(v, F):
        return repr(float(v)) if v.denominator != 1 else str(v.numerator)
    return repr(v)


# --------------------------------------------------------------------------------------------- execution on the library
def _write_sources(prog, scratch, files, written, prefix=""):
    import os
    for st in prog:
        if st["k"] == "source":
            sub = {}
            _write_sources(st["prog"], scratch, sub, written, prefix + st["name"] + "_")
            path = os.path.join(scratch, prefix + st["name"] + ".dip")
            with open(path, "w") as f:
                f.write(render(st["prog"], sub) + "\n")
            written.append(path)
            files[st["name"]] = path


_PRIMED = False


def _prime_inspect_cache():
    """Speed only, no effect on results: DIP() and add_string() call inspect.stack(); frames whose file cannot be
    mapped to a module ('<frozen runpy>' below `python -m mc.main`) make inspect.getmodule rescan sys.modules on every
    call.  Entering those files once into inspect's own file->module cache turns that into a dictionary hit.  The
    library reads only caller.filename / caller.lineno, which do not depend on the cache."""
    global _PRIMED
    import sys
    import inspect
    _PRIMED = True
    f = sys._getframe()
    while f is not None:
        fn = f.f_code.co_filename
        if fn not in inspect.modulesbyfile:
            inspect.getmodule(f, fn)
            name = f.f_globals.get("__name__")
            if fn not in inspect.modulesbyfile and name in sys.modules:
                inspect.modulesbyfile[fn] = name
        f = f.f_back


def execute(prog, scratch, base_env=None, api_sources=False, name="verif", docs=False):
    """Render `prog` (remote sources are written below `scratch` and removed again), parse it with the real library.

    -> (outcome, text) with outcome = ('ok', Environment) | ('err', TypeName, message).  The process-wide unit tables
    are restored afterwards.  api_sources: leading `source` statements are passed through DIP.add_source().
    """
    import os
    from ..common import outcome
    from .. import isolation
    from scinumtools.dip import DIP
    files, written = {}, []
    os.makedirs(scratch, exist_ok=True)
    try:
        _write_sources(prog, scratch, files, written)
        api = []
        body = prog
        if api_sources:
            while body and body[0]["k"] == "source":
                api.append(body[0])
                body = body[1:]
        text = render(body, files)

        def run():
            if not _PRIMED:
                _prime_inspect_cache()
            # an explicit name: the default name is id(self), which may be re-used by a later object and would
            # then collide with the source entries an earlier DIP object left in a chained environment
            with (DIP(base_env, name=name) if base_env is not None else DIP(name=name)) as p:
                for st in api:
                    p.add_source(st["name"], files[st["name"]])
                p.add_string(text)
                return p.parse_docs() if docs else p.parse()
        out = outcome(run)
        if api:
            text = "".join("add_source(%r)\n" % st["name"] for st in api) + text
        return out, text.replace(scratch, "<scratch>")      # the recorded text does not depend on the process id
    finally:
        for path in written:
            try:
                os.remove(path)
            except OSError:
                pass
        isolation.tables_restore()
