#!/bin/bash
# usage: tools/run_all.sh [tier] [seed]  -> runs every accepted check, prints one line per check, appends to runs.log
tier=${1:-quick}; seed=${2:-0}
cd /verif
for p in $(sort tools/accepted.txt); do
  s=$(date +%s)
  out=$(VERIF_SEED=$seed ./run $p --tier $tier 2>&1 | grep -v conda)
  code=$?
  e=$(date +%s)
  line=$(echo "$out" | grep "^$p tier=" | tail -1)
  kf=$(echo "$out" | grep -c '^KNOWN-FINDING')
  v=$(echo "$out" | grep -c '^VIOLATION')
  h=$(echo "$out" | grep -c 'HARNESS')
  echo "$p tier=$tier seed=$seed wall=$((e-s))s known=$kf violations=$v harness=$h :: $line" | tee -a /verif/runs.log
done
