"""C01 - the expression solver evaluates by the documented step table.

E2 bounded grammar enumeration: every AST of the stratified grammar of the default operator table within the
layer bounds is rendered (several blank variants), solved by the real ExpressionSolver(AtomBase) and compared
bit-for-bit with a bottom-up evaluation of the AST in the documented order.  Ill-formed single-edit variants of the
well-formed strings must be rejected.
"""
import math
import warnings

from ..common import Shard, failure, outcome, HarnessError

PROPERTY = "C01"
LEVEL = "exploration"
RULE = ("all ASTs of the stratified grammar (or<and<not<cmp<add<mul<pow<sign<primary) with at most N operator/function/"
        "parenthesis/sign nodes per layer alphabet, each rendered in the listed blank variants; plus every single-edit "
        "ill-formed variant (paren deleted/inserted, argument deleted/added, operand deleted). distinct = distinct "
        "strings (set-deduplicated per shard, shards disjoint by enumeration index); non-trivial = string with >= 2 "
        "operator nodes or an operator nested in a function/parenthesis")
ASSUMPTIONS = [
    "oracle primitives mirror AtomBase (Python float arithmetic, numpy functions, Python comparisons, and/or/not)",
    "values are compared as IEEE doubles bit-for-bit (bool/int/float compared numerically, NaN==NaN); an exception in "
    "the oracle (ZeroDivisionError, OverflowError, complex ordering) must be matched by an exception in the solver",
    "not demanded: stacked negation '!!x', empty '()', signed exponent literals, blanks inside a symbol",
]

NUMS_FULL = ["0", "1", "2", "3", "0.5", "2.5", "10"]
F1_FULL = ["exp", "log", "log10", "sqrt", "sin", "cos", "tan"]
F2_FULL = ["pow", "logb"]
CMP_FULL = ["==", "!=", "<=", ">=", "<", ">"]
SIGNS_FULL = ["-", "+", "--", "-+", "+-", "---"]

# level numbers
OR, AND, NOT, CMP, ADD, MUL, POW, SGN, PRIM = range(9)


class Alphabet:
    def __init__(self, nums, f1, f2, signs, cmps=CMP_FULL, adds=("+", "-"), muls=("*", "/"), pows=("**",),
                 ands=("&&",), ors=("||",), nots=True, par=True):
        self.nums, self.f1, self.f2, self.signs = nums, f1, f2, signs
        self.bin = {CMP: list(cmps), ADD: list(adds), MUL: list(muls), POW: list(pows), AND: list(ands), OR: list(ors)}
        self.nots, self.par = nots, par
        self._memo = {}

    def gen(self, level, n):
        """list of all ASTs whose top production is at `level` or tighter, with exactly n nodes"""
        key = (level, n)
        if key in self._memo:
            return self._memo[key]
        out = list(self.iter(level, n))
        self._memo[key] = out
        return out

    def iter(self, level, n):
        if level == PRIM:
            if n == 0:
                for t in self.nums:
                    yield ("num", t)
            else:
                if self.par:
                    for e in self.gen(OR, n - 1):
                        yield ("par", e)
                for f in self.f1:
                    for e in self.gen(OR, n - 1):
                        yield ("f1", f, e)
                for f in self.f2:
                    for a in range(n):
                        for e1 in self.gen(OR, a):
                            for e2 in self.gen(OR, n - 1 - a):
                                yield ("f2", f, e1, e2)
            return
        if level == SGN:
            yield from self.gen(PRIM, n)
            if n >= 1:
                for s in self.signs:
                    for e in self.gen(PRIM, n - 1):
                        yield ("sgn", s, e)
            return
        if level == NOT:
            yield from self.gen(CMP, n)
            if n >= 1 and self.nots:
                for e in self.gen(CMP, n - 1):
                    yield ("not", e)
            return
        # binary, left-associative levels
        yield from self.gen(level + 1, n)
        if n >= 1:
            for op in self.bin[level]:
                for a in range(n):
                    for l in self.gen(level, a):
                        for r in self.gen(level + 1, n - 1 - a):
                            yield ("bin", op, l, r)


# ---------------------------------------------------------------- rendering
VARIANTS = ["tight", "both", "left", "right", "inner", "ends", "signblank"]


def render(t, v="tight"):
    k = t[0]
    if k == "num":
        return t[1]
    if k == "par":
        s = render(t[1], v)
        return "( " + s + " )" if v == "inner" else "(" + s + ")"
    if k == "f1":
        s = render(t[2], v)
        return t[1] + ("( " + s + " )" if v == "inner" else "(" + s + ")")
    if k == "f2":
        a, b = render(t[2], v), render(t[3], v)
        return t[1] + ("( " + a + ", " + b + " )" if v == "inner" else "(" + a + "," + b + ")")
    if k == "sgn":
        s = render(t[2], v)
        return (" ".join(t[1]) + " " + s) if v == "signblank" else t[1] + s
    if k == "not":
        return "!" + render(t[1], v)
    op = t[1]
    l, r = render(t[2], v), render(t[3], v)
    if v == "both":
        return l + " " + op + " " + r
    if v == "left":
        return l + " " + op + r
    if v == "right":
        return l + op + " " + r
    return l + op + r


def render_top(t, v):
    s = render(t, v)
    return "  " + s + " " if v == "ends" else s


# ---------------------------------------------------------------- oracle
_np = None


def _prims():
    global _np
    import numpy as np
    _np = np
    np.seterr(all="ignore")
    warnings.simplefilter("ignore")


def ev(t):
    """bottom-up evaluation in the documented order (the grammar already encodes precedence and left-assoc.)"""
    np = _np
    k = t[0]
    if k == "num":
        return float(t[1])
    if k == "par":
        return ev(t[1])
    if k == "f1":
        x = ev(t[2])
        f = t[1]
        if f == "exp":
            return np.e ** x
        return getattr(np, f)(x)
    if k == "f2":
        a, b = ev(t[2]), ev(t[3])
        if t[1] == "pow":
            return a ** b
        return np.log(a) / np.log(b)
    if k == "sgn":
        x = ev(t[2])
        return -x if t[1].count("-") % 2 else x
    if k == "not":
        return not bool(ev(t[1]))
    op = t[1]
    a, b = ev(t[2]), ev(t[3])
    if op == "+":
        return a + b
    if op == "-":
        return a - b
    if op == "*":
        return a * b
    if op == "/":
        return a / b
    if op == "**":
        return a ** b
    if op == "==":
        return a == b
    if op == "!=":
        return a != b
    if op == "<=":
        return a <= b
    if op == ">=":
        return a >= b
    if op == "<":
        return a < b
    if op == ">":
        return a > b
    if op == "&&":
        return a and b
    if op == "||":
        return a or b
    raise HarnessError("unknown op " + op)


def canon(o):
    if o[0] == "err":
        return ("err",)
    v = o[1]
    v = getattr(v, "value", v)
    if isinstance(v, complex) or (_np is not None and isinstance(v, _np.complexfloating)):
        return ("complex", repr(complex(v)))
    try:
        f = float(v)
    except Exception:
        return ("other", repr(v))
    return ("real", "nan" if math.isnan(f) else f.hex())


def nnodes(t):
    k = t[0]
    if k == "num":
        return 0
    return 1 + sum(nnodes(c) for c in t[1:] if isinstance(c, tuple))


def nontrivial(t):
    return nnodes(t) >= 2


# ---------------------------------------------------------------- reference recogniser (liberal)
_SYMS = sorted(["**", "==", "!=", "<=", ">=", "&&", "||", "+", "-", "*", "/", "<", ">", "!", "(", ")", ","],
               key=len, reverse=True)
_FUNCS = sorted(F1_FULL + F2_FULL, key=len, reverse=True)
_ARITY = {f: 1 for f in F1_FULL}
_ARITY.update({f: 2 for f in F2_FULL})


def _lex(s):
    i, out = 0, []
    while i < len(s):
        c = s[i]
        if c == " ":
            i += 1
            continue
        if c.isdigit() or c == ".":
            j = i
            while j < len(s) and (s[j].isdigit() or s[j] == "."):
                j += 1
            txt = s[i:j]
            try:
                float(txt)
            except ValueError:
                return None
            out.append(("num", txt))
            i = j
            continue
        for f in _FUNCS:
            if s.startswith(f + "(", i):
                out.append(("fun", f))
                i += len(f) + 1
                break
        else:
            for sy in _SYMS:
                if s.startswith(sy, i):
                    out.append(("sym", sy))
                    i += len(sy)
                    break
            else:
                return None
    return out


def wellformed(s):
    """True if s may be read as a well-formed expression (liberal: any number of signs and of '!')."""
    toks = _lex(s)
    if toks is None:
        return False
    pos = [0]

    def peek():
        return toks[pos[0]] if pos[0] < len(toks) else (None, None)

    def eat(kind, val=None):
        k, v = peek()
        if k == kind and (val is None or v == val or (isinstance(val, (list, tuple, set)) and v in val)):
            pos[0] += 1
            return v
        return None

    def prim():
        k, v = peek()
        if k == "num":
            pos[0] += 1
            return True
        if k == "fun":
            pos[0] += 1
            n = 0
            while True:
                if not expr():
                    return False
                n += 1
                if eat("sym", ","):
                    continue
                break
            return eat("sym", ")") is not None and n == _ARITY[v]
        if k == "sym" and v == "(":
            pos[0] += 1
            return expr() and eat("sym", ")") is not None
        return False

    def sgn():
        while eat("sym", ("+", "-")):
            pass
        return prim()

    def chain(sub, ops):
        def f():
            if not sub():
                return False
            while eat("sym", ops):
                if not sub():
                    return False
            return True
        return f

    pw = chain(sgn, ("**",))
    mul = chain(pw, ("*", "/"))
    add = chain(mul, ("+", "-"))
    cmp_ = chain(add, tuple(CMP_FULL))

    def neg():
        while eat("sym", "!"):
            pass
        return cmp_()

    and_ = chain(neg, ("&&",))
    expr_ = chain(and_, ("||",))

    def expr():
        return expr_()

    return expr() and pos[0] == len(toks)


# ---------------------------------------------------------------- ill-formed single edits
def spans(t, out=None, v="tight"):
    """render t and collect (kind, start, end, ...) spans of sub-terms in the rendered string"""
    # returns string; out collects tuples
    k = t[0]
    if k == "num":
        return t[1]
    if k in ("par", "f1"):
        head = "(" if k == "par" else t[1] + "("
        s = spans(t[-1], None, v)
        if out is not None:
            inner_out = []
            spans(t[-1], inner_out, v)
            for (kk, a, b, extra) in inner_out:
                out.append((kk, a + len(head), b + len(head), extra))
            if k == "f1":
                out.append(("arg1", len(head), len(head) + len(s), t[1]))
        return head + s + ")"
    if k == "f2":
        head = t[1] + "("
        a, b = spans(t[2], None, v), spans(t[3], None, v)
        if out is not None:
            for sub, off in ((t[2], len(head)), (t[3], len(head) + len(a) + 1)):
                inner_out = []
                spans(sub, inner_out, v)
                for (kk, x, y, extra) in inner_out:
                    out.append((kk, x + off, y + off, extra))
            out.append(("arg2a", len(head), len(head) + len(a) + 1, t[1]))      # first argument with its comma
            out.append(("arg2b", len(head) + len(a), len(head) + len(a) + 1 + len(b), t[1]))  # comma + second argument
        return head + a + "," + b + ")"
    if k in ("sgn", "not"):
        head = t[1] if k == "sgn" else "!"
        s = spans(t[-1], None, v)
        if out is not None:
            inner_out = []
            spans(t[-1], inner_out, v)
            for (kk, a, b, extra) in inner_out:
                out.append((kk, a + len(head), b + len(head), extra))
        return head + s
    op = t[1]
    l, r = spans(t[2], None, v), spans(t[3], None, v)
    if out is not None:
        for sub, off in ((t[2], 0), (t[3], len(l) + len(op))):
            inner_out = []
            spans(sub, inner_out, v)
            for (kk, x, y, extra) in inner_out:
                out.append((kk, x + off, y + off, extra))
        out.append(("lop", 0, len(l), op))
        out.append(("rop", len(l) + len(op), len(l) + len(op) + len(r), op))
        out.append(("op", len(l), len(l) + len(op), op))
    return l + op + r


def edits(t, inserts=True):
    """yield (kind, string) for every single edit of the tight rendering of t"""
    sp = []
    s = spans(t, sp)
    for i, c in enumerate(s):
        if c in "()":
            yield ("del-paren", s[:i] + s[i + 1:])
    if inserts:
        for i in range(len(s) + 1):
            yield ("ins-open", s[:i] + "(" + s[i:])
            yield ("ins-close", s[:i] + ")" + s[i:])
    for (k, a, b, extra) in sp:
        if k == "lop":
            yield ("del-left-operand", s[:a] + s[b:])
        elif k == "rop":
            yield ("del-right-operand", s[:a] + s[b:])
        elif k == "op":
            # two operands without an operator between them: (1)(2), 2sin(1), 2 (3) - not well-formed either
            yield ("del-operator", s[:a] + s[b:])
            yield ("del-operator", s[:a] + " " + s[b:])
        elif k == "arg1":
            yield ("del-arg", s[:a] + s[b:])
            yield ("add-arg", s[:b] + ",1" + s[b:])
            # an EMPTY extra argument (trailing / leading separator) is a wrong number of arguments as well
            yield ("add-empty-arg", s[:b] + "," + s[b:])
            yield ("add-empty-arg", s[:b] + " , " + s[b:])
            yield ("add-empty-arg", s[:a] + "," + s[a:])
        elif k == "arg2a":
            yield ("del-arg", s[:a] + s[b:])
            yield ("add-empty-arg", s[:a] + "," + s[a:])       # pow(,2,3)
            yield ("add-empty-arg", s[:b] + "," + s[b:])       # pow(2,,3)
        elif k == "arg2b":
            yield ("del-arg", s[:a] + s[b:])
            yield ("add-arg", s[:b] + ",1" + s[b:])
            yield ("add-empty-arg", s[:b] + "," + s[b:])       # pow(2,3,)
            yield ("add-empty-arg", s[:b] + " ," + s[b:])


# ---------------------------------------------------------------- layers
def layers(tier):
    A = Alphabet(NUMS_FULL, F1_FULL, F2_FULL, SIGNS_FULL)
    B = Alphabet(["0", "1", "2", "3"], ["sin", "log", "exp"], ["pow"], ["-", "+", "--", "-+"])
    # (name, alphabet, max nodes, blank variants, edits?, max nodes for which parenthesis insertions are tried,
    #  max nodes for which all variants are rendered (above: only the first variant))
    if tier == "thorough":
        L = [("A", A, 2, VARIANTS, True, 2, 2), ("B", B, 3, ["tight", "both"], True, 3, 3)]
    else:
        L = [("A", A, 2, VARIANTS, True, 1, 2), ("B", B, 3, ["tight", "both"], False, 0, 2)]
    if tier == "thorough":
        C = Alphabet(["2", "3"], ["sin"], ["pow"], ["-"], cmps=["<", "=="])
        D = Alphabet(["2", "3"], [], [], [], cmps=["<"], adds=["-"], muls=["/"], par=False)
        L += [("C", C, 4, ["tight", "both"], False, 0, 4), ("D", D, 5, ["tight", "both"], False, 0, 5)]
    return L


_ES = None


def init_worker():
    global _ES
    _prims()
    from scinumtools.solver import ExpressionSolver, AtomBase
    _ES = (ExpressionSolver, AtomBase)


def solve(s):
    ES, AB = _ES
    return outcome(lambda: ES(AB).solve(s))


NSHARD = 64


CHAIN_LENGTHS = dict(quick=[30, 60, 120, 250, 500], thorough=[30, 60, 120, 250, 500, 900])


def chain_asts(tier):
    """long FLAT well-formed expressions: one operator (or two alternating ones of the same step) repeated L times"""
    ops = [("+",), ("-",), ("*",), ("/",), ("**",), ("+", "-"), ("*", "/"), ("&&",), ("||",), ("&&", "||"),
           ("<",), ("==",), ("!=", ">=")]
    for group in ops:
        for L in CHAIN_LENGTHS[tier]:
            if group == ("**",):
                nums = ["1"] * (L + 1)
            elif group[0] in ("&&", "||"):
                nums = [("1", "0", "0")[i % 3] for i in range(L + 1)]
            else:
                nums = [("1", "2", "3")[i % 3] for i in range(L + 1)]
            # precedence: && binds tighter than ||  -> build the tree by the grammar, not blindly left-nested
            if group == ("&&", "||"):
                terms, cur = [], ("num", nums[0])
                for i in range(L):
                    op = group[i % 2]
                    if op == "&&":
                        cur = ("bin", "&&", cur, ("num", nums[i + 1]))
                    else:
                        terms.append(cur)
                        cur = ("num", nums[i + 1])
                terms.append(cur)
                t = terms[0]
                for x in terms[1:]:
                    t = ("bin", "||", t, x)
            else:
                t = ("num", nums[0])
                for i in range(L):
                    t = ("bin", group[i % len(group)], t, ("num", nums[i + 1]))
            yield (list(group), L), t


def plan(tier, seed):
    out = []
    for (name, _, n, _, _, _, _) in layers(tier):
        for k in range(NSHARD):
            out.append((tier, name, k))
    out.append((tier, "chains", 0))
    return out


def _tags(t, s):
    tags = []
    import re
    if re.search(r",\(", s):
        tags.append("paren-directly-after-comma")
    for f in F1_FULL + F2_FULL:
        if re.search(re.escape(f) + r"\([^)]*" + re.escape(f) + r"\(", s):
            tags.append("same-function-nested")
    if re.search(r"[0-9)]\s*[+-]\s*[+-]", s) and "**" in s:
        tags.append("sign-after-additive-before-power")
    return tags


def check_ast(sh, t, variants, seen, chain=None):
    try:
        exp = ("ok", ev(t))
    except Exception as e:
        exp = ("err", type(e).__name__, str(e))
    cexp = canon(exp)
    for v in variants:
        s = render_top(t, v)
        if s in seen:
            continue
        seen.add(s)
        got = solve(s)
        sh.evaluations += 1
        cg = canon(got)
        sh.count("wf:" + cg[0])
        if cg != cexp:
            beh = ("raises:" + got[1]) if got[0] == "err" else ("accepts-invalid" if cexp[0] == "err" else "wrong-value")
            case = dict(ast=t, variant=v, text=s) if chain is None else dict(chain=chain, variant=v, text=s[:120] + "...")
            sh.fail(failure("wellformed", case, exp[1:] if exp[0] == "err" else repr(exp[1]),
                            got[1:] if got[0] == "err" else repr(getattr(got[1], "value", got[1])),
                            tags=_tags(t, s), behaviour=beh))


def check_edits(sh, t, seen, inserts=True):
    for kind, s in edits(t, inserts):
        if s in seen:
            continue
        seen.add(s)
        if wellformed(s):
            sh.count("edit-discarded-wellformed")
            continue
        got = solve(s)
        sh.evaluations += 1
        sh.count("ill:" + ("rejected" if got[0] == "err" else "ACCEPTED"))
        sh.count("edit:" + kind)
        if got[0] != "err":
            sh.fail(failure("illformed", dict(text=s, edit=kind, origin=render(t)), "an error",
                            repr(getattr(got[1], "value", got[1])), tags=["edit:" + kind], behaviour="accepted-illformed"))


def run_shard(desc):
    tier, lname, k = desc
    sh = Shard(PROPERTY)
    seen = set()
    if lname == "chains":
        import sys
        sys.setrecursionlimit(max(sys.getrecursionlimit(), 5000))
        n = 0
        for key, t in chain_asts(tier):
            before = len(seen)
            check_ast(sh, t, ["tight", "both"], seen, chain=key)
            sh.nontrivial += len(seen) - before
            n += 1
        sh.add_extra("chain_expressions", n)
        sh.count("chains", n)
        return sh
    for (name, alpha, nmax, variants, do_edits, nins, nvar) in layers(tier):
        if name != lname:
            continue
        idx = 0
        for n in range(nmax + 1):
            for t in alpha.iter(OR, n):
                idx += 1
                if idx % NSHARD != k:
                    continue
                before = len(seen)
                check_ast(sh, t, variants if n <= nvar else variants[:1], seen)
                if nontrivial(t):
                    sh.nontrivial += len(seen) - before
                if do_edits:
                    check_edits(sh, t, seen, inserts=(n <= nins))
                if n == nmax and len(sh.samples) < 1:
                    sh.sample(render_top(t, variants[-1]))
        sh.add_extra("asts_layer_" + name, (idx + NSHARD - 1 - k) // NSHARD)
    return sh


def _totuple(x):
    return tuple(_totuple(i) for i in x) if isinstance(x, list) else x


def replay(rec):
    import sys
    sys.setrecursionlimit(max(sys.getrecursionlimit(), 5000))
    c = rec["case"]
    sh = Shard()
    if rec["sub"] == "wellformed" and "chain" in c:
        for tier in ("quick", "thorough"):
            for key, t in chain_asts(tier):
                if list(key) == [list(c["chain"][0]), c["chain"][1]] and not sh.failures:
                    check_ast(sh, t, [c["variant"]], set(), chain=key)
    elif rec["sub"] == "wellformed":
        check_ast(sh, _totuple(c["ast"]), [c["variant"]], set())
    else:
        s = c["text"]
        got = solve(s)
        if got[0] != "err" and not wellformed(s):
            sh.fail(failure("illformed", c, "an error", repr(getattr(got[1], "value", got[1])),
                            tags=["edit:" + c.get("edit", "")], behaviour="accepted-illformed"))
    return sh.failures[0] if sh.failures else None


def finish(total, tier, seed):
    h = total.hist
    if not (h.get("wf:real", 0) > 1000 and h.get("wf:err", 0) > 10 and h.get("ill:rejected", 0) > 1000):
        raise HarnessError("vacuous run: " + repr(h))
    return dict(layers={n: dict(max_nodes=m, variants=v, edits=e, paren_insertions_up_to_nodes=i, all_variants_up_to_nodes=nv)
                        for (n, _, m, v, e, i, nv) in layers(tier)},
                caps_hit=[])


MANIFEST = dict(
    text="Complete unfolding of the stratified grammar of the default operator table: layer A all operators, functions, "
         "numbers and sign strings with <= 2 nodes in 7 blank variants plus every single-edit ill-formed variant; layer B "
         "<= 3 nodes over reduced alphabets; thorough adds <= 4 and <= 5 node layers and edits of layer B. Every string is "
         "solved by the real solver and compared bit-for-bit with a bottom-up evaluation of its AST in the documented order.",
    note="Small-scope hypothesis beyond the node bounds; number alphabet {0,1,2,3,0.5,2.5,10}; oracle primitives mirror "
         "AtomBase; a liberal recursive-descent recogniser decides which edited strings are still well-formed (discarded).",
    technique="bounded exhaustive grammar enumeration against a reference evaluator (differential, bit-exact)",
)
