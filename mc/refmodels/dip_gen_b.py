"""Generator, renderer and reference semantics for C15 (clause selection of @case/@else/@end blocks).

Nothing in this file parses DIP text and nothing is imported from the library: programs are ASTs produced by the
enumerator below, `render` turns an AST into text lines, `reference` interprets the *AST* by the property statement.

AST
    program := item*
    item    := ("d", p)              definition  `v<line> int = <line>`; p=1 adds the property line `!tags ["t"]`;
                                     p=2 writes the value as a reference `v<line> int = {?v1}` (the node has to be
                                     *evaluated* when it takes effect); only in programs that never modify v1,
                                     because injection of a modified node is a separate suspect of property C17
             | ("m", sel)            modification `<target> = 100+<line>` of an earlier node that is certainly defined
                                     sel "n": nearest such node, "r": the definition on line 1 of the program
             | ("g", items)          group line with >= 1 child
             | ("u",)                two lines: `$unit u<line> = 5 cm` and a node that needs it
                                     `v<line+1> float = <line+1> [u<line>]`
             | ("q", block)          a definition with a block *among its property lines*:
                                     `v<line> int = <line>` / block one level deeper / `!tags ["t"]` at the block's
                                     indentation (the property line is then the first line after the block; it
                                     belongs to the definition).  Only when no node inside the block takes effect:
                                     the library attaches a property to the last accepted node, and which node a
                                     property after an accepted child belongs to is not this property's subject.
             | ("b", clauses, end)   block; clauses = ((cond, items), ...); cond in
                                        "T" `true`   "F" `false`
                                        "P" `("{?v1} == 1")`  (true until v1 has been modified; v1 starts as 1)
                                        "Q" `("{?v1} != 1")`  (true once v1 has been modified)
                                        "E" `@else` (only as last clause, never first)
                                     Programs whose expression conditions are all P (all Q) are also rendered with
                                     line 1 `v1 bool = true` (`false`) and the condition as the bare reference
                                     `@case {?v1}`; modifications of v1 then write the negated value (Walk(root=)).
                                     end=1 writes the closing `@end`
Every line is indented by two blanks per enclosing group/clause.
"""
import functools
import itertools

MAXCL = 3          # clauses per block


# ------------------------------------------------------------------------------------------ enumeration
# An alphabet A is the pair (conds, kinds): conds = condition letters allowed on @case lines; kinds = True admits
# modifications and property lines in addition to plain definitions.
# A third component holds flags: "s" admits the two-line `$source` + import placeholder ("s",), "n" forbids groups.
STATIC = (("T", "F"), False, "")
FULL = (("T", "F", "P", "Q"), True, "")
HOST = (("T", "F"), False, "s")        # documents that declare and import a remote source (exactly one placeholder)
REMOTE = (("T", "F"), False, "n")      # the remote documents


def _compositions(total, parts):
    """all tuples of `parts` positive integers summing to `total`"""
    if parts == 1:
        if total >= 1:
            yield (total,)
        return
    for first in range(1, total - parts + 2):
        for rest in _compositions(total - first, parts - 1):
            yield (first,) + rest


@functools.lru_cache(maxsize=None)
def count(n, bd, ing, A):
    """number of item sequences of exactly n lines"""
    if n == 0:
        return 1
    if n <= 4:
        return len(_seqs_list(n, bd, ing, A))
    return sum(1 for _ in _seqs_lazy(n, bd, ing, A))


_MEMO_LIMIT = 60000


@functools.lru_cache(maxsize=None)
def _seqs_list(n, bd, ing, A):
    return tuple(_seqs_lazy(n, bd, ing, A))


def seqs(n, bd, ing, A):
    """all item sequences that render to exactly n lines; bd = block nesting still allowed, ing = inside a group"""
    if n <= 4 or count(n, bd, ing, A) <= _MEMO_LIMIT:
        return _seqs_list(n, bd, ing, A)
    return _seqs_lazy(n, bd, ing, A)


def _join(firsts, n_rest, bd, ing, A):
    for it in firsts:
        for rest in seqs(n_rest, bd, ing, A):
            # a block directly followed by a block must be closed by @end (else the text *is* one longer block)
            if it[0] == "b" and not it[2] and rest and rest[0][0] == "b":
                continue
            yield (it,) + rest


def _seqs_lazy(n, bd, ing, A):
    if n == 0:
        yield ()
        return
    for k in range(1, n + 1):
        yield from _join(items(k, bd, ing, A), n - k, bd, ing, A)


def block_headers(k, bd, A):
    """(end, sizes, conds) of every block of exactly k lines; sizes = lines per clause including its keyword"""
    if bd <= 0:
        return
    for end in (0, 1):
        body = k - end
        for ncl in range(1, min(MAXCL, body) + 1):
            for sizes in _compositions(body, ncl):
                for has_else in ((0, 1) if ncl >= 2 else (0,)):
                    for cs in itertools.product(A[0], repeat=ncl - has_else):
                        yield (end, sizes, cs + (("E",) if has_else else ()))


def blocks_of(header, bd, ing, A):
    end, sizes, cs = header
    per_clause = [seqs(m - 1, bd - 1, ing, A) for m in sizes]
    if len(per_clause) == 1:            # keep the (possibly lazy, large) single body list lazy
        for body in per_clause[0]:
            yield ("b", ((cs[0], body),), end)
        return
    for bodies in itertools.product(*per_clause):
        yield ("b", tuple(zip(cs, bodies)), end)


def items(k, bd, ing, A):
    if k == 1:
        yield ("d", 0)
        if A[1]:
            yield ("d", 2)
            yield ("m", "n")
            yield ("m", "r")
    if k == 2 and A[1]:
        yield ("d", 1)
        yield ("u",)
    if k >= 3 and A[1] and bd > 0:
        for h in block_headers(k - 2, bd, A):
            for blk in blocks_of(h, bd, ing, A):
                yield ("q", blk)
    if k == 2 and "s" in A[2]:
        yield ("s",)
    if k >= 2 and not ing and "n" not in A[2]:
        for s in seqs(k - 1, bd, True, A):
            yield ("g", s)
    for h in block_headers(k, bd, A):
        yield from blocks_of(h, bd, ing, A)


def headers(n, bd, A):
    """Cut the programs of exactly n lines into disjoint classes by the shape of their first item.
    Returns [(header, estimated size)]; header = (k, kind, detail)."""
    out = []
    for k in range(1, n + 1):
        rest = count(n - k, bd, False, A)
        if k == 1:
            out.append(((k, "d", 0), rest))       # a modification cannot be the first line
        if k == 2 and A[1]:
            out.append(((k, "d", 1), rest))
            out.append(((k, "u", None), rest))
        if k >= 3 and A[1]:
            for h in block_headers(k - 2, bd, A):
                size = rest
                for m in h[1]:
                    size *= count(m - 1, bd - 1, False, A)
                out.append(((k, "q", h), size))
        if k >= 2:
            out.append(((k, "g", None), count(k - 1, bd, True, A) * rest))
        for h in block_headers(k, bd, A):
            size = rest
            for m in h[1]:
                size *= count(m - 1, bd - 1, False, A)
            out.append(((k, "b", h), size))
    return out


def programs_under(n, bd, A, header):
    """all programs of exactly n lines whose first item has the given header (lazy)"""
    k, kind, detail = header
    if kind == "d":
        firsts = [("d", detail)]
    elif kind == "u":
        firsts = [("u",)]
    elif kind == "q":
        firsts = (("q", blk) for blk in blocks_of(detail, bd, False, A))
    elif kind == "g":
        firsts = (("g", s) for s in seqs(k - 1, bd, True, A))
    else:
        firsts = blocks_of(detail, bd, False, A)
    return _join(firsts, n - k, bd, False, A)


def programs(n, bd, A):
    """all programs of exactly n lines (lazy)"""
    return _seqs_lazy(n, bd, False, A)


# ------------------------------------------------------------------------------------------ rendering + reference
# Literal conditions written as expressions over a node `c int = 5` that is defined in front of the program and never
# modified: (true instance, false instance) of every comparison operator and of && / || / ~ combinations whose final
# value comes from each of them.
COND_FORMS = {
    "eq": ("{?c} == 5", "{?c} == 4"),
    "ne": ("{?c} != 4", "{?c} != 5"),
    "lt": ("{?c} < 6", "{?c} < 5"),
    "gt": ("{?c} > 4", "{?c} > 5"),
    "le": ("{?c} <= 5", "{?c} <= 4"),
    "ge": ("{?c} >= 5", "{?c} >= 6"),
    "le2": ("{?c} <= 6", "{?c} <= 3"),
    "ge2": ("{?c} >= 4", "{?c} >= 7"),
    "and": ("{?c} > 4 && {?c} <= 5", "{?c} >= 5 && {?c} <= 4"),
    "and2": ("{?c} <= 5 && {?c} >= 5", "{?c} <= 4 && {?c} >= 5"),
    "or": ("{?c} <= 4 || {?c} >= 5", "{?c} < 4 || {?c} >= 6"),
    "or2": ("{?c} >= 5 || {?c} <= 4", "{?c} >= 6 || {?c} <= 4"),
    "not": ("~({?c} <= 4)", "~({?c} >= 5)"),
    "not2": ("~({?c} > 5)", "~({?c} < 6)"),
}
COND_NODE = ((0, "c int = 5"), {"c": 5})


class Invalid(Exception):
    """the AST is outside the alphabet (unresolvable / duplicate modification target, condition without v1, ...)"""


GROUP_NAMES = {"asc": ("a", "b", "c", "d"), "desc": ("d", "c", "b", "a")}


class Walk:
    """One pass over the AST producing the text lines, the expected result and the shape features.

    The expected result follows the statement: the selected clause of a block is the first @case whose condition is
    true (evaluated when its keyword is reached), else @else; an item takes effect iff every enclosing clause is the
    selected one.  A clause's extent is given by the AST, so closing by @end / next clause / indentation needs no
    decision here - the renderer only has to make sure the *text* has exactly that reading under the statement's rule.
    """

    def __init__(self, prog, gorder="asc", root="int", cform=None, px="v", remote=None, srcfile=None):
        """root: "int"   line 1 is `v1 int = 1`, P/Q are the expressions `("{?v1} == 1")` / `("{?v1} != 1")`
                 "boolT" line 1 is `v1 bool = true`,  P is the bare reference `@case {?v1}` (no Q allowed)
                 "boolF" line 1 is `v1 bool = false`, Q is the bare reference `@case {?v1}` (no P allowed)
           In the bool variants a modification of v1 writes the negated initial value, so P (true until v1 is
           modified) and Q (true once v1 is modified) keep their meaning; only the *form* of the condition differs."""
        self.cform = cform         # write literal conditions as comparison expressions over node `c` (COND_FORMS)
        self.px = px               # name prefix of the definitions ("v<line>")
        self.remote = remote       # Walk of the remote document imported by the ("s",) item
        self.srcfile = srcfile
        self.nsources = 0
        self.root = root
        self.root_initial = {"int": 1, "boolT": True, "boolF": False}[root]
        self.bare_refs = 0
        self.lines = []            # (indent, text)
        self.flat = []             # (flat kind, indent) per line: the same program in the E1 alphabet
        self.flat_ok = True        # False if a condition is an expression (no E1 letter for it)
        self.def_lines = {}        # position -> full name of the definition on that line
        self.data = {}             # expected name -> value
        self.tagged = set()        # expected names carrying tag "t"
        self.feat = set()
        self.gnames = GROUP_NAMES[gorder]
        self.ngroups = 0
        self.nblocks = 0
        self.root_def = None       # (name,) of a definition on line 1
        self.uses_root = False
        self.root_modified = False
        self.source_in_effect = False
        self.imported = set()      # names that came from the remote document
        self.accepted = 0          # number of typed nodes that took effect so far
        self.ref_defs = False
        self.depth_max = 0
        self.effective_lines = 0
        self.skipped_lines = 0
        self.effective_values = set()        # every value assigned by a line that takes effect
        self.probe_in_or_after_block = False
        # scope: list of visible certainly-defined definitions [(group_path tuple, name)] per clause chain
        self._seq(prog, 0, (), [], True, top=True)
        if self.uses_root and self.root_def is None:
            raise Invalid("condition/modification refers to v1 but line 1 is not a root definition")
        if self.ref_defs and self.root_modified:
            raise Invalid("reference definitions only in programs that never modify v1 (C17 territory)")
        if root != "int" and not self.bare_refs:
            raise Invalid("bool-root variant without a bare-reference condition (same as the int variant)")

    def _emit(self, ind, text, kind="n"):
        self.lines.append((ind, text))
        self.flat.append((kind, ind))
        return len(self.lines)

    def _seq(self, seq, ind, gpath, visible, eff, top=False):
        """visible: definitions certainly in effect whenever this sequence is (list is extended in place by own defs)"""
        for pos, it in enumerate(seq):
            kind = it[0]
            if kind == "d":
                ln = self._emit(ind, None)
                name = "%s%d" % (self.px, ln)
                val = ln
                if it[1] == 2:
                    if self.root_def is None or self.root != "int":
                        raise Invalid("reference definition without an integer v1")
                    self.lines[-1] = (ind, "%s int = {?%s}" % (name, self.root_def))
                    val = 1
                    self.uses_root = True
                    self.ref_defs = True
                    self.feat.add("reference-valued-definition")
                elif top and pos == 0 and self.root != "int":
                    val = self.root_initial
                    self.lines[-1] = (ind, "%s bool = %s" % (name, "true" if val else "false"))
                else:
                    self.lines[-1] = (ind, "%s int = %d" % (name, ln))
                full = ".".join(gpath + (name,))
                self.def_lines[ln - 1] = full
                if top and pos == 0:
                    self.root_def = full
                visible.append((gpath, name, full))
                if eff:
                    self.data[full] = val
                    self.effective_values.add(val)
                    self.accepted += 1
                if self.nblocks:
                    self.probe_in_or_after_block = True
                if it[1] == 1:
                    self._emit(ind + 1, '!tags ["t"]')
                    if eff:
                        self.tagged.add(full)
                    self.feat.add("property-line")
                self._tally(eff, 2 if it[1] == 1 else 1)
            elif kind == "m":
                # a name is always relative to the enclosing group lines, so only nodes at or below the current
                # group path can be addressed
                cands = [v for v in visible if v[0][:len(gpath)] == gpath]
                if not cands:
                    raise Invalid("no certainly-defined earlier node to modify")
                near = cands[-1]
                if it[1] == "n":
                    tgt = near
                else:
                    if self.root_def is None or gpath or near[2] == self.root_def:
                        raise Invalid("root target missing, not addressable or identical to the nearest one")
                    tgt = ((), self.root_def, self.root_def)
                    self.uses_root = True
                rel = ".".join(tgt[0][len(gpath):] + (tgt[1],))
                ln = self._emit(ind, None)
                newval = 100 + ln
                if tgt[2] == self.root_def and self.root != "int":
                    newval = not self.root_initial
                    self.lines[-1] = (ind, "%s = %s" % (rel, "true" if newval else "false"))
                else:
                    self.lines[-1] = (ind, "%s = %d" % (rel, newval))
                if tgt[2] == self.root_def:
                    self.root_modified = True
                if eff:
                    self.data[tgt[2]] = newval
                    self.effective_values.add(newval)
                if self.nblocks:
                    self.probe_in_or_after_block = True
                self.feat.add("modification")
                self._tally(eff, 1)
            elif kind == "s":
                # `$source s = <file>` and, at the same indentation, the import of all its nodes: when the two lines
                # take effect the remote document is parsed as a document of its own and its parameters appear
                # below the current group path
                self.nsources += 1
                self._emit(ind, "$source s = %s" % self.srcfile)
                self._emit(ind, "{s?*}")
                if eff:
                    for rname, rval in self.remote.data.items():
                        self.imported.add(".".join(gpath + (rname,)))
                        self.data[".".join(gpath + (rname,))] = rval
                        self.effective_values.add(rval)
                    self.accepted += len(self.remote.data)
                    self.source_in_effect = True
                if self.nblocks:
                    self.probe_in_or_after_block = True
                self.feat.add("source-import")
                self._tally(eff, 2)
            elif kind == "u":
                ln = self._emit(ind, None)
                self.lines[-1] = (ind, "$unit u%d = 5 cm" % ln)
                ln2 = self._emit(ind, "%s%d float = %d [u%d]" % (self.px, ln + 1, ln + 1, ln))
                full = ".".join(gpath + ("%s%d" % (self.px, ln2),))
                self.def_lines[ln2 - 1] = full
                if eff:
                    self.data[full] = ln2
                    self.effective_values.add(ln2)
                    self.accepted += 1
                if self.nblocks:
                    self.probe_in_or_after_block = True
                self.feat.add("unit-directive")
                self._tally(eff, 2)
            elif kind == "q":
                ln = self._emit(ind, None)
                name = "%s%d" % (self.px, ln)
                self.lines[-1] = (ind, "%s int = %d" % (name, ln))
                full = ".".join(gpath + (name,))
                self.def_lines[ln - 1] = full
                visible.append((gpath, name, full))
                if eff:
                    self.data[full] = ln
                    self.effective_values.add(ln)
                    self.accepted += 1
                self._tally(eff, 1)
                before = self.accepted
                self._block(it[1], ind + 1, gpath + (name,), visible, eff)
                if self.accepted != before:
                    raise Invalid("a node inside the block took effect: owner of the following property line not demanded")
                self._emit(ind + 1, '!tags ["t"]')
                if eff:
                    self.tagged.add(full)
                self.probe_in_or_after_block = True
                self.feat.add("property-line")
                self.feat.add("property-line-after-block")
                self._tally(eff, 1)
            elif kind == "g":
                if self.ngroups >= len(self.gnames):
                    raise Invalid("too many groups")
                g = self.gnames[self.ngroups]
                self.ngroups += 1
                self._emit(ind, g)
                self._tally(eff, 1)
                self._seq(it[1], ind + 1, gpath + (g,), visible, eff)
                self.feat.add("group")
            else:
                self._block(it, ind, gpath, visible, eff)

    def _tally(self, eff, n):
        if eff:
            self.effective_lines += n
        else:
            self.skipped_lines += n

    def _cond(self, c):
        if c in "TF" and self.cform:
            self.feat.add("comparison-condition")
            return '("%s")' % COND_FORMS[self.cform][c == "F"], c == "T"
        if c == "T":
            return "true", True
        if c == "F":
            return "false", False
        self.uses_root = True
        self.feat.add("expression-condition")
        if self.root_def is None:
            raise Invalid("expression condition without v1")
        unmodified = self.data[self.root_def] == self.root_initial
        if self.root != "int":
            if (self.root == "boolT") != (c == "P"):
                raise Invalid("this condition has no bare-reference form in this variant")
            self.bare_refs += 1
            self.feat.add("bare-reference-condition")
            return "{?%s}" % self.root_def, unmodified == (c == "P")
        if c == "P":
            return '("{?%s} == 1")' % self.root_def, unmodified
        return '("{?%s} != 1")' % self.root_def, not unmodified

    def _block(self, it, ind, gpath, visible, eff):
        _, clauses, end = it
        self.nblocks += 1
        found = False
        for cond, body in clauses:
            if cond == "E":
                self._emit(ind, "@else", "el")
                sel = not found
            else:
                text, val = self._cond(cond)
                self._emit(ind, "@case " + text, "cT" if val else "cF")
                if cond not in "TF":
                    self.flat_ok = False
                sel = val and not found
                found = found or val
            self._tally(eff, 1)
            # definitions made inside a clause are visible only inside that clause
            self._seq(body, ind + 1, gpath, list(visible), eff and sel)
        if end:
            self._emit(ind, "@end", "en")
            self._tally(eff, 1)

    def cross_check(self):
        """Second reading of the same lines by the independently written indentation automaton (flat_reference):
        it must call the program well-formed and select the same definitions.  Expression conditions enter with
        the truth value the reference computed for them.  Returns True when both readings agree."""
        verdict, info, _ = flat_reference(tuple(self.flat))
        if verdict != "ok":
            return False
        return {self.def_lines[p] for p in info if p in self.def_lines} == set(self.data) - self.imported


def text_of(lines, unit=2):
    return "\n".join(" " * (unit * i) + t for i, t in lines)


# ------------------------------------------------------------------------------------------ shape features
def shape_features(prog):
    """Input features of a program (used as failure tags).  All are properties of the AST / truth values only."""
    f = set()
    _shape(prog, f, [], None)
    return f


def _last_line_block_chain(seq):
    """number of blocks (without @end) that are still open after the last line of this sequence"""
    if not seq:
        return 0
    it = seq[-1]
    if it[0] == "g":
        return _last_line_block_chain(it[1])
    if it[0] == "b" and not it[2]:
        return 1 + _last_line_block_chain(it[1][-1][1])
    return 0


def _shape(seq, f, chain, follower):
    """chain: list of 'sel'/'unsel'/'?' for the enclosing clauses; follower: what follows this sequence at a
    shallower level ('node', 'keyword', None)"""
    for pos, it in enumerate(seq):
        nxt = seq[pos + 1] if pos + 1 < len(seq) else None
        nxt_kind = ("keyword" if nxt[0] == "b" else "node") if nxt is not None else follower
        if it[0] == "q":
            _shape((it[1],), f, chain, "node")
        elif it[0] == "g":
            _shape(it[1], f, chain, nxt_kind)
            opened = _last_line_block_chain(it[1])
            if opened and nxt_kind:
                f.add("indent-close-from-group")
        elif it[0] == "b":
            _, clauses, end = it
            if chain:
                f.add("nested-block")
            if len(chain) >= 2:
                f.add("nesting>=3")
            static = all(c in "TFE" for c, _ in clauses)
            found = False
            for ci, (c, body) in enumerate(clauses):
                if c in "PQ":
                    sel = "?"
                elif c == "E":
                    sel = "sel" if (static and not found) else ("unsel" if static else "?")
                else:
                    sel = "sel" if (c == "T" and not found and static) else ("unsel" if (c == "F" or found) and static else "?")
                    found = found or c == "T"
                if ci > 0 and c == "T" and any(cc == "T" for cc, _ in clauses[:ci]):
                    f.add("second-true-case")
                last = ci == len(clauses) - 1
                inner_follow = "keyword" if (not last or end) else nxt_kind
                if not body:
                    f.add("empty-clause")
                if "unsel" in chain and sel == "sel":
                    f.add("selected-clause-inside-unselected")
                _shape(body, f, chain + [sel], inner_follow)
                opened = _last_line_block_chain(body)
                if last and not end and nxt_kind:
                    f.add("closed-by-indentation")
                    if sel == "unsel":
                        f.add("unselected-last-clause-closed-by-indentation")
                    if nxt_kind == "node":
                        f.add("node-after-indent-closed-block")
                if opened and (not last or end or nxt_kind):
                    f.add("inner-block-closed-by-outer-line")
                    if opened >= 2 or (last and not end and nxt_kind):
                        f.add("two-blocks-closed-at-once")
            if end:
                f.add("explicit-end")
            if nxt is not None and nxt[0] == "b":
                f.add("consecutive-blocks")


# ------------------------------------------------------------------------------------------ counter prefixes
# The library numbers clause keywords (@case, @else and @end alike) and blocks with document-wide counters and uses
# the numbers as ids.  A prefix of closed blocks in front of a small program starts that program from a non-initial
# state of those counters.  Units (ids consumed / blocks opened), all closed before the program starts:
#   D  @case true / @case false / x / @else / p / @end(outer)      4 ids, 2 blocks (nested, multi-clause, closes 2)
#   B  @case false / x / @else / p / @end                           3 ids, 1 block
#   A  @case true / p / @end                                        2 ids, 1 block
#   C  @case true / p / q (q at root closes by indentation)         1 id,  1 block
_UNITS = {
    "D": (4, [(0, "@case true", "cT", None), (1, "@case false", "cF", None), (2, "x%d int = %d", "n", False),
              (1, "@else", "el", None), (2, "p%d int = %d", "n", True), (0, "@end", "en", None)]),
    "B": (3, [(0, "@case false", "cF", None), (1, "x%d int = %d", "n", False), (0, "@else", "el", None),
              (1, "p%d int = %d", "n", True), (0, "@end", "en", None)]),
    "A": (2, [(0, "@case true", "cT", None), (1, "p%d int = %d", "n", True), (0, "@end", "en", None)]),
    "C": (1, [(0, "@case true", "cT", None), (1, "p%d int = %d", "n", True), (0, "q%d int = %d", "n", True)]),
}


@functools.lru_cache(maxsize=None)
def counter_prefix(k):
    """A prefix that consumes exactly k clause-keyword ids.
    Returns (lines [(indent, text)], flat [(kind, indent)], expected {name: value}, effective flat positions)."""
    units = ["D"] * (k // 4) + {0: [], 1: ["C"], 2: ["A"], 3: ["B"]}[k % 4]
    lines, flat, data, eff = [], [], {}, set()
    for u, name in enumerate(units):
        for ind, text, kind, effective in _UNITS[name][1]:
            if kind == "n":
                val = 1000 + len(lines)
                text = text % (u, val)
                if effective:
                    data[text.split()[0]] = val
                    eff.add(len(lines))
            lines.append((ind, text))
            flat.append((kind, ind))
    assert sum(_UNITS[n][0] for n in units) == k
    return tuple(lines), tuple(flat), data, frozenset(eff)


def prefix_cross_check(k, w):
    """The indentation automaton reads prefix + program: well-formed, and exactly the expected lines in effect."""
    plines, pflat, pdata, peff = counter_prefix(k)
    verdict, info, _ = flat_reference(pflat + tuple(w.flat))
    if verdict != "ok":
        return False
    off = len(pflat)
    node_pos = {i for i, (kind, _) in enumerate(pflat) if kind == "n"}
    if {i for i in info if i < off} != set(peff) or not set(peff) <= node_pos:
        return False
    return {w.def_lines[i - off] for i in info if i >= off and (i - off) in w.def_lines} == set(w.data)


# ------------------------------------------------------------------------------------------ flat sequences (E1)
FLAT_KINDS = ("n", "cT", "cF", "el", "en")
FLAT_ALPHABET = tuple((k, i) for i in (0, 1, 2) for k in FLAT_KINDS)


def flat_text(seq, unit=2):
    out = []
    for pos, (k, ind) in enumerate(seq):
        pad = " " * (unit * ind)
        if k == "n":
            out.append("%sn%d int = %d" % (pad, pos, pos))
        elif k == "cT":
            out.append(pad + "@case true")
        elif k == "cF":
            out.append(pad + "@case false")
        elif k == "el":
            out.append(pad + "@else")
        else:
            out.append(pad + "@end")
    return "\n".join(out)


def _in_effect(blocks):
    """True / False / None (not judged) for a position inside the current clauses of `blocks`"""
    vals = [b[3] for b in blocks]
    if any(v is False for v in vals):
        return False
    if any(v is None for v in vals):
        return None
    return True


def flat_reference(seq):
    """Classify a flat line sequence by the statement.

    returns (verdict, info, state)      state = canonical stack of open blocks after the last line (None if terminal)
      ("ok", frozenset of positions of node lines that take effect, state)
      ("unjudged", reason, state)   the sequence contains a @case after the @else of its block.  Whether that @case
                                   is legal and what it selects is not demanded, so effects are not compared - but
                                   the sequence is still *extended*, because a second @else of the same block is a
                                   misplaced @else whatever lies between
      ("must-raise", reason, None)  a misplaced @else/@end at a position that is itself in effect
      ("undefined", reason, None)   a misplaced keyword inside a clause that is not selected or not judged (the
                                   statement does not say whether skipped text is validated)
    Blocks are identified by the indentation of their keywords: a line indented no deeper than the keyword ends the
    clause (a keyword at exactly that indentation continues/ends the same block, any other line closes it).
    """
    stack = []       # [indent, has_else, found_true, current_selected (None = not judged)]
    eff = set()
    unjudged = False
    for pos, (k, ind) in enumerate(seq):
        if k == "n":
            while stack and stack[-1][0] >= ind:
                stack.pop()
            if _in_effect(stack):
                eff.add(pos)
            continue
        while stack and stack[-1][0] > ind:
            stack.pop()
        top = stack[-1] if stack and stack[-1][0] == ind else None
        # a keyword of block `top` sits in the clauses of the blocks below it; any other keyword in all open clauses
        here = _in_effect(stack[:-1] if top is not None else stack)
        if k in ("cT", "cF"):
            val = k == "cT"
            if top is None:
                stack.append([ind, False, val, val])
            elif top[1]:
                top[3] = None               # @case after @else: selection not judged from here on
                unjudged = True
            else:
                top[3] = val and not top[2]
                top[2] = top[2] or val
            continue
        if k == "el" and top is not None and not top[1]:
            top[1] = True
            top[3] = not top[2]
            continue
        if k == "en" and top is not None:
            stack.pop()
            continue
        if k == "el":
            why = ("else-without-open-block-at-level" if top is None else
                   "second-else-after-case" if top[3] is None else "else-after-else")
        else:
            why = "end-without-open-block-at-level"
        if here is True:
            return ("must-raise", why, None)
        return ("undefined", why + ("-in-unselected-clause" if here is False else "-in-unjudged-clause"), None)
    state = tuple(tuple(b) for b in stack)
    if unjudged:
        return ("unjudged", "case-after-else", state)
    return ("ok", frozenset(eff), state)
